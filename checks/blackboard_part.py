"""Port-level clause of C12 (one writer port, one write handle per key, a refused second one does not
disturb the first, reads through the blackboard API are atomic and monotone) - plugged into
checks/C12.py (`c12_blackboard(ctx)`), and the shared machinery of checks/limits_parts.py (C08).

Round trip (DESIGN.md 2.2):  TLC model-checks spec/api/Blackboard.tla (MC_Blackboard) and generates
programs (`-simulate` over BlackboardGen) -> harness/drivers/blackboard executes them (and directed
scripts) on REAL writers / readers / entry handles of ipc and local services in isolated domains ->
TLC validates every recorded call against spec/api/BlackboardTrace.tla.  TLC is the only judge: a
VIOLATION is a recorded call the trace specification cannot explain or a state of the explained
trace that violates a named invariant of Blackboard.tla.
"""
import json
import os
import random
import re

import vp

DRIVER = "drv-blackboard"

BB_ACTIONS = ["MCOpenOk", "MCOpenRefused", "MCClose", "MCCreateWriterOk", "MCCreateWriterRefused", "MCDropWriter",
              "MCWEntryOk", "MCWEntryRefused", "MCWDrop", "MCUpdate", "MCLoan", "MCLoanWrite", "MCCommit",
              "MCCommitCopy", "MCDiscard", "MCCreateReaderOk", "MCCreateReaderRefused", "MCDropReader",
              "MCREntryOk", "MCREntryRefused", "MCRDrop", "MCGet"]
BB_FAULTS = {"second_handle": ("OneHandlePerKey", "BeyondRejected"), "second_writer": ("OneWriter", "BeyondRejected"),
             "stale_read": ("ReadSeesLatest", "FailureLeavesFirstUndisturbed"),
             "leftover": ("RefusalHasNoSideEffect", "CountsExact", "FailureLeavesFirstUndisturbed"),
             "reader_gt": ("ReadersBounded", "BeyondRejected"), "wrong_variant": ("BeyondRejected",)}
BB_FIELDS = ("o", "n", "key", "x", "y")
EV_FIELDS = ("o", "n", "x", "y", "x3", "x4")


# ---------------------------------------------------------------------------------------------
# TLC: design checks, must-fail instances, program generation

def model_check(ctx, module, cfg, actions, label, timeout=900):
    res = vp.tlc("api", module, cfg=cfg + ".cfg", workers=4, timeout=timeout)
    vp.record_tlc(ctx, label, res)
    vp.tlc_require_ok(res, f"{module} / {cfg}")
    vp.check_action_coverage(res, actions, f"{module} / {cfg}")
    return res


def must_fail(ctx, module, prefix, faults, which):
    """Vacuity guard of the invariants: an instance with one planted defect MUST be refuted."""
    for name in which:
        res = vp.tlc("api", module, cfg=f"{prefix}{name}.cfg", workers=2, timeout=300, coverage=False)
        vp.record_tlc(ctx, f"must-fail {prefix}{name}", res, count=False)
        if res.timed_out or res.violated not in faults[name]:
            raise vp.ToolError(f"must-fail instance {prefix}{name} was not refuted by one of {faults[name]} "
                               f"(violated={res.violated}, error={res.error}): the invariants are vacuous\n"
                               + res.output[-1500:])


def tla_set(xs):
    return "{" + ", ".join(str(x) for x in xs) + "}"


def simulate(ctx, base, name, consts, cfgs_tla, univ_tla, num, depth, seed, timeout=400):
    """`tlc -simulate` over <base>Gen: `num` random walks of `depth` calls -> [{"cfg":…, "steps":[…]}]."""
    d = ctx.path("gen", name, "x")[:-2]
    with open(os.path.join(d, f"{name}.tla"), "w") as f:
        f.write(f"---- MODULE {name} ----\nEXTENDS {base}Gen\nSimCfg == {cfgs_tla}\nSimUniv(c) == {univ_tla}\n====\n")
    with open(os.path.join(d, f"{name}.cfg"), "w") as f:
        f.write("SPECIFICATION GenSpec\nCONSTANTS\n" + "".join(f" {k} = {v}\n" for k, v in consts.items())
                + f" CfgSet <- SimCfg\n Univ <- SimUniv\n Faulty = \"none\"\n GenLen = {depth}\n"
                  "INVARIANTS Emit\nCHECK_DEADLOCK FALSE\n")
    res = vp.tlc(d, name, workers=1, timeout=timeout, libs=["api"], coverage=False,
                 simulate=f"num={num}", extra=["-depth", str(depth + 1), "-seed", str(seed)])
    vp.record_tlc(ctx, f"simulate {base} [num={num} depth={depth}]", res, count=False)
    if res.timed_out:
        raise vp.ToolError(f"simulation {name} timed out")
    progs, seen = [], set()
    for line in res.prints:
        m = re.match(r'<<"BEHAVIOUR", "(.*)">>\s*$', line)
        if m:
            body = json.loads(json.loads('"' + m.group(1) + '"'))
            key = json.dumps(body["steps"][:-1], sort_keys=True)   # the invariant fires for every last step of a walk
            if key not in seen:
                seen.add(key)
                progs.append(body)
    if not progs:
        raise vp.ToolError(f"simulation {name} produced no behaviour:\n{res.output[-2000:]}")
    return progs[:num]


# ---------------------------------------------------------------------------------------------
# programs

def step(a, fields, **kw):
    s = {"a": a}
    for f in fields:
        s[f] = int(kw.get(f, 0))
    return s


def B(a, **kw):
    return step(a, BB_FIELDS, **kw)


def bb_exclusive(nkeys, rng, wn=1, rn=1):
    """Directed script for the uniqueness clause: every way to ask for a second writer / a second write
    handle (same writer, handle loaned out, writer port already dropped).  Every refused request is
    REPEATED (second, third, fourth ... attempt while the first holder lives: a refusal must not change
    what the next attempt meets) and each burst is followed by an update of the first holder and reads
    through handles created before.  The writer lives on node `wn`, the readers on node `rn`, the intruding
    writer is requested through both (with the mixed variants of the driver the two nodes use different
    front ends of the API)."""
    keys = list(range(1, nkeys + 1))
    other = rn if rn != wn else wn

    def again(s, lo=2, hi=4):       # a burst of identical requests that must all be refused
        return [dict(s) for _ in range(rng.randint(lo, hi))]

    def intruders():                # second writer port: asked for repeatedly, under several ids, via both nodes
        return [B("cw", o=rng.choice([2, 3, 4]), n=rng.choice([wn, other])) for _ in range(rng.randint(2, 4))]

    P = [B("open", n=n) for n in sorted({wn, rn} - {1})]
    P += [B("cr", o=1, n=rn)] + [B("re", o=1, key=k) for k in keys] + [B("get", o=1, key=k) for k in keys]
    P += [B("cw", o=1, n=wn)] + intruders()
    for k in keys:
        P += [B("we", o=1, key=k)] + again(B("we", o=1, key=k)) + [B("upd", o=1, key=k), B("get", o=1, key=k)]
        P += again(B("we", o=1, key=k), 1, 3) + [B("get", o=1, key=k), B("upd", o=1, key=k), B("get", o=1, key=k)]
    P += again(B("we", o=1, key=nkeys + 1), 1, 2) + again(B("we", o=1, key=keys[0], x=1), 1, 2) + [B("re", o=1, key=nkeys + 1)]
    # refusals for another reason (missing key, wrong value type) must not disturb the holder either
    P += again(B("we", o=1, key=keys[0]), 1, 2) + [B("upd", o=1, key=keys[0]), B("get", o=1, key=keys[0])]
    for k in keys:
        P += [B("loan", o=1, key=k)] + again(B("we", o=1, key=k)) + intruders()
        hows = ["disc", "commit", "ccopy"]      # every way to end a loan, in a random order
        rng.shuffle(hows)
        for i, how in enumerate(hows):
            if i > 0:
                P += [B("loan", o=1, key=k)] + again(B("we", o=1, key=k), 1, 2)
            P += [B("lw", o=1, key=k), B("get", o=1, key=k)] + again(B("we", o=1, key=k), 1, 2)
            # what was written into a discarded loan must never show up
            P += [B(how, o=1, key=k), B("get", o=1, key=k)] + again(B("we", o=1, key=k), 1, 3)
            P += [B("upd", o=1, key=k), B("get", o=1, key=k)]
    # release and re-acquire: after the bursts exactly one release makes exactly one acquisition possible
    k0 = rng.choice(keys)
    P += [B("wd", o=1, key=k0), B("we", o=1, key=k0)] + again(B("we", o=1, key=k0)) + [B("upd", o=1, key=k0), B("get", o=1, key=k0)]
    # the writer port goes, its handles keep the registration: still no second writer
    P += [B("dw", o=1)] + intruders()
    order = keys[:]
    rng.shuffle(order)
    for k in order:
        P += [B("upd", o=1, key=k), B("get", o=1, key=k)] + intruders()
        if rng.random() < 0.5:
            P += [B("loan", o=1, key=k)]        # dropped as EntryValueUninit
        P += [B("wd", o=1, key=k)]
        if k != order[-1]:
            P += intruders()
    # after the last handle the second writer gets in (through the other node): it takes over every key
    P += [B("cw", o=2, n=other)]
    for k in keys:
        P += [B("we", o=2, key=k), B("upd", o=2, key=k), B("get", o=1, key=k)] + again(B("we", o=2, key=k))
        P += [B("upd", o=2, key=k), B("get", o=1, key=k)]
    P += again(B("cw", o=1, n=wn)) + [B("dr", o=1)] + [B("get", o=1, key=k) for k in keys]
    P += [B("wd", o=2, key=keys[0]), B("we", o=2, key=keys[0]), B("dw", o=2)] + again(B("cw", o=1, n=wn))
    P += [B("upd", o=2, key=keys[0]), B("get", o=1, key=keys[0])]
    return P


def refusal_bursts(steps, rng, p=0.6):
    """Program transformation applied to the TLC-generated walks: a request for a write handle is re-issued
    1-3 times right after it was made and a request for a writer port is followed by requests for further
    writer ports (ids 3, 4 - never used by the generator).  Whatever the original request returned, the
    specification refuses every one of the added requests (ExpWEntry / ExpCreateWriter in the state after the
    original), none of them changes the state, so the rest of the walk stays executable: the walk now
    contains second, third and fourth attempts followed by whatever the holder and the readers do next."""
    out = []
    for s in steps:
        out.append(s)
        if s["a"] == "we" and rng.random() < p:
            out += [dict(s) for _ in range(rng.randint(1, 3))]
        elif s["a"] == "cw" and rng.random() < p:
            out += [dict(s, o=rng.choice([3, 4])) for _ in range(rng.randint(1, 3))]
    return out


def probe_tail(pat, prog):
    """Appended to generated programs: nothing (the walk itself contains the probes)."""
    return prog


def normalise(steps, fields):
    return [step(s["a"], fields, **{f: s.get(f, 0) for f in fields}) for s in steps]


# ---------------------------------------------------------------------------------------------
# execution on the real API and validation by TLC

def execute(ctx, jobs, tag):
    jp = ctx.path("jobs", f"{tag}.json")
    with open(jp, "w") as f:
        json.dump(jobs, f)
    out = ctx.path("traces", f"{tag}.ndjson")
    rc, so, se = vp.run_driver(DRIVER, ["exec", "--work", ctx.path("dom", "x")[:-2], "--jobs", jp, "--out", out],
                               timeout=900, env={"VERIF_SEED": ctx.seed}, ok_codes=None)
    if rc in (2, 3):
        raise vp.ToolError(f"{DRIVER} exited {rc}:\n{so[-2000:]}\n{se[-2000:]}")
    if rc != 0:
        # the process died inside the code under test (abort, segmentation fault, panic while panicking):
        # that is data - the recorded prefix ends with the last call that returned
        recs = vp.read_ndjson(out) if os.path.exists(out) else []
        lastrun = vp.split_runs(recs)[-1] if recs else []
        jobno = sum(1 for r in recs if r.get("k") == "reset") - 1
        ctx.report(vp.Violation(
            f"the process executing program #{jobno} on the real API died (exit code {rc}) after call "
            f"{json.dumps(lastrun[-1]) if lastrun else '(none)'}",
            replay={"job": jobs[jobno] if 0 <= jobno < len(jobs) else None, "records": lastrun[-30:], "exit_code": rc,
                    "stderr": se[-1500:]},
            signature=f"{jobs[jobno]['pat'] if 0 <= jobno < len(jobs) else 'bb'}:abort"))
        events = {}
        for r in recs:
            if r.get("k") == "op":
                events[f"{r['a']}:{r['res']}"] = events.get(f"{r['a']}:{r['res']}", 0) + 1
        return out, {"jobs": max(jobno, 0), "ops": sum(events.values()), "truncated": 0, "events": events, "aborted": True}
    return out, vp.last_json_line(so)


_re_l = re.compile(r"^/\\ l = (\d+)\s*$")


def cex_position(res):
    """Position (1-based record number) of the call after which an invariant failed."""
    for hdr, lines in reversed(res.cex):
        for ln in lines:
            m = _re_l.match(ln.strip())
            if m:
                return int(m.group(1)) - 1
    return None


CLAUSE_TEXT = {
    "OneWriter": "a second writer port exists", "OneHandlePerKey": "a second write handle for one key exists",
    "InsideSucceeds": "a call inside all limits did not succeed",
    "BeyondRejected": "a call beyond a limit was not rejected with the documented error",
    "RefusalHasNoSideEffect": "a rejected call changed the registry of the service",
    "CountsExact": "the registry of the service does not match the live ports",
    "ReadIsSomeWrite": "a read returned a value that was never published in one piece",
    "Monotone": "a read went back behind a value this handle had already returned",
    "ReadSeesLatest": "a read did not return the last completed update",
    "FailureLeavesFirstUndisturbed": "after a refused second writer / handle the first holder was disturbed",
    "LimitAdjusted": "the static config does not carry the requested limit (0 -> 1)",
    "NotifyReachesAll": "a notification inside the limits did not reach every listener",
    "Delivered": "a listener did not collect a notified event", "NoPhantomEvent": "a listener collected an event nobody sent",
}


def validate(ctx, pat, module, trace, jobs, what):
    """One TLC run over the recorded file; reports a Violation for the first call TLC cannot accept."""
    v = vp.tlc_trace("api", module, trace, timeout=1800)
    vp.record_tlc(ctx, f"{module}[{what}: {len(jobs)} programs]", v.res)
    if v.accepted:
        ctx.traces_validated += len(jobs)
        return True
    recs = vp.read_ndjson(trace)
    pos = v.pos if v.invariant is None else cex_position(v.res)
    if pos is None:
        raise vp.ToolError(f"{module}: invariant {v.invariant} violated but no position in the counterexample\n"
                           + v.res.output[-3000:])
    run, rel = vp.run_containing(recs, pos)
    jobno = sum(1 for r in recs[:pos] if r.get("k") == "reset") - 1
    e = recs[pos - 1]
    clause = v.invariant or "unexplained"
    text = CLAUSE_TEXT.get(clause, "the recorded call is not a call the specification can explain")
    ctx.report(vp.Violation(
        f"{pat} ({run[0].get('variant')}): {text} [{clause}] at call #{rel - 1} of the program: {json.dumps(e)}",
        replay={"pattern": pat, "clause": clause, "reset": run[0], "job": jobs[jobno] if 0 <= jobno < len(jobs) else None,
                "records": run[:rel], "first_rejected": e,
                "cmd": "harness/target/debug/drv-blackboard exec --work <dir> --jobs <file with [job]> --out <trace>; "
                       f"TRACE=<trace> tlc -config {module}.cfg spec/api/{module}.tla"},
        signature=f"{pat}:{clause}:{e.get('a')}:{e.get('res')}"))
    return False


def replay_job(ctx, body):
    """Re-executes the program of a replay file on the current tree and re-validates it (for `--replay`)."""
    job = body.get("job")
    if not job:
        return None
    vp.cargo_build([DRIVER])
    trace, _ = execute(ctx, [job], "replay")
    module = "BlackboardTrace" if job.get("pat") == "bb" else "EventLimitsTrace"
    return validate(ctx, job.get("pat"), module, trace, [job], "replay")


def split_pattern(trace, pat, out):
    recs = vp.read_ndjson(trace)
    keep = [r for run in vp.split_runs(recs) if run[0].get("pat") == pat for r in run]
    vp.write_ndjson(out, keep)
    return keep


def require_events(summary, needed, what):
    missing = [e for e in needed if summary["events"].get(e, 0) == 0]
    if missing:
        raise vp.ToolError(f"vacuous run ({what}): the real API never produced {missing}")


def check_truncation(summary, accepted, what):
    """The driver ends a program at the first step the live objects do not allow.  That is expected after a
    deviation of the real API (TLC has then rejected the recorded prefix); if TLC accepted everything the
    program itself (script / specification) is wrong."""
    if summary.get("truncated", 0) and accepted:
        raise vp.ToolError(f"{what}: {summary['truncated']} program(s) could not be executed to the end although "
                           "every recorded call conforms to the specification")


def count_repeated_refusals(recs):
    """per front end (0 typed, 1 custom key): refusals of a write handle / a writer port that directly follow
    a refusal of the same request (= third and later attempts while the first holder lives)"""
    n = {0: 0, 1: 0}
    prev = None
    for r in recs:
        if r.get("k") != "op":
            prev = None
            continue
        refused = r["a"] in ("cw", "we") and r["res"] in ("ExceedsMaxSupportedWriters", "HandleAlreadyExists")
        cur = (r["a"], r["key"], r.get("fe", 0)) if refused else None
        if cur is not None and cur == prev:
            n[r.get("fe", 0)] += 1
        prev = cur
    return n


def count_cross_reads(recs):
    """reads through one front end of a value published through the other: (typed writer -> custom-key reader,
    custom-key writer -> typed reader)"""
    n = {(0, 1): 0, (1, 0): 0}
    pub = {}
    for r in recs:
        if r.get("k") != "op":
            pub = {}
        elif r["a"] in ("upd", "commit", "ccopy") and r["res"] == "ok":
            pub[r["key"]] = r.get("fe", 0)
        elif r["a"] == "get" and r["res"] == "ok" and pub.get(r["key"], r.get("fe", 0)) != r.get("fe", 0):
            n[(pub[r["key"]], r.get("fe", 0))] += 1
    return n


def count_probes(recs):
    """refusal of a second writer / handle followed by an update of the holder and a read that saw it"""
    n, state = 0, 0
    for r in recs:
        if r.get("k") != "op":
            state = 0
            continue
        if r["a"] in ("cw", "we") and r["res"] in ("ExceedsMaxSupportedWriters", "HandleAlreadyExists"):
            state = 1
        elif state == 1 and r["a"] in ("upd", "commit", "ccopy") and r["res"] == "ok":
            state = 2
        elif state == 2 and r["a"] == "get" and r["res"] == "ok":
            n += 1
            state = 0
    return n


def selftest(ctx, module, trace, pred, mutate, name, expect=None):
    """Demonstrates the binding: a corrupted recording must be rejected."""
    recs = vp.read_ndjson(trace)
    idx = next((i for i, r in enumerate(recs) if pred(r)), None)
    if idx is None:
        raise vp.ToolError(f"selftest {name}: no record to corrupt")
    if mutate is None:
        recs = recs[:idx] + recs[idx + 1:]
    else:
        recs[idx] = dict(recs[idx])
        mutate(recs[idx])
    p = ctx.path("selftest", f"{name}.ndjson")
    vp.write_ndjson(p, recs)
    v = vp.tlc_trace("api", module, p, timeout=900)
    vp.record_tlc(ctx, f"selftest {name}", v.res, count=False)
    if v.accepted or (expect and v.invariant not in expect):
        raise vp.ToolError(f"selftest {name}: corrupted trace was accepted / rejected for another reason "
                           f"({v.invariant}, {v.record}) - the binding is broken")
    ctx.coverage.setdefault("selftests", []).append(f"{name}: rejected ({v.invariant or 'unexplained record'})")


def cleanup_shm():
    try:
        for f in os.listdir("/dev/shm"):
            if f.startswith("vbb"):
                pid = re.match(r"vbb(\d+)_", f)
                if pid and not os.path.exists(f"/proc/{pid.group(1)}"):
                    try:
                        os.remove(os.path.join("/dev/shm", f))
                    except OSError:
                        pass
    except OSError:
        pass


BB_CONSTS = {"WIds": "{1, 2, 3, 4}", "RIds": "{1, 2, 3, 4, 5, 6}", "NIds": "{1, 2, 3, 4, 5, 6}",
             "KeyIds": "{1, 2, 3, 4, 5}"}


def bb_cfg_tla(nk, r, n):
    e = lambda x: x if x else 1
    return f"[nkeys |-> {nk}, rreq |-> {r}, nreq |-> {n}, reff |-> {e(r)}, neff |-> {e(n)}]"


def bb_jobs_from(progs, variants, label, rng=None):
    jobs = []
    for i, p in enumerate(progs):
        c = p["cfg"]
        steps = normalise(p["steps"], BB_FIELDS)
        if rng is not None:
            steps = refusal_bursts(steps, rng)
        jobs.append({"pat": "bb", "variant": variants[i % len(variants)], "src": label,
                     "cfg": {"nkeys": c["nkeys"], "rreq": c["rreq"], "nreq": c["nreq"]},
                     "program": steps})
    return jobs


# front ends of the driver's world (harness/drivers/blackboard/src/bb.rs): typed API, custom key
# (type-erased API of the language bindings) everywhere, and the two mixtures per node
BB_VARIANTS = ["ipc", "local", "ipc-ck", "local-ck", "ipc-mx", "local-xm", "local-mx", "ipc-xm"]
FE_NEEDED = ["we:ok", "we:HandleAlreadyExists", "we:EntryDoesNotExist", "cw:ok", "cw:ExceedsMaxSupportedWriters",
             "upd:ok", "loan:ok", "lw:ok", "commit:ok", "ccopy:ok", "disc:ok", "wd:ok", "dw:ok", "cr:ok", "re:ok",
             "re:EntryDoesNotExist", "get:ok"]


# ---------------------------------------------------------------------------------------------

def c12_blackboard(ctx):
    quick = ctx.quick
    seed = int(ctx.seed)
    rng = random.Random(1000 + seed)
    vp.cargo_build([DRIVER])
    cleanup_shm()
    ctx.assumptions += ["blackboard port level: sequential API histories (one thread), ipc and local services, "
                        "typed API and custom-key (type-erased, language binding) API and their mixtures per node, "
                        "keys u64, value types u32 / u64 / [u64; 9]; concurrency of the entry itself is the "
                        "SeqLock2 part of this check"]
    # 1. the specification itself
    model_check(ctx, "MC_Blackboard", "MC_Blackboard" if quick else "MC_Blackboard_deep", BB_ACTIONS,
                "Blackboard.tla [one writer / one handle per key / reads / limits]")
    if not quick:       # vacuity guard of the invariants: planted defects must be refuted
        must_fail(ctx, "MC_Blackboard", "MF_Blackboard_", BB_FAULTS, sorted(BB_FAULTS))
    # 2. programs: TLC random walks over the documented behaviour + directed scripts
    cfgs = [(rng.randint(1, 3), rng.choice([1, 1, 2, 3]), rng.choice([1, 2, 3])) for _ in range(3)] + [(2, 1, 1)]
    univ = ("[W |-> {1, 2}, R |-> 1..(c.reff + 1), N |-> 1..(IF c.neff > 1 THEN 2 ELSE 1), K |-> 1..c.nkeys, "
            "Q |-> {0}, maxv |-> 1000]")
    progs = simulate(ctx, "Blackboard", "SIMBB", BB_CONSTS, tla_set(bb_cfg_tla(*c) for c in cfgs), univ,
                     num=12 if quick else 150, depth=70 if quick else 120, seed=seed)
    variants = BB_VARIANTS[seed % len(BB_VARIANTS):] + BB_VARIANTS[:seed % len(BB_VARIANTS)]
    # the walks as generated (first third) and with refusal bursts (second, third, fourth attempts)
    jobs = bb_jobs_from(progs[:len(progs) // 3], variants, "simulated")
    jobs += bb_jobs_from(progs[len(progs) // 3:], variants[3:] + variants[:3], "simulated+bursts", rng)
    for i in range(1 if quick else 6):
        for vi, variant in enumerate(BB_VARIANTS):
            nk = 1 + (vi + i + seed) % 3
            mixed = variant.endswith(("-mx", "-xm"))
            # mixed variants: node 1 and node 2 use different front ends - writer and readers on different nodes
            # (placement fixed per variant so that typed writer -> custom-key reader and the converse both occur)
            if mixed:
                wn, rn = [(1, 2), (2, 1)][(BB_VARIANTS.index(variant) // 2 + i + seed) % 2]
            else:
                wn, rn = rng.choice([(1, 1), (1, 1), (2, 2), (1, 2)])
            jobs.append({"pat": "bb", "variant": variant, "src": "directed",
                         "cfg": {"nkeys": nk, "rreq": rng.choice([1, 2]), "nreq": 1 if (wn, rn) == (1, 1) else rng.choice([2, 3])},
                         "program": bb_exclusive(nk, rng, wn, rn)})
    trace, summ = execute(ctx, jobs, "c12bb")
    ctx.evaluations += summ["jobs"]
    ctx.distinct += len({json.dumps(j["program"]) for j in jobs})
    recs = vp.read_ndjson(trace)
    probes = count_probes(recs)
    repeats = count_repeated_refusals(recs)
    cross = count_cross_reads(recs)
    ok = validate(ctx, "bb", "BlackboardTrace", trace, jobs, "port level")
    if ok and not summ.get("aborted"):      # vacuity guards of the trace direction (meaningless after a rejection)
        check_truncation(summ, ok, "blackboard port level")
        require_events(summ, ["cw:ok", "cw:ExceedsMaxSupportedWriters", "we:ok", "we:HandleAlreadyExists",
                              "we:EntryDoesNotExist", "upd:ok", "lw:ok", "commit:ok", "ccopy:ok", "disc:ok", "get:ok",
                              "dw:ok", "wd:ok"], "blackboard port level")
        if probes < 3:
            raise vp.ToolError(f"vacuous run: only {probes} refusal -> update -> read probes were executed")
        # both front ends of the API must have made every kind of call, and third-and-later attempts
        fe_ev = summ.get("fe_events", {})
        missing = [f"{fe}:{e}" for fe in ("ty", "ck") for e in FE_NEEDED if fe_ev.get(f"{fe}:{e}", 0) == 0]
        if missing:
            raise vp.ToolError(f"vacuous run (blackboard front ends): the real API never produced {missing}")
        if min(repeats.values()) < 4:
            raise vp.ToolError(f"vacuous run: repeated refusals per front end {repeats} (typed / custom key)")
        if min(cross.values()) < 2:
            raise vp.ToolError(f"vacuous run: reads across the front ends {cross}")
    ctx.coverage["blackboard_port_level"] = {"programs": len(jobs), "calls": summ["ops"], "events": summ["events"],
                                             "refusal_update_read_probes": probes,
                                             "front_end_events": summ.get("fe_events", {}),
                                             "repeated_refusals_typed": repeats[0],
                                             "repeated_refusals_custom_key": repeats[1],
                                             "reads_typed_writer_custom_key_reader": cross[(0, 1)],
                                             "reads_custom_key_writer_typed_reader": cross[(1, 0)]}
    run0 = vp.split_runs(recs)[-1]
    ctx.sample({"blackboard_api": [f"{r['a']}({r['o']},{r['key']})={r['res']}" + (f":v{r['v']}" if r["a"] == "get" else "")
                                   for r in run0 if r.get("k") == "op"][:40]})
    if ok and not quick:
        selftest(ctx, "BlackboardTrace", trace, lambda r: r.get("a") == "we" and r.get("res") == "HandleAlreadyExists",
                 lambda r: r.update(res="ok"), "second_handle_granted", ("OneHandlePerKey", "BeyondRejected"))
        selftest(ctx, "BlackboardTrace", trace, lambda r: r.get("a") == "get" and r.get("v", 0) >= 2,
                 lambda r: r.update(v=r["v"] - 1), "stale_value", ("ReadSeesLatest", "ReadIsSomeWrite", "FailureLeavesFirstUndisturbed", "Monotone"))
        selftest(ctx, "BlackboardTrace", trace, lambda r: r.get("a") == "upd", None, "dropped_update")
        # the same through the custom key front end: a THIRD attempt (refusal that follows a refusal) granted
        third = [i for i in range(1, len(recs)) if all(r.get("a") == "we" and r.get("res") == "HandleAlreadyExists"
                                                       and r.get("fe") == 1 for r in recs[i - 1:i + 1])]
        if not third:
            raise vp.ToolError("selftest: no third attempt through the custom key front end recorded")
        position = iter(range(len(recs) + 1))      # selftest scans the records of the same file in order
        selftest(ctx, "BlackboardTrace", trace, lambda r: next(position) == third[0],
                 lambda r: r.update(res="ok"), "third_attempt_granted_custom_key", ("OneHandlePerKey", "BeyondRejected"))
        selftest(ctx, "BlackboardTrace", trace, lambda r: r.get("a") == "cw" and r.get("res") != "ok",
                 lambda r: r.update(nw=r["nw"] + 1), "registry_leftover", ("RefusalHasNoSideEffect", "CountsExact", "FailureLeavesFirstUndisturbed"))
    cleanup_shm()
