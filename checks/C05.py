"""C05 - Events: no lost wake-up, no phantom event."""
import json
import os
import re

import vp

META = {
    "level": "model_checking",
    "engine": "tla-atomics-scheduler",
    "technique": "TLC model checking of the notify/wait hand-shake (EventProtocol.tla) whose step order and skip set are "
                 "extracted from atomic-level traces of the running code; TLC counterexamples are replayed on the real "
                 "protocol code under the deterministic scheduler; enumerated/random schedules and free-running runs "
                 "with the real trigger back-ends are validated by TLC against the event specification EventObs.tla",
    "text": "EventProtocol.tla (one action per access: event-state activate, state CAS IDLE->PENDING, trigger post, CAS "
            "PENDING->NOTIFIED; listener path decision, wait, state reset, buffer emptying, drain) is model-checked for "
            "NoSleepForever, NoLostAtQuiescence, NoPhantom with the step order read back from the code; a refutation is "
            "confirmed by directed replay on the real Handle::notify / Waiter::*_wait code (model trigger) before it is "
            "reported. All preemption-bounded schedules of 1..3 notifiers against a draining listener (bit set and "
            "counting bit set) and free-running runs over semaphore, unix-datagram-socket and socket-pair triggers are "
            "validated by TLC against EventObs.tla (NoPhantom, NoLost, NoSleep).",
    "note": "A TLC refutation whose directed replay deviates from the code (the model's fixed step lists cannot express a conditional step) starts a search of schedules of the counterexample's program and two canonical programs on the real code, judged by EventObsTrace (V1). Trusted: TLC, drop-in atomics, SC replay on x86, preemption bound. Real back-ends: delivery and phantom "
            "clauses only (a sleeping real blocking wait cannot be told from a slow one without wall-clock verdicts). "
            "NoSleep is decided in its 'for ever' form (see EventProtocol.tla); orderings weaker than SeqCst on the "
            "protocol state would need store-reordering semantics that C11Mem does not have.",
    "design_ref": "DESIGN.md 5 C05",
    "replay": True,
}


def drv(ctx, sub, args, tag, timeout=1800):
    out = ctx.path("traces", f"{tag}.ndjson")
    _, so, _ = vp.run_driver("drv-event", [sub] + args + ["--out", out], timeout=timeout, env={"VERIF_SEED": ctx.seed})
    return out, vp.last_json_line(so)


def on_reject(ctx):
    def f(meta, v, run, rel):
        what, summ = meta if meta else ("?", {})
        end = [r for r in run if r.get("k") == "end"]
        ctx.report(vp.Violation(
            f"{what}: event history of the real code is not explainable by EventObs (lost, phantom or slept-through "
            f"notification) at record #{rel}: {v.record}",
            replay={"what": what, "summary": summ, "run": [r for r in run if r.get("k") not in ("atom", "aux")],
                    "first_unexplained": v.record, "schedule": end[0].get("sched") if end else None},
            signature="obs:lost-wakeup" if (isinstance(v.record, dict) and v.record.get("k") == "end") else "obs:event"))
    return f


def compress(seq):
    out = []
    for x in seq:
        if not out or out[-1] != x:
            out.append(x)
    return out


def extract(recs):
    """Step order of notify and of the two wait paths, skip set, path decision - from atom records."""
    nsteps, skip, noskip = None, set(), set()
    lslow, lfast, ldecide, drift = None, None, None, []
    cur = {}
    for e in recs:
        k = e.get("k")
        if k == "reset":
            cur = {}
        elif k == "call":
            cur[e["t"]] = {"a": e["a"], "w": e.get("w"), "ops": []}
        elif k == "atom" and e["t"] in cur and e["role"] != "aux":
            cur[e["t"]]["ops"].append(e)
        elif k == "ret" and e["t"] in cur:
            c = cur.pop(e["t"])
            ops = c["ops"]
            if c["a"] == "notify":
                steps, skipped = [], None
                for o in ops:
                    if o["role"] == "bits":
                        s = "activate"
                    elif o["role"] == "trig":
                        s = "post"
                    elif o["role"] == "state" and o["op"].startswith("cas") and o["rd"] in (0, 1, 2):
                        first = "cas_ip" not in steps
                        s = "cas_ip" if first else "cas_pn"
                        if first and not o["ok"]:
                            skipped = o["rd"]
                    else:
                        drift.append(f"unexpected access in notify: {o['role']} {o['op']}")
                        continue
                    steps.append(s)
                steps = compress(steps)
                if skipped is not None:
                    (skip if steps[-1] == "cas_ip" else noskip).add(skipped)
                if nsteps is None or len(steps) > len(nsteps):
                    nsteps = steps
            else:
                st = [o for o in ops if o["role"] == "state"]
                if not st:
                    continue
                d = "cas" if st[0]["op"].startswith("cas") else "load"
                if ldecide and ldecide != d:
                    drift.append("path decision differs between waits")
                ldecide = d
                fast = (st[0]["ok"] if d == "cas" else st[0]["rd"] == 2) and (d != "cas" or st[0]["rd"] == 2)
                i0 = ops.index(st[0]) + 1
                steps = []
                for o in ops[i0:]:
                    if o["role"] == "trig":
                        steps.append("T")
                    elif o["role"] == "bits":
                        steps.append("drain")
                    elif o["role"] == "state" and o["op"] == "store":
                        steps.append("store_idle")
                    elif o["role"] == "state":
                        steps.append("reset_ni")
                steps = compress(steps)
                if fast:
                    path = ["empty" if s == "T" else s for s in steps]
                    if lfast is None or len(path) > len(lfast):
                        lfast = path
                else:
                    path, seen_wait = [], False
                    for s in steps:
                        if s == "T":
                            path.append("empty" if seen_wait else "wait")
                            if not seen_wait and "store_idle" not in steps[:steps.index("T")]:
                                pass
                            seen_wait = True
                        else:
                            path.append(s)
                    # a trigger run directly followed by the state reset contains wait + empty
                    if path[:2] == ["wait", "store_idle"] and "empty" not in path:
                        path = ["wait", "empty"] + path[1:]
                    if lslow is None or len(path) > len(lslow):
                        lslow = path
    return {"NSteps": nsteps, "SkipOn": sorted(skip - noskip), "LSlow": lslow, "LFast": lfast, "LDecide": ldecide}, drift


def tla_seq(xs):
    return "<<" + ", ".join(f'"{x}"' if isinstance(x, str) else tla_seq(x) if isinstance(x, list) else str(x) for x in xs) + ">>"


def gen_mc(ctx, name, par, nprog, lprog, maxid, trigcap, failfull, counting):
    d = ctx.path("mc", name, "x")[:-2]
    with open(os.path.join(d, f"{name}.tla"), "w") as f:
        f.write(f"---- MODULE {name} ----\nEXTENDS EventProtocol\n"
                f"NProgV == {tla_seq(nprog)}\nLProgV == {tla_seq(lprog)}\nNStepsV == {tla_seq(par['NSteps'])}\n"
                f"LSlowV == {tla_seq(par['LSlow'])}\nLFastV == {tla_seq(par['LFast'])}\n====\n")
    with open(os.path.join(d, f"{name}.cfg"), "w") as f:
        f.write("SPECIFICATION Spec\nVIEW View\nCONSTANTS\n NProg <- NProgV\n LProg <- LProgV\n"
                f" MaxId = {maxid}\n TrigCap = {trigcap}\n FailFull = {'TRUE' if failfull else 'FALSE'}\n"
                f" Counting = {'TRUE' if counting else 'FALSE'}\n NSteps <- NStepsV\n"
                f" SkipOn = {{{', '.join(map(str, par['SkipOn']))}}}\n LSlow <- LSlowV\n LFast <- LFastV\n"
                f" LDecide = \"{par['LDecide']}\"\n"
                "INVARIANTS NoSleepForever NoLostAtQuiescence NoPhantom\nCHECK_DEADLOCK FALSE\n")
    return d


def guide_from_cex(res):
    g = []
    for _, lines in res.cex:
        for ln in lines:
            m = re.match(r'/\\ last = <<(\d+), "(\w+)">>', ln.strip())
            if m and m.group(2) != "init":
                step = [int(m.group(1)), m.group(2)]
                if not g or g[-1] != step:
                    g.append(step)
    return g


def run(ctx):
    vp.cargo_build(["drv-event"])
    q = ctx.quick
    ctx.assumptions += ["preemption-bounded schedule enumeration; model trigger = counter with post / take / empty",
                        "NoSleep decided in the 'for ever' form"]
    bv = vp.BatchValidator(ctx, "lockfree", "EventObsTrace", on_reject(ctx))
    params, drift_any = None, False
    progs = [("bitset", {"n": [[0], [1]], "l": ["block", "try"]}, 2, 4, False),
             ("bitset", {"n": [[0, 1], [1]], "l": ["block", "try", "block"]}, 2, 4, False),
             ("counting", {"n": [[1, 1], [1]], "l": ["try", "block"]}, 2, 4, False),
             ("bitset", {"n": [[0, 1], [1]], "l": ["try", "block"]}, 2, 1, True)]
    if not q:
        progs += [("bitset", {"n": [[0], [1], [0]], "l": ["block", "block", "try"]}, 2, 4, False),
                  ("counting", {"n": [[0, 1], [1, 0]], "l": ["block", "try", "block"]}, 3, 2, False),
                  ("bitset", {"n": [[0, 1], [1]], "l": ["block", "try", "block"]}, 4, 4, False)]
    for n, (state, prog, bound, cap, ff) in enumerate(progs):
        args = ["--state", state, "--prog", json.dumps(prog), "--cap", cap, "--mode", "dfs", "--bound", bound,
                "--runs", 500 if q else 40000, "--atoms"] + (["--fail-full"] if ff else [])
        trace, summ = drv(ctx, "sched", args, f"dfs-{n}")
        ctx.evaluations += summ["executions"]
        recs = vp.read_ndjson(trace)
        ctx.distinct += len({tuple(r["sched"]) for r in recs if r.get("k") == "end"})
        if summ["anomalies"]:
            bad = [r for r in recs if r.get("k") == "end" and (r["outcome"] == "steplimit" or r["panics"])]
            ctx.report(vp.Violation(f"execution did not complete normally: {bad[0]}", replay={"end": bad[0], "prog": prog},
                                    signature="anomaly:event"))
            continue
        bv.add(trace, (f"scheduled {state} {prog}", summ), summ["executions"])
        par, drift = extract(recs)
        if drift or None in (par["NSteps"], par["LSlow"], par["LFast"], par["LDecide"]):
            drift_any = True
            print(f"DRIFT: event protocol access structure not recognised: {drift[:3]} {par}")
            ctx.note(f"drift: {drift[:3]} {par}")
        elif params is None or len(json.dumps(par)) > len(json.dumps(params)):
            params = par
        if len(ctx.samples) < 3:
            r0 = vp.split_runs(recs)[-1]
            ctx.sample({"state": state, "prog": prog,
                        "history": [f"t{r['t']}:{r['k']}:{r['a']}:{r.get('id')}:{r.get('r')}:{r.get('rep')}" for r in r0
                                    if r.get("k") in ("call", "ret")] + [str({k: r0[-1].get(k) for k in ('outcome', 'dl')})]})
        trace, summ = drv(ctx, "sched", ["--state", state, "--prog", json.dumps(prog), "--cap", cap, "--mode", "random",
                                         "--runs", 150 if q else 5000] + (["--fail-full"] if ff else []), f"rnd-{n}")
        ctx.evaluations += summ["executions"]
        bv.add(trace, (f"random schedules {state} {prog}", summ), summ["executions"])
    # real trigger back-ends, free running
    backs = [("semaphore", "bitset"), ("udsock", "counting"), ("sockpair", "bitset")]
    if not q:
        backs += [("semaphore", "counting"), ("udsock", "bitset"), ("sockpair", "counting")]
    for (b, st) in backs:
        for rep in range(1 if q else 3):
            trace, summ = drv(ctx, "free", ["--backend", b, "--state", st, "--notifiers", 2, "--count", 150 if q else 1500],
                              f"free-{b}-{st}-{rep}")
            ctx.evaluations += summ["lines"] // 2
            bv.add(trace, (f"free-running {b} {st}", summ), 1)
    bv.run()

    # ---- TLC on the protocol model with the extracted step order (V2, confirmed by directed replay)
    ctx.coverage["protocol_extracted"] = params
    if params and not drift_any:
        mcs = [("A", [[0, 1], [1]], ["block", "try", "block"], 1, 2, False, False),
               ("B", [[1, 1], [1]], ["try", "block", "block"], 1, 2, False, True)]
        if not q:
            mcs += [("C", [[0, 1], [1], [0]], ["block", "try", "block", "block"], 1, 2, False, False),
                    ("D", [[0, 1], [1]], ["block", "try", "block"], 1, 1, True, False)]
        for (nm, nprog, lprog, maxid, cap, ff, counting) in mcs:
            name = f"MC_{nm}"
            d = gen_mc(ctx, name, params, nprog, lprog, maxid, cap, ff, counting)
            res = vp.tlc(d, name, workers=8, timeout=1200 if q else 3000, libs=["lockfree"], heap="12g")
            vp.record_tlc(ctx, f"EventProtocol[{nm}: notifiers={nprog} waits={lprog} cap={cap} extracted order]", res)
            if res.timed_out:
                raise vp.ToolError(f"TLC timed out on {name}")
            if res.violated:
                guide = guide_from_cex(res)
                prog = {"n": nprog, "l": lprog}
                trace, summ = drv(ctx, "sched", ["--state", "counting" if counting else "bitset", "--prog", json.dumps(prog),
                                                 "--cap", cap, "--mode", "guide", "--guide", json.dumps(guide)]
                                  + (["--fail-full"] if ff else []), f"replay-{nm}")
                v = vp.tlc_trace("lockfree", "EventObsTrace", trace)
                recs = vp.read_ndjson(trace)
                if not v.accepted:
                    ctx.report(vp.Violation(
                        f"TLC refutes {res.violated} for the notify/wait protocol with the step order used by the code "
                        f"({params}) and the counterexample REPRODUCES on the real protocol code: {v.record}",
                        replay={"invariant": res.violated, "protocol": params, "prog": prog, "guide": guide,
                                "real_history": [r for r in recs if r.get("k") != "atom"],
                                "cmd": f"drv-event sched --state {'counting' if counting else 'bitset'} --prog '{json.dumps(prog)}' "
                                       f"--cap {cap} --mode guide --guide '{json.dumps(guide)}'"},
                        signature=f"protocol:{res.violated}:{'-'.join(params['LSlow'])}:{'-'.join(params['LFast'])}:{params['LDecide']}"))
                else:
                    print(f"DRIFT: TLC counterexample of {res.violated} did not reproduce on the real code "
                          f"(deviations={summ.get('deviations')}): model and code differ")
                    ctx.note(f"unconfirmed TLC counterexample for {res.violated}; guide deviations {summ.get('deviations')}")
                    # the model (fixed step lists) is coarser than the code (e.g. a step that is taken conditionally): search the
                    # neighbourhood of the counterexample on the REAL code - schedules of exactly this program; a history that
                    # the event specification cannot explain is a V1 violation whatever the model said
                    st = "counting" if counting else "bitset"
                    bv2 = vp.BatchValidator(ctx, "lockfree", "EventObsTrace", on_reject(ctx), name="EventObsTrace-search")
                    # the counterexample's program and two canonical ones (a sleeping listener, two notifier threads, one of
                    # them notifying twice: enough for "trigger swallowed / skipped while the listener goes back to sleep")
                    cands = [prog, {"n": nprog, "l": ["block", "block"]}, {"n": nprog, "l": ["try", "block"]}]
                    for k, sp in enumerate(cands):
                        for mode, extra in (("random", ["--runs", 3000 if q else 20000]), ("dfs", ["--bound", 3, "--runs", 3000 if q else 40000])):
                            trace, summ = drv(ctx, "sched", ["--state", st, "--prog", json.dumps(sp), "--cap", cap, "--mode", mode] + extra
                                              + (["--fail-full"] if ff else []), f"search-{nm}-{k}-{mode}")
                            ctx.evaluations += summ["executions"]
                            bv2.add(trace, (f"search around the TLC counterexample ({mode} schedules) {st} {sp}", summ), summ["executions"])
                    bv2.run()
                break
            if not res.ok:
                raise vp.ToolError(f"TLC failed on {name}: {res.error}\n{res.output[-3000:]}")
            vp.check_action_coverage(res, ["NStep", "LCas", "LStep"], name)
        if not q:
            # non-vacuity: the listener order of the defect repaired by 3224193 (state reset BEFORE the trigger buffer is
            # emptied, on both paths) must be refuted. (The former must-fail instance "skip the trigger also on PENDING" is
            # no longer refuted since that repair: with the buffer emptied first the protocol tolerates it - TLC, 2.5 * 10^6
            # states for three notifiers - so it cannot serve as a vacuity guard any more.)
            bad = dict(params, LSlow=["wait", "store_idle", "empty", "drain"], LFast=["reset_ni", "empty", "drain"])
            d = gen_mc(ctx, "MF_order", bad, [[0, 1], [1]], ["block", "block"], 1, 2, False, False)
            res = vp.tlc(d, "MF_order", workers=8, timeout=900, libs=["lockfree"])
            vp.record_tlc(ctx, "must-fail listener order reset-before-empty", res, count=False)
            if res.timed_out or (not res.ok and not res.violated):
                raise vp.ToolError(f"must-fail instance could not be checked: {res.error}")
            if not res.violated:
                raise vp.ToolError("must-fail instance (state reset before the buffer is emptied) was not refuted: model is vacuous")
    else:
        ctx.note("protocol structure not extracted: model argument not applicable to this build")
    ctx.coverage["rule"] = ("evaluations = scheduled executions + operations of free-running runs; distinct = distinct schedules")


def replay(ctx, path):
    body = json.load(open(path))
    print(json.dumps({k: body.get(k) for k in ("what", "cmd", "invariant", "protocol")}, indent=1))
    if body.get("guide"):
        vp.cargo_build(["drv-event"])
        _, so, _ = vp.run_driver("drv-event", ["sched", "--prog", json.dumps(body["prog"]), "--mode", "guide", "--guide",
                                               json.dumps(body["guide"]), "--out", "/dev/stdout"])
        print(so)
    return 0
