"""C20 - WaitSet dispatch is exact: every ready attachment reported, nothing else."""
import glob
import json
import os
import random
import re
import shutil

import vp

META = {
    "level": "model_checking",
    "engine": "tla-roundtrip",
    "technique": "TLC model checking of the TLA+ property layer WaitSet.tla and of the implementation-shaped "
                 "WaitSetImpl.tla (fd<->deadline maps, reactor set, deadline queue) stepped jointly with it; "
                 "round trip: TLC generates programs (state cover + simulation), the Rust driver executes them on the "
                 "real WaitSet (ipc, local, a select-based service variant with reachable capacity) and TLC "
                 "validates the recorded callbacks/results against the property layer",
    "text": "TLC checks NeverDetached, Exact, NothingLost and AttachRefusedCleanly on the joint model of the wait "
            "set's bookkeeping and its specification for all histories of attach (notification/deadline/interval), "
            "guard drop, notify (also from inside the callback), drain, listener re-creation (descriptor reuse) and "
            "processing calls (with early stop) over 2-3 listeners on 1-2 services; every TLC-generated and seeded "
            "program is executed on the real WaitSet and the per-call set of callback ids (resolved with "
            "has_event_from / has_missed_deadline against all live guards), attach results, len() and the size of "
            "the descriptor<->deadline maps are validated by TLC against the property layer.",
    "note": "Scripted timed programs add a third duration class for intervals (120 ms) with sleeps of 200 ms outside of and inside callbacks (lower bounds only: a tick that became due while the wait set was processing is owed by the rest of that call or by the next one). Trusted: TLC; the two duration classes (1 ns + 300 us sleep before every call = always expired, 1 h = "
            "never) and the level-triggered pending flag (driver drains inside the callback). A 1 ns deadline whose "
            "listener has an event pending MAY or may not be reported as missed (timing) - nondeterministic in the "
            "spec. Capacity: the epoll capacity (/proc/sys/fs/epoll/max_user_watches) is not reachable, the "
            "capacity clause is exercised on a service variant assembled from public items whose reactor is "
            "reactor::posix_select (FD_SETSIZE = 1024, pre-filled by the driver; modes sel and selfd). The map sizes "
            "are read from the Debug representation of the wait set (skipped if it has another shape). Dropping a "
            "guard from inside the callback is outside of the property's quantifier and not exercised. Hypothesis 5 "
            "of DESIGN.md 7 is exercised in both halves and reproduces (known findings).",
    "design_ref": "DESIGN.md 5 C20, 2.2, 3.4, 7 (hypothesis 5)",
    "replay": True,
}

GEN_ACTIONS = ["GAttach", "GDrop", "GNotify", "GDrain", "GRecreate", "GPBegin", "GCb", "GNotifyIn", "GPEnd"]
INVS = ["NeverDetached", "Exact", "NothingLost", "AttachRefusedCleanly"]
SIG_STALE = "refused-attach:stale-deadline-maps"
SIG_RFULL = "refused-attach:reactor-capacity-reported-as-AlreadyAttached"


# ------------------------------------------------------------------------------------------------
# model instances

def write_mc(ctx, name, base, consts, invariants, extra=""):
    d = ctx.path("mc", name, "x")[:-2]
    with open(os.path.join(d, f"{name}.tla"), "w") as f:
        f.write(f"---- MODULE {name} ----\nEXTENDS {base}\n====\n")
    with open(os.path.join(d, f"{name}.cfg"), "w") as f:
        f.write("SPECIFICATION " + ("GSpec" if base == "WaitSetGen" else "ISpec") + "\nCONSTANTS\n")
        for k, v in consts.items():
            f.write(f" {k} = {v}\n")
        f.write(extra)
        if invariants:
            f.write("INVARIANTS " + " ".join(invariants) + "\n")
        f.write("CHECK_DEADLOCK FALSE\n")
    return d


def tla(v):
    if isinstance(v, bool):
        return "TRUE" if v else "FALSE"
    if isinstance(v, str):
        return f'"{v}"'
    return str(v)


def last_state(res):
    """Variable assignments of the last state of TLC's counterexample, as raw text."""
    if not res.cex:
        return ""
    return "\n".join(res.cex[-1][1])


def cex_actions(res):
    return [h.split(" line ")[0] for h, _ in res.cex]


# ------------------------------------------------------------------------------------------------
# generation: TLC -> programs

def fold_behaviour(hist, meta):
    """Turns the sub-steps pbegin/cb/notify/pend of a TLC behaviour into `process` commands."""
    steps, cur = [], None
    for h in hist:
        a = h["a"]
        if a == "pbegin":
            cur = {"a": "process", "stop": 0, "inj": [], "tmo": 0, "_n": 0}
        elif cur is not None and a == "cb":
            cur["_n"] += 1
        elif cur is not None and a == "notify":
            cur["inj"].append([cur["_n"], h["s"]])
        elif cur is not None and a == "pend":
            cur["stop"] = h["stop"]
            cur.pop("_n")
            steps.append(cur)
            cur = None
        elif cur is None:
            steps.append(h)
    if cur is not None:
        cur.pop("_n")
        steps.append(cur)
    p = dict(meta)
    p["steps"] = steps
    return p


def behaviours(res):
    out = []
    for line in res.prints:
        if line.startswith('"BEHAVIOUR '):
            body = line[len('"BEHAVIOUR '):-1]
            out.append(json.loads(body.encode().decode("unicode_escape")))
    return out


def generate(ctx, name, consts, mode, n_keep, rng, simulate=None, workers=1, extra=None, check=False):
    """mode 'all': state cover (one shortest behaviour per abstract state where a call just ended);
    mode 'end': -simulate behaviours of MaxSteps steps."""
    cfg_extra = "VIEW AbstractView\nINVARIANT EmitBehaviour\n" if mode == "all" else "INVARIANT EmitBehaviour\n"
    c = dict(consts)
    c["Emit"] = tla(mode)
    d = write_mc(ctx, name, "WaitSetGen", c, (["TypeOK"] + INVS) if check else [], cfg_extra)
    res = vp.tlc(d, name, workers=workers, timeout=900, libs=["api"], simulate=simulate, coverage=check, extra=extra)
    if res.timed_out or (not res.ok and not simulate):
        raise vp.ToolError(f"generation {name} failed: {res.error}\n{res.output[-2000:]}")
    if simulate and (res.error or res.violated):
        raise vp.ToolError(f"generation {name} failed: {res.error or res.violated}\n{res.output[-2000:]}")
    hs = behaviours(res)
    if not hs:
        raise vp.ToolError(f"generation {name} produced no behaviour\n{res.output[-2000:]}")
    vp.record_tlc(ctx, f"generate[{name}]", res, count=check)
    if check:
        vp.check_action_coverage(res, GEN_ACTIONS, name)
    if len(hs) > n_keep:
        # keep the longest ones preferentially (they contain the shorter ones as prefixes) plus a sample
        hs.sort(key=lambda h: -len(h))
        keep = hs[:n_keep // 2] + rng.sample(hs[n_keep // 2:], n_keep - n_keep // 2)
        hs = keep
    return hs, res


# ------------------------------------------------------------------------------------------------
# execution + validation

def run_driver(ctx, mode, tag, programs=None, random_n=0, steps=40, nl=3, ng=4, cap=99, nsvc=2):
    out = ctx.path("traces", f"{tag}.ndjson")
    root = ctx.path("dom", "x")[:-2]
    prefix = f"vc20{ctx.tier[0]}{ctx.seed % 1000}_"
    args = ["run", "--mode", mode, "--root", root, "--tag", prefix, "--out", out]
    if programs is not None:
        pf = ctx.path("programs", f"{tag}.ndjson")
        vp.write_ndjson(pf, programs)
        args += ["--programs", pf]
    else:
        args += ["--random", random_n, "--steps", steps, "--nl", nl, "--ng", ng, "--cap", cap, "--nsvc", nsvc]
    _, so, _ = vp.run_driver("drv-waitset", args, timeout=900, env={"VERIF_SEED": ctx.seed})
    return out, vp.last_json_line(so)


def cleanup(ctx):
    prefix = f"vc20{ctx.tier[0]}{ctx.seed % 1000}_"
    for p in glob.glob(f"/dev/shm/{prefix}*") + glob.glob(f"/dev/shm/*{prefix}*"):
        try:
            os.remove(p)
        except OSError:
            pass
    shutil.rmtree(ctx.path("dom", "x")[:-2], ignore_errors=True)


def rejected_at(v):
    """1-based index of the record whose consumption led to the violating state / was not explained."""
    if v.invariant:
        m = re.findall(r"/\\ l = (\d+)", last_state(v.res))
        return int(m[-1]) - 1 if m else None
    return v.pos


def obs_of(v):
    txt = last_state(v.res)
    m = re.search(r"/\\ obs = \[(.*?)\]\s*(?:/\\|$)", txt, re.S)
    return re.sub(r"\s+", " ", m.group(1)) if m else ""


def classify(rec, obs, run_reset):
    """Signature of a rejection by AttachRefusedCleanly, from the offending record and TLC's `obs`."""
    if rec.get("a") == "attach" and rec.get("r") == "InsufficientCapacity" and rec.get("ty") == "d":
        g = re.search(r"got \|-> \"(\w+)\"", obs)
        a = re.search(r"allowed \|-> \{([^}]*)\}", obs)
        ln = re.search(r"\blen \|-> (-?\d+)", obs)
        el = re.search(r"explen \|-> (-?\d+)", obs)
        if g and a and g.group(1) in a.group(1) and ln and el and ln.group(1) == el.group(1):
            return SIG_STALE
    if rec.get("a") == "attach" and rec.get("r") == "AlreadyAttached" and run_reset.get("svc") == "selfd":
        a = re.search(r"allowed \|-> \{([^}]*)\}", obs)
        if a and "AlreadyAttached" not in a.group(1) and "InsufficientCapacity" in a.group(1):
            return SIG_RFULL
    return None


def mask_known(recs, sig):
    """After TLC has confirmed a known finding, its effect on LATER observations of the same kind is masked
    so that the rest of every run is still validated against the property layer."""
    out, reset, leaking = [], {}, False
    for r in recs:
        r = dict(r)
        if r.get("k") == "reset":
            reset, leaking = r, False
        if sig == SIG_STALE:
            if r.get("a") == "attach" and r.get("ty") == "d" and r.get("r") == "InsufficientCapacity":
                leaking = True
            if leaking and "m" in r:
                r["m"] = -1
        if sig == SIG_RFULL and reset.get("svc") == "selfd":
            if r.get("a") == "attach" and r.get("ty") in ("n", "d") and r.get("l") == reset.get("nl") \
                    and r.get("r") == "AlreadyAttached":
                r["r"] = "InsufficientCapacity"
        out.append(r)
    return out


def validate(ctx, trace, summary, tag):
    """Property-layer validation (V1). Returns (ok, observed parameter hints)."""
    hints = {"stale": False, "rfull": False}
    recs = vp.read_ndjson(trace)
    nruns = sum(1 for r in recs if r.get("k") == "reset")
    cur = trace
    for attempt in range(4):
        v = vp.tlc_trace("api", "WaitSetTrace", cur)
        vp.record_tlc(ctx, f"WaitSetTrace[{tag}#{attempt}]", v.res, count=False)
        if v.accepted:
            ctx.traces_validated += nruns
            return True, hints
        pos = rejected_at(v)
        cur_recs = vp.read_ndjson(cur)
        rec = cur_recs[pos - 1] if pos else {}
        run, rel = vp.run_containing(cur_recs, pos) if pos else (cur_recs[:40], 0)
        sig = classify(rec, obs_of(v), run[0]) if v.invariant == "AttachRefusedCleanly" else None
        mode = run[0].get("svc", "?")
        what = (f"{mode}: invariant {v.invariant} violated by record #{rel} of run {run[0].get('run')}: {rec}"
                if v.invariant else
                f"{mode}: record #{rel} of run {run[0].get('run')} is not explainable: {rec}")
        if sig is None:
            if v.invariant:
                sig = f"{v.invariant}:{rec.get('a')}:{rec.get('ty', rec.get('r', ''))}"
            else:
                sig = f"unexplained:{rec.get('a')}"
        ctx.report(vp.Violation(what, replay={"mode": mode, "invariant": v.invariant, "record": rec,
                                              "obs": obs_of(v), "run": run[:rel + 1], "program": program_of(run),
                                              "cmd": "bin/check C20 --replay <this file>"},
                                signature=sig))
        if sig == SIG_STALE:
            hints["stale"] = True
        elif sig == SIG_RFULL:
            hints["rfull"] = True
        else:
            return False, hints
        cur_recs = mask_known(cur_recs, sig)
        cur = trace.replace(".ndjson", f".masked{attempt}.ndjson")
        vp.write_ndjson(cur, cur_recs)
    raise vp.ToolError(f"trace validation of {tag} did not converge")


def program_of(run):
    """Re-executable program of a recorded run."""
    rs = run[0]
    steps, cur = [], None
    for r in run[1:]:
        a = r.get("a")
        if a == "pbegin":
            cur = {"a": "process", "stop": 0, "inj": [], "tmo": 0, "_n": 0}
        elif a == "cb" and cur is not None:
            cur["_n"] += 1
        elif a == "notify" and r.get("in") == 1 and cur is not None:
            cur["inj"].append([cur["_n"], r["s"]])
        elif a == "pend" and cur is not None:
            cur["stop"] = r["stop"]
            cur.pop("_n")
            steps.append(cur)
            cur = None
        elif a == "attach":
            steps.append({k: r[k] for k in ("a", "g", "ty", "l", "c")})
        elif a in ("drop", "notify", "drain", "recreate"):
            steps.append({k: r[k] for k in r if k in ("a", "g", "s", "l")})
    if cur is not None:
        cur.pop("_n")
        steps.append(cur)
    return {"svc": rs.get("svc"), "nl": rs.get("nl"), "ng": rs.get("ng"), "cap": rs.get("cap"),
            "nsvc": max(rs.get("sv", [1])), "steps": steps}


def validate_impl(ctx, trace, tag, params):
    """Conformance of the implementation-shaped layer (DRIFT only)."""
    d = ctx.path("tr", tag, "x")[:-2]
    name = "TR_" + re.sub(r"\W", "_", tag)
    with open(os.path.join(d, f"{name}.tla"), "w") as f:
        f.write(f"---- MODULE {name} ----\nEXTENDS WaitSetImplTrace\n====\n")
    with open(os.path.join(d, f"{name}.cfg"), "w") as f:
        f.write("SPECIFICATION TraceSpec\nCONSTANTS\n NL = 4\n NG = 6\n NS = 1\n Cap = 0\n RCap = 0\n MaxIdx = 0\n"
                f" InsertBeforeCheck = {tla(params['InsertBeforeCheck'])}\n"
                f" ReactorFullError = {tla(params['ReactorFullError'])}\n"
                f" DropRemovesMaps = {tla(params['DropRemovesMaps'])}\n"
                "CONSTRAINT Progress\nPOSTCONDITION Accepted\nCHECK_DEADLOCK FALSE\n")
    v = vp.tlc_trace(d, name, trace, libs=["api"])
    vp.record_tlc(ctx, f"WaitSetImplTrace[{tag}]", v.res, count=False)
    if not v.accepted:
        print(f"DRIFT: {tag}: the recorded trace is not explained by WaitSetImpl.tla at record {v.pos}: {v.record}")
        ctx.note(f"impl-level drift {tag} at {v.pos}: {v.record}")
        return False
    return True


def extract_params(traces):
    """Parameters of WaitSetImpl.tla read back from the behaviour of the current build."""
    p = {"InsertBeforeCheck": False, "ReactorFullError": "InsufficientCapacity", "DropRemovesMaps": True}
    seen = {"InsertBeforeCheck": False, "ReactorFullError": False}
    for t in traces:
        prev_m, reset = 0, {}
        for r in vp.read_ndjson(t):
            if r.get("k") == "reset":
                reset, prev_m = r, 0
            if r.get("a") == "attach" and r.get("ty") == "d" and r.get("r") == "InsufficientCapacity" and r.get("m", -1) >= 0:
                seen["InsertBeforeCheck"] = True
                if r["m"] > prev_m:
                    p["InsertBeforeCheck"] = True
            if r.get("a") == "attach" and reset.get("svc") == "selfd" and r.get("l") == reset.get("nl") \
                    and r.get("ty") in ("n", "d") and r.get("r") != "ok":
                seen["ReactorFullError"] = True
                p["ReactorFullError"] = r["r"]
            if "m" in r and r.get("k") == "op":
                prev_m = r["m"]
    return p, seen


def need(summary, what, keys):
    ops = summary.get("ops", {})
    missing = [k for k in keys if ops.get(k, 0) == 0]
    if missing:
        raise vp.ToolError(f"vacuous driver run ({what}): operations never exercised: {missing}")


# ------------------------------------------------------------------------------------------------

def run(ctx):
    try:
        _run(ctx)
    finally:
        cleanup(ctx)


def _run(ctx):
    vp.cargo_build(["drv-waitset"])
    quick = ctx.quick
    rng = random.Random(ctx.seed)
    ctx.assumptions += [
        "duration classes: 1 ns (expired at every processing call, the driver sleeps 300 us before it) / 1 h (never); "
        "scripted timed programs add intervals of 120 ms with sleeps of 200 ms (lower bounds, also inside callbacks)",
        "listener readiness is level triggered and changes only through the driver's notify / try_wait calls",
        "capacity clause exercised on a select-based service variant built from public items (FD_SETSIZE = 1024)",
        "descriptor<->deadline map sizes are read from the Debug representation of the wait set",
    ]
    traces, summaries = [], {}

    # ---- 1. property layer closed with the ideal implementation: the clauses are consistent, every action reachable
    mcs = []       # quick: checked together with the state-cover generation below (same state space)
    if not quick:
        mcs += [("MCG_2_3", {"NL": 2, "NS": 2, "NG": 3, "Cap": 2, "MaxSteps": 0, "Emit": tla("none")}),
                ("MCG_3_3", {"NL": 3, "NS": 2, "NG": 3, "Cap": 3, "MaxSteps": 0, "Emit": tla("none")}),
                ("MCG_3_4", {"NL": 3, "NS": 1, "NG": 4, "Cap": 3, "MaxSteps": 0, "Emit": tla("none")})]
    for name, consts in mcs:
        d = write_mc(ctx, name, "WaitSetGen", consts, ["TypeOK"] + INVS)
        res = vp.tlc(d, name, workers=8, timeout=1200, libs=["api"])
        vp.record_tlc(ctx, f"WaitSetGen[{name}]", res)
        vp.tlc_require_ok(res, name)
        vp.check_action_coverage(res, GEN_ACTIONS, name)

    # ---- 2. generation (TLC) and execution on the real wait set, validation by TLC (V1)
    nsim = 40 if quick else 500
    cover, _ = generate(ctx, "GEN_cover", {"NL": 2, "NS": 2, "NG": 2 if quick else 3, "Cap": 99, "MaxSteps": 40},
                        "all", 600 if quick else 4000, rng, workers=4)
    capc, _ = generate(ctx, "GEN_cover_cap", {"NL": 2, "NS": 2, "NG": 3, "Cap": 2, "MaxSteps": 40}, "all",
                       700 if quick else 4000, rng, workers=4, check=True)
    sim, _ = generate(ctx, "GEN_sim", {"NL": 3, "NS": 2, "NG": 4, "Cap": 3, "MaxSteps": 60}, "end",
                      nsim, rng, simulate=f"num={nsim}", workers=1, extra=["-seed", str(ctx.seed), "-depth", "70"])
    ctx.coverage["generated_by_tlc"] = {"state_cover": len(cover), "state_cover_capacity": len(capc), "simulate": len(sim)}

    def go(mode, tag, programs=None, **kw):
        trace, summ = run_driver(ctx, mode, tag, programs=programs, **kw)
        if summ.get("unsupported"):
            ctx.note(f"{tag}: not exercised: {summ['unsupported']}")
            return None
        summaries[tag] = summ
        traces.append(trace)
        if summ.get("panics"):
            ctx.note(f"{tag}: the code under test panicked (recorded in the trace)")
        return summ

    for mode in ("ipc", "local"):
        ng_c = 2 if quick else 3
        progs = [fold_behaviour(h, {"nl": 2, "ng": ng_c, "cap": 99, "nsvc": 2, "svc": mode}) for h in cover] \
            + [fold_behaviour(h, {"nl": 3, "ng": 4, "cap": 99, "nsvc": 2, "svc": mode}) for h in sim]
        go(mode, f"{mode}-tlc", programs=progs)
        s = go(mode, f"{mode}-random", random_n=40 if quick else 600, steps=50, nl=3, ng=4, cap=99, nsvc=2)
        need(s, f"{mode}-random", ["attach_n", "attach_d", "attach_i", "drop", "notify", "process", "recreate", "drain"])
        if s["callbacks"] == 0 or s["inject"] == 0 or s["stops"] == 0 or s["reattach_same_fd"] == 0 \
                or s["refused"].get("AlreadyAttached", 0) == 0:
            raise vp.ToolError(f"vacuous driver run {mode}-random: {s}")
    # capacity clause: select-based variant, counter path (interval fillers)
    progs = [fold_behaviour(h, {"nl": 2, "ng": 3, "cap": 2, "nsvc": 2, "svc": "sel"}) for h in capc] \
        + [fold_behaviour(h, {"nl": 3, "ng": 4, "cap": 3, "nsvc": 2, "svc": "sel"}) for h in sim]
    go("sel", "sel-tlc", programs=progs)
    s = go("sel", "sel-random", random_n=30 if quick else 400, steps=50, nl=3, ng=4, cap=3, nsvc=2)
    if s["refused"].get("InsufficientCapacity", 0) == 0:
        raise vp.ToolError(f"capacity clause not exercised in sel-random: {s}")
    # capacity clause: reactor path (descriptor fillers)
    s = go("selfd", "selfd-random", random_n=6 if quick else 60, steps=80, nl=3, ng=4, cap=2, nsvc=3)
    rfull_exercised = s is not None and any(
        r.get("a") == "attach" and r.get("l") == 3 and r.get("ty") in ("n", "d")
        for r in vp.read_ndjson(traces[-1]))
    if s is None or not rfull_exercised:
        ctx.note("reactor-level capacity (ReactorAttachError::CapacityExceeded) was NOT exercised")
    # timed programs (scripted): intervals of the "mid" class (period 120 ms) and sleeps of 200 ms outside of and INSIDE
    # callbacks - a tick that becomes due while the wait set is processing must be reported by the next call, also when a
    # notification is pending in the same call. Sleeps are lower bounds only: no verdict depends on real durations.
    def P(**kw):
        d = {"a": "process", "stop": 0, "inj": [], "tmo": 1, "slp": 0}
        d.update(kw)
        return d
    AI = lambda g, c: {"a": "attach", "g": g, "ty": "i", "l": 0, "c": c}
    AN = lambda g, l: {"a": "attach", "g": g, "ty": "n", "l": l, "c": "-"}
    AD = lambda g, l, c: {"a": "attach", "g": g, "ty": "d", "l": l, "c": c}
    SL, NO = {"a": "sleep"}, lambda sv: {"a": "notify", "s": sv}
    timed = [
        [AI(1, "s"), AI(2, "m"), P(slp=1), P(), {"a": "sleep"}, P(), P(slp=1), P(slp=1), P(), {"a": "drop", "g": 2}, P()],
        [AN(1, 1), AI(2, "m"), SL, NO(1), P(), NO(1), P(slp=1), NO(1), P(), SL, P(), NO(1), P(slp=1, stop=1), P()],
        [AD(1, 1, "l"), AI(2, "m"), AI(3, "m"), NO(1), P(slp=1), P(), SL, NO(1), P(slp=2), P(), {"a": "drop", "g": 3}, SL, P()],
    ]
    timed_traces = []
    for mode in ("ipc", "local"):
        progs = [{"nl": 2, "ng": 3, "cap": 99, "nsvc": 2, "svc": mode, "steps": st} for st in timed]
        trace, summ = run_driver(ctx, mode, f"{mode}-timed", programs=progs)
        if summ.get("ops", {}).get("sleep", 0) == 0 and summ.get("op", {}).get("sleep", 0) == 0 and "sleep" not in json.dumps(summ):
            raise vp.ToolError(f"vacuous timed run {mode}: {summ}")
        timed_traces.append(trace)
    trecs = []
    for t in timed_traces:
        trecs += vp.read_ndjson(t)
    if not any(r.get("a") == "sleep" and r.get("in") == 1 for r in trecs) or \
            not any(r.get("a") == "cb" and r.get("ev") == [2] for r in trecs):
        raise vp.ToolError("vacuous timed runs: no sleep inside a callback / the mid interval never fired")
    tbig = ctx.path("traces", "timed.ndjson")
    vp.write_ndjson(tbig, trecs)
    validate(ctx, tbig, {"mode": "timed"}, "timed")
    # one concatenated trace: the JVM starts once
    allrecs = []
    for t in traces:
        allrecs += vp.read_ndjson(t)
    big = ctx.path("traces", "all.ndjson")
    vp.write_ndjson(big, allrecs)
    runs = vp.split_runs(allrecs)
    ctx.evaluations = len(runs)
    ctx.distinct = len({json.dumps(program_of(r), sort_keys=True) for r in runs if len(r) > 3})
    ok, hints = validate(ctx, big, {"mode": "all"}, "all")
    for r in (runs[3], runs[len(runs) // 2]):
        ctx.sample({"svc": r[0]["svc"], "program": program_of(r)["steps"][:14],
                    "recorded": [f"{x.get('a')}:{x.get('r', x.get('ev', ''))}{x.get('dl', '')}" for x in r[1:24]]})

    # ---- 3. implementation-shaped model with the parameters of THIS build: conformance, then V2
    params, seen = extract_params(traces)
    ctx.coverage["impl_parameters_extracted"] = params
    if not seen["InsertBeforeCheck"]:
        ctx.note("parameter InsertBeforeCheck could not be extracted (no refused attach_deadline observed)")
    conforms = validate_impl(ctx, big, "all", params)
    impls = [("MCI_free", {"NL": 2, "NS": 2, "NG": 2 if quick else 3, "Cap": 9, "RCap": 9, "MaxIdx": 3}),
             # counter capacity and reactor capacity both reachable
             ("MCI_cap", {"NL": 2, "NS": 2, "NG": 3, "Cap": 2, "RCap": 2, "MaxIdx": 3 if quick else 4})]
    if not quick:
        impls.append(("MCI_free3", {"NL": 3, "NS": 2, "NG": 3, "Cap": 9, "RCap": 9, "MaxIdx": 3}))
        # three listeners, room for two: a never-attached listener can meet a full reactor (RCap = Cap, as in selfd)
        impls.append(("MCI_cap3", {"NL": 3, "NS": 1, "NG": 3, "Cap": 2, "RCap": 2, "MaxIdx": 3}))
    for name, consts in impls:
        invs = list(INVS)
        while True:
            c = dict(consts)
            c.update({k: tla(v) for k, v in params.items()})
            d = write_mc(ctx, name, "WaitSetImpl", c, ["ImplTypeOK"] + invs, "CONSTRAINT IdxBound\n")
            res = vp.tlc(d, name, workers=8, timeout=1500, libs=["api"])
            vp.record_tlc(ctx, f"WaitSetImpl[{name} {params} {invs}]", res)
            if res.timed_out:
                raise vp.ToolError(f"TLC timed out on {name}")
            if res.violated and res.violated in invs:
                if not conforms:
                    ctx.note(f"{name}: {res.violated} refuted, but the model does not conform to this build (drift) - no verdict")
                    break
                acts = cex_actions(res)
                sig = f"model:{res.violated}"
                if res.violated == "AttachRefusedCleanly":
                    o = re.sub(r"\s+", " ", last_state(res))
                    if re.search(r'got \|-> "AlreadyAttached"', o) and "IAttach" in acts[-1]:
                        sig = SIG_RFULL
                    elif re.search(r'got \|-> "InsufficientCapacity"', o) and acts[-1].startswith("IAttachD"):
                        sig = SIG_STALE
                ctx.report(vp.Violation(
                    f"TLC refutes {res.violated} on WaitSetImpl.tla instantiated with the behaviour of this build {params}: "
                    + " ; ".join(acts[1:]),
                    replay={"model": name, "invariant": res.violated, "parameters": params, "actions": acts,
                            "last_state": last_state(res)}, signature=sig))
                invs.remove(res.violated)      # keep checking the other clauses
                if not invs:
                    break
                continue
            if not res.ok:
                raise vp.ToolError(f"TLC failed on {name}: {res.error}\n{res.output[-3000:]}")
            vp.check_action_coverage(res, ["IAttachN", "IAttachD", "IAttachI", "IDrop", "IPBegin", "ICb", "IPEnd"], name)
            break

    # ---- 4. selftest of the binding (thorough): a corrupted trace must be rejected
    if not quick:
        selftest(ctx, traces[0])
    ctx.coverage["driver_summaries"] = summaries
    ctx.coverage["rule"] = ("evaluations = programs executed on the real WaitSet (TLC state-cover behaviours, TLC "
                            "-simulate behaviours, seeded on-line generator) over ipc/local/sel/selfd; distinct = "
                            "distinct recorded programs; states/transitions = TLC on WaitSetGen and WaitSetImpl")


def selftest(ctx, trace):
    recs = vp.read_ndjson(trace)
    muts = []
    # (a) drop one callback record of a call that was not stopped
    for i, r in enumerate(recs):
        if r.get("a") == "cb":
            j = i
            while recs[j].get("a") != "pend":
                j += 1
            if recs[j]["stop"] == 0:
                muts.append(("drop-callback", recs[:i] + recs[i + 1:]))
                break
    # (b) a callback resolves to another guard
    for i, r in enumerate(recs):
        if r.get("a") == "cb" and r.get("ev"):
            m = [dict(x) for x in recs]
            m[i]["ev"] = [r["ev"][0] % 4 + 1]
            muts.append(("wrong-guard", m))
            break
    # (c) a refused attach reported as ok
    for i, r in enumerate(recs):
        if r.get("a") == "attach" and r.get("r") == "AlreadyAttached":
            m = [dict(x) for x in recs]
            m[i]["r"] = "ok"
            muts.append(("refused-as-ok", m))
            break
    for name, m in muts:
        p = ctx.path("selftest", f"{name}.ndjson")
        vp.write_ndjson(p, m)
        v = vp.tlc_trace("api", "WaitSetTrace", p)
        vp.record_tlc(ctx, f"selftest[{name}]", v.res, count=False)
        if v.accepted:
            raise vp.ToolError(f"selftest: corrupted trace ({name}) was accepted")
    ctx.coverage["selftest"] = [n for n, _ in muts]
    if len(muts) < 3:
        raise vp.ToolError("selftest: could not build all corruptions")


def replay(ctx, path):
    body = json.load(open(path))
    print(json.dumps({k: body.get(k) for k in ("what", "mode", "invariant", "record", "obs")}, indent=1))
    prog = body.get("program")
    if not prog:
        return 0
    try:
        vp.cargo_build(["drv-waitset"])
        trace, summ = run_driver(ctx, body["mode"], "replay", programs=[prog])
        v = vp.tlc_trace("api", "WaitSetTrace", trace)
        print(f"re-executed: accepted={v.accepted} invariant={v.invariant} record={rejected_at(v)}")
        return 0 if v.accepted else 1
    finally:
        cleanup(ctx)
