"""C17 - Orderly shutdown in any order leaves nothing behind."""
import glob
import json
import os
import random
import re
import shutil
from concurrent.futures import ThreadPoolExecutor

import vp

META = {
    "level": "model_checking",
    "engine": "tla-roundtrip",
    "technique": "TLC model checking of the reference-count specification DropOrder.tla over all legal drop orders of "
                 "8 object graphs; TLC generates the drop orders (all for the 6-object graphs, -simulate samples / all "
                 "8! for the 8-object ones); the Rust driver executes every order in a child process of its own on the "
                 "real API (4 messaging patterns x ipc/local/thread-safe variants), uses every survivor after each "
                 "drop, lists the isolated domain at the end and re-creates the names; TLC validates the records",
    "text": "For every drop order TLC generated: no drop or use panics, aborts or hangs (child process status), every "
            "survivor keeps working after each drop (data or a documented error, payload integrity of held samples / "
            "responses), nodes and the service stay listed exactly as long as they are in use, and after the last drop "
            "nothing is listed or left in the domain's root directory and /dev/shm except the documented per-domain "
            "resources, and the same service name can be created again. TLC checks in the model that under every "
            "order no live object outlives a core it needs, every core is released exactly once and none is left.",
    "note": "Trusted: TLC; the object graphs of DropOrder.tla (which object holds a counted reference to which) were "
            "read from the code; while only secondary objects (samples, pending responses, entry handles) of a node "
            "are alive the listing of the node / service is left open. Persisting per domain (read from config.rs and "
            "node/global_management_segment.rs): the directories config.global.node.directory and "
            "config.global.service.directory below the root path and the global management segment "
            "(<prefix>…<global_mgmt_suffix>); everything else left behind is a violation. The wait-set guard borrows "
            "listener and wait set (Rust lifetimes), only orders respecting the borrow exist. Quick: all "
            "permutations of pubsub6/event6 on local and ipc + 16 TLC -simulate orders per 7/8-object pattern and "
            "variant (384); thorough: all 7!/8! of pubsub7, pubsub8, event8 on local, 15 000 sampled for the other "
            "8-object graphs on local, 5 000 each for ipc and the two thread-safe variants. One known finding "
            "(left:node-directory) is re-observed on the current tree.",
    "design_ref": "DESIGN.md 5 C17, 2.2, 3.4",
    "replay": True,
}

P6 = ["pubsub6", "event6"]
P8 = ["pubsub7", "pubsub8", "event8", "reqres8", "reqres8n", "bb8"]
VARIANTS = ["ipc", "local", "ipc_threadsafe", "local_threadsafe"]
MODEL_INVS = ["TypeOK", "RcAgrees", "NoUseAfterFree", "BorrowsAlive", "ReleasedOnce", "NothingLeft", "Reusable",
              "UseDefined", "ListingConsistent", "NothingLeftObserved", "ReusableObserved", "NoCrash", "CanProgress"]
TRACE_INVS = ["UseDefined", "ListingConsistent", "NothingLeftObserved", "ReusableObserved", "NoCrash", "NoUseAfterFree",
              "ReleasedOnce", "NothingLeft"]
SIG_NODE_DIR = "left:node-directory"
PARENT = {"S1": "N1", "S2": "N2", "LM": "P", "RS": "U", "PR": "C", "AR": "V", "RSP": "C", "LR": "V", "EM": "W", "EH": "R"}
PORT_HANDLE = {   # pattern -> port -> service handle it was created from
    "pubsub6": {"P": "S1", "U": "S1"}, "pubsub7": {"P": "S1", "U": "S2"}, "pubsub8": {"P": "S1", "U": "S2"},
    "event6": {"NO": "S1", "LI": "S1"}, "event8": {"NO": "S1", "LI": "S2"},
    "reqres8": {"C": "S1", "V": "S1"}, "reqres8n": {"C": "S1", "V": "S2"},
    "bb6": {"W": "S1", "R": "S1"}, "bb8": {"W": "S1", "R": "S2"}}
RENAME = {"reqres8n": {"P": "C", "U": "V", "LM": "PR", "RS": "AR"},
          "bb8": {"P": "W", "U": "R", "LM": "EM", "RS": "EH"},
          "bb6": {"P": "W", "U": "R", "LM": "EM", "RS": "EH"}}


def write_mc(ctx, name, patterns, emit, view):
    d = ctx.path("mc", name, "x")[:-2]
    with open(os.path.join(d, f"{name}.tla"), "w") as f:
        f.write(f"---- MODULE {name} ----\nEXTENDS DropOrderGen\n====\n")
    with open(os.path.join(d, f"{name}.cfg"), "w") as f:
        ps = ", ".join(f'"{p}"' for p in patterns)
        f.write(f'SPECIFICATION GSpec\nCONSTANTS\n Patterns = {{{ps}}}\n Emit = {"TRUE" if emit else "FALSE"}\n')
        if view:
            f.write("VIEW StateView\n")
        f.write("INVARIANTS " + " ".join(MODEL_INVS) + " EmitOrder\nCHECK_DEADLOCK FALSE\n")
    return d


def orders_of(res):
    """{pattern: [order, ...]} printed by EmitOrder"""
    out = {}
    for line in res.prints:
        if line.startswith('"ORDER '):
            o = json.loads(line[len('"ORDER '):-1].encode().decode("unicode_escape"))
            out.setdefault(o["pat"], []).append(o["order"])
    return out


def model_check(ctx, patterns):
    """All reachable (live, rc, ...) states of every graph; the clauses depend on the state only, so the
    VIEW without `hist` covers every drop order."""
    d = write_mc(ctx, "MC_all", patterns, False, True)
    return vp.tlc(d, "MC_all", workers=4, timeout=900, libs=["api"])


def gen_all(ctx, name, patterns, timeout=3000):
    d = write_mc(ctx, name, patterns, True, False)
    return vp.tlc(d, name, workers=6, timeout=timeout, libs=["api"], coverage=False)


def gen_sim(ctx, patterns, n):
    d = write_mc(ctx, "GENSIM", patterns, True, False)
    return vp.tlc(d, "GENSIM", workers=1, timeout=900, libs=["api"], coverage=False, simulate=f"num={n}",
                  extra=["-seed", str(ctx.seed), "-depth", "14"])


def rename(order, pattern):
    m = RENAME.get(pattern)
    if not m:
        return order
    return [{"o": m.get(s["o"], s["o"]), "how": "drop"} for s in order]


def cleanup(ctx):
    prefix = tag(ctx)
    for p in glob.glob(f"/dev/shm/{prefix}*"):
        try:
            os.remove(p)
        except OSError:
            pass
    shutil.rmtree(ctx.path("dom", "x")[:-2], ignore_errors=True)


def tag(ctx):
    return f"vc17{ctx.tier[0]}{ctx.seed % 1000}_"


def execute(ctx, plan, name):
    pf = ctx.path("plans", f"{name}.ndjson")
    vp.write_ndjson(pf, plan)
    out = ctx.path("traces", f"{name}.ndjson")
    root = ctx.path("dom", "x")[:-2]
    _, so, _ = vp.run_driver("drv-droporder", ["run", "--plan", pf, "--root", root, "--tag", tag(ctx), "--out", out,
                                               "--jobs", 12 if ctx.quick else 14, "--batch", 16 if ctx.quick else 48], timeout=14000)
    return out, vp.last_json_line(so)


def last_state(res):
    return "\n".join(res.cex[-1][1]) if res.cex else ""


def rejected_at(v):
    if v.invariant:
        m = re.findall(r"/\\ l = (\d+)", last_state(v.res))
        return int(m[-1]) - 1 if m else None
    return v.pos


def trace_cfg(ctx):
    d = ctx.path("tr", "x")[:-2]
    name = "TR_DropOrder"
    with open(os.path.join(d, f"{name}.tla"), "w") as f:
        f.write(f"---- MODULE {name} ----\nEXTENDS DropOrderTrace\n====\n")
    with open(os.path.join(d, f"{name}.cfg"), "w") as f:
        f.write("SPECIFICATION TraceSpec\nCONSTRAINT Progress\n"
                "POSTCONDITION Accepted\nCHECK_DEADLOCK FALSE\nINVARIANTS " + " ".join(TRACE_INVS) + "\n")
    return d, name


def node_of(pattern, o):
    while o not in ("N1", "N2"):
        if pattern == "pubsub7" and o == "S2":
            return "N1"
        o = PORT_HANDLE[pattern].get(o) or PARENT.get(o)
        if o is None:
            return None
    return o


def known_node_dir_leftover(run, rec):
    """The known finding, and nothing else: every leftover is the EMPTY directory nodes/<id> of a node of this run
    whose Node object was dropped before the last port-bearing object (port, sample, pending response ...) of that
    node; nothing is listed any more and the names could be re-created."""
    names = rec.get("names", [])
    if not names or rec.get("nodes") != 0 or rec.get("svc") != 0 or rec.get("recreate") != "ok":
        return False
    ids = run[0].get("nodeids", [])
    pattern = run[0].get("pat")
    order = [r["o"] for r in run if r.get("a") == "drop"]
    for n in names:
        m = re.fullmatch(r"(after-recreate:)?dir:nodes/(\d+)", n)
        if not m or m.group(2) not in ids:
            return False
        node = "N1" if ids.index(m.group(2)) == 0 else "N2"
        bearing = [o for o in order if o not in ("N1", "N2", "S1", "S2", "WS", "G") and node_of(pattern, o) == node]
        if not bearing or node not in order:
            return False
        if order.index(node) > max(order.index(o) for o in bearing):
            return False          # the node was dropped after its last port-bearing object: NOT the known finding
    return True


def mask_node_dirs(recs):
    out = []
    for run in vp.split_runs(recs):
        for r in run:
            if r.get("a") == "final" and r.get("left", 0) > 0 and known_node_dir_leftover(run, r):
                r = dict(r, left=0, masked=1)
            out.append(r)
    return out


def order_of(run):
    return [{"o": r["o"], "how": r["how"]} for r in run if r.get("a") == "drop"]


def validate(ctx, tag_, recs):
    """V1 for one chunk of runs; returns (violations, tlc runs, accepted) - called from worker threads."""
    d, name = trace_cfg(ctx)
    viols, runs_tlc = [], []
    cur = recs
    for attempt in range(3):
        tf = ctx.path("traces", f"{tag_}.{attempt}.ndjson")
        vp.write_ndjson(tf, cur)
        v = vp.tlc_trace(d, name, tf, libs=["api"], timeout=3000)
        runs_tlc.append((f"DropOrderTrace[{tag_}#{attempt}]", v.res))
        if v.accepted:
            return viols, runs_tlc, True
        pos = rejected_at(v)
        rec = cur[pos - 1] if pos else {}
        run, rel = vp.run_containing(cur, pos) if pos else (cur[:40], 0)
        pattern = run[0].get("pat")
        badtxt = re.sub(r"\s+", " ", "".join(re.findall(r"/\\ bad = \[(.*?)\]", last_state(v.res), re.S)[-1:]))
        endrec = next((r for r in run if r.get("k") == "end"), {})
        var = run[0].get("var")
        order = order_of(run)
        if v.invariant == "NothingLeftObserved" and rec.get("a") == "final" and known_node_dir_leftover(run, rec):
            sig = SIG_NODE_DIR
            what = (f"{pattern}/{var}: after dropping {[s['o'] for s in order]} the directory {rec['names'][0][4:]} is "
                    f"left behind in the domain (Node dropped before the last port of the node)")
        else:
            sig = f"{v.invariant or 'unexplained'}:{pattern}:{rec.get('a', rec.get('k'))}:{rec.get('o', '')}:{rec.get('r', rec.get('status', ''))}"
            what = (f"{pattern}/{var}: order {[s['o'] + ('!' if s['how'] == 'send' else '') for s in order]}: "
                    f"{v.invariant or 'record not explainable'} at record #{rel}: {rec} ({badtxt})")
        viols.append(vp.Violation(what, replay={"pattern": pattern, "variant": var, "order": order, "record": rec,
                                                "invariant": v.invariant, "bad": badtxt, "child_status": endrec.get("status"),
                                                "run": run[:rel + 1], "cmd": "bin/check C17 --replay <this file>"},
                                  signature=sig))
        if sig != SIG_NODE_DIR:
            return viols, runs_tlc, False
        cur = mask_node_dirs(cur)
    return viols, runs_tlc, False


def run(ctx):
    try:
        _run(ctx)
    finally:
        cleanup(ctx)


def _run(ctx):
    vp.cargo_build(["drv-droporder"])
    quick = ctx.quick
    rng = random.Random(ctx.seed)
    ctx.assumptions += [
        "object graphs (who holds a counted reference to whom, who borrows whom) of DropOrder.tla read from the code",
        "persistent per domain: <root>/nodes, <root>/services (directories) and the global management segment",
        "drop orders run in child processes (batches; a panic, abort or hang is attributed to the order in progress and the "
        "not yet started orders are re-run in a fresh process); watchdog 60 s without output for work that takes milliseconds",
    ]
    patterns6 = P6 + ([] if quick else ["bb6"])
    # ---- 1. model: every reachable state of every graph
    res = model_check(ctx, patterns6 + P8)
    vp.record_tlc(ctx, "DropOrderGen[all graphs, state view]", res)
    vp.tlc_require_ok(res, "MC_all")
    vp.check_action_coverage(res, ["GDrop", "GFinal", "GEnd"], "MC_all")

    # ---- 2. TLC generates the drop orders
    plan = []
    gen_counts = {}
    res = gen_all(ctx, "GENALL6", patterns6)
    vp.record_tlc(ctx, f"DropOrderGen[{patterns6} all orders]", res)
    vp.tlc_require_ok(res, "GENALL6")
    all_orders = orders_of(res)
    for pattern in patterns6:
        os_ = all_orders[pattern]
        gen_counts[pattern + ":all"] = len(os_)
        # quick: one execution per PERMUTATION; whether a loaned sample is sent or dropped is drawn (seeded)
        by_perm = {}
        for o in os_:
            by_perm.setdefault(tuple(s["o"] for s in o), []).append(o)
        chosen = [rng.choice(v) for _, v in sorted(by_perm.items())]
        for var in (("local", "ipc") if quick else VARIANTS):
            full = (not quick) and var in ("local", "ipc")       # thorough: send AND drop variant of every permutation
            plan += [{"pat": pattern, "var": var, "order": o} for o in (os_ if full else chosen)]
    shapes = ["pubsub7", "pubsub8", "event8", "reqres8"]
    if quick:
        n8 = 16
        res = gen_sim(ctx, shapes, len(shapes) * n8 * 4 * 2)
        if res.timed_out or res.error or res.violated:
            raise vp.ToolError(f"simulation failed: {res.error or res.violated}\n{res.output[-2000:]}")
        vp.record_tlc(ctx, "DropOrderGen[-simulate 8-object graphs]", res, count=False)
        sims = orders_of(res)
        for p in shapes:
            uniq = list({json.dumps(o): o for o in sims.get(p, [])}.values())
            if len(uniq) < n8 * 4:
                raise vp.ToolError(f"simulation produced only {len(uniq)} distinct orders of {p}")
            sims[p] = uniq
            gen_counts[p + ":simulate"] = len(uniq)
        for pattern in P8:
            src = sims["pubsub8" if pattern in RENAME else pattern]
            for i, var in enumerate(VARIANTS):
                plan += [{"pat": pattern, "var": var, "order": rename(o, pattern)} for o in src[i * n8:(i + 1) * n8]]
    else:
        res = gen_all(ctx, "GENALL8", shapes, timeout=6000)
        vp.record_tlc(ctx, f"DropOrderGen[{shapes} all orders]", res)
        vp.tlc_require_ok(res, "GENALL8")
        all8 = orders_of(res)

        def perms_of(src):
            """one order per permutation; whether the loaned sample / response is sent is drawn (seeded)"""
            ps = {}
            for o in src:
                ps.setdefault(tuple(s["o"] for s in o), []).append(o)
            return [rng.choice(v) for _, v in sorted(ps.items())]

        per_pattern = {}
        for pattern in P8:
            src = all8["pubsub8" if pattern in RENAME else pattern]
            if pattern in RENAME:
                src = list({tuple(s["o"] for s in rename(o, pattern)): rename(o, pattern) for o in src}.values())
            gen_counts[pattern + ":all"] = len(src)
            per_pattern[pattern] = src
        # local: ALL permutations of pubsub7 (7!), pubsub8 and event8 (8!), 10 000 / 2 500 sampled for the others
        for pattern, n in (("pubsub7", None), ("pubsub8", None), ("event8", None), ("reqres8", 10000),
                           ("reqres8n", 2500), ("bb8", 2500)):
            ps = perms_of(per_pattern[pattern])
            if n is not None:
                ps = rng.sample(ps, min(n, len(ps)))
            plan += [{"pat": pattern, "var": "local", "order": o} for o in ps]
        # ipc and the thread-safe variants: 5 000 sampled each, spread over the patterns
        for var in ("ipc", "ipc_threadsafe", "local_threadsafe"):
            for pattern in P8:
                src = per_pattern[pattern]
                plan += [{"pat": pattern, "var": var, "order": o} for o in rng.sample(src, min(len(src), 5000 // len(P8)))]
    ctx.coverage["orders_generated_by_tlc"] = gen_counts

    # ---- 3. execution: one child process per order
    trace, summ = execute(ctx, plan, "all")
    ctx.coverage["child_status"] = summ["status"]
    ctx.evaluations = summ["runs"]
    ctx.distinct = len({(p["pat"], p["var"], json.dumps(p["order"])) for p in plan})
    recs = vp.read_ndjson(trace)
    by_pat = {}
    for r in vp.split_runs(recs):
        by_pat.setdefault(r[0].get("pat"), []).extend(r)
    uses = sum(1 for r in recs if r.get("a") == "use")
    drops = sum(1 for r in recs if r.get("a") == "drop")
    sends = sum(1 for r in recs if r.get("a") == "drop" and r.get("how") == "send")
    broken = sum(1 for r in recs if r.get("a") == "drop" and str(r.get("r", "")).startswith("err:"))
    finals = sum(1 for r in recs if r.get("a") == "final")
    ctx.coverage["driver"] = {"drops": drops, "uses": uses, "sent_instead_of_dropped": sends,
                              "documented_send_errors": broken, "finals": finals}
    if uses == 0 or drops == 0 or finals == 0 or sends == 0 or set(by_pat) != set(patterns6 + P8):
        raise vp.ToolError(f"vacuous execution: {ctx.coverage['driver']} patterns={sorted(by_pat)}")

    # ---- 4. validation (V1): TLC explains every run, in parallel chunks
    runs = vp.split_runs(recs)
    # a run that shows the shape of the known finding is given to TLC alone first; only when TLC has rejected it
    # (NothingLeftObserved) is that exact shape masked in the other runs, which are then validated once
    cand = next((r for r in runs if any(x.get("a") == "final" and x.get("left", 0) > 0 and known_node_dir_leftover(r, x)
                                        for x in r)), None)
    if cand is not None:
        viols, tlcs, ok = validate(ctx, "candidate", cand)
        for nm, res in tlcs:
            vp.record_tlc(ctx, nm, res, count=False)
        for v in viols:
            ctx.report(v)
        if [v.signature for v in viols] == [SIG_NODE_DIR] and ok:
            recs = mask_node_dirs(recs)
            runs = vp.split_runs(recs)
    nchunks = 4 if quick else 12
    chunks = [[] for _ in range(nchunks)]
    for i, r in enumerate(runs):
        chunks[i * nchunks // len(runs)].extend(r)
    with ThreadPoolExecutor(max_workers=4 if quick else 6) as ex:
        vals = list(ex.map(lambda ic: validate(ctx, f"chunk{ic[0]}", ic[1]), enumerate(chunks)))
    for ci, (viols, tlcs, ok) in enumerate(vals):
        for nm, res in tlcs:
            vp.record_tlc(ctx, nm, res, count=False)
        for v in viols:
            ctx.report(v)
        if ok:
            ctx.traces_validated += sum(1 for r in chunks[ci] if r.get("k") == "reset")
    ctx.coverage["runs_showing_known_node_directory_leftover"] = sum(1 for r in recs if r.get("masked") == 1)
    for r in (runs[0], runs[len(runs) // 2], runs[-1]):
        ctx.sample({"pattern": r[0].get("pat"), "variant": r[0].get("var"),
                    "order": [s["o"] + ("!" if s["how"] == "send" else "") for s in order_of(r)],
                    "observed": [f"{x.get('a')}:{x.get('o', '')}:{x.get('r', '')}{x.get('nodes', '')}" for x in r[1:16]]})
    ctx.coverage["rule"] = ("evaluations = drop orders executed (one child process each); distinct = distinct "
                            "(pattern, variant, order incl. send/drop choice); states = reachable reference-count states "
                            "of all graphs + all-order state graphs")
    ctx.coverage["exhaustive"] = not quick

    # ---- 5. selftest of the binding (thorough)
    if not quick:
        selftest(ctx, by_pat["pubsub6"])


def selftest(ctx, recs):
    # a run that is clean by itself (no leftover at all), so that each corruption is the only flaw
    run0 = next(r for r in vp.split_runs(recs)
                if any(x.get("a") == "final" and x.get("left") == 0 and "masked" not in x for x in r)
                and any(x.get("a") == "use" and x.get("o") == "RS" for x in r))
    muts = []
    m = [dict(r) for r in run0]
    for r in m:
        if r.get("a") == "use" and r.get("o") == "RS":
            r["v"] = 99          # payload of a held sample changed
            break
    muts.append(("payload-changed", m))
    m = [dict(r) for r in run0]
    for r in m:
        if r.get("a") == "final":
            r["left"] = 1
    muts.append(("leftover", m))
    m = [dict(r) for r in run0]
    m[-1]["status"] = "signal:11"
    muts.append(("child-crashed", m))
    m = [dict(r) for r in run0 if not (r.get("a") == "drop" and r.get("o") == run0[2].get("o"))]
    muts.append(("drop-missing", m))
    d, name = trace_cfg(ctx)
    for nm, m in muts:
        p = ctx.path("selftest", f"{nm}.ndjson")
        vp.write_ndjson(p, m)
        v = vp.tlc_trace(d, name, p, libs=["api"])
        vp.record_tlc(ctx, f"selftest[{nm}]", v.res, count=False)
        if v.accepted:
            raise vp.ToolError(f"selftest: corrupted trace ({nm}) was accepted")
    ctx.coverage["selftest"] = [n for n, _ in muts]


def replay(ctx, path):
    body = json.load(open(path))
    print(json.dumps({k: body.get(k) for k in ("what", "pattern", "variant", "order", "invariant", "bad", "child_status")}, indent=1))
    if not body.get("order"):
        return 0
    try:
        vp.cargo_build(["drv-droporder"])
        trace, summ = execute(ctx, [{"pat": body["pattern"], "var": body["variant"], "order": body["order"]}], "replay")
        d, name = trace_cfg(ctx)
        v = vp.tlc_trace(d, name, trace, libs=["api"])
        print(f"re-executed: child={summ['status']} accepted={v.accepted} invariant={v.invariant}")
        for r in vp.read_ndjson(trace):
            if r.get("a") == "final" or r.get("k") == "end":
                print(json.dumps(r))
        return 0 if v.accepted else 1
    finally:
        cleanup(ctx)
