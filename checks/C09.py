"""C09 - Concurrent index allocation is exclusive, bounded and leak-free."""
import json
import os

import vp

META = {
    "level": "model_checking",
    "engine": "tla-atomics-scheduler",
    "technique": "TLC model checking of an implementation-shaped TLA+ spec of the lock-free free-list (ABA tag, packed "
                 "head word) over a C11 view model with orderings extracted from the running code; schedule "
                 "enumeration of the real index sets / pool allocator validated by TLC against a linearizable "
                 "index-set specification",
    "text": "RuisImpl.tla (RobustUniqueIndexSet: cells + generation counter, acquire / release / lock-if-last, C11Mem, "
            "orderings extracted, atomic-level conformance) is model-checked for Exclusive, HeldIsMarked, LockIsFinal, "
            "LockedIsEmpty, NoAcquireAfterLock, FullOnlyWhenFull, UnlockedOnlyWhenOthers (the observer borrowed_indices() is an "
            "operation of the model; whether lock() rescans after a failed locking CAS is extracted like the orderings). "
            "UisImpl.tla (one action per access of UniqueIndexSet::acquire/release, C11Mem) is model-checked for "
            "Exclusive, InRange, FreeListWellFormed, BorrowedExact, LockIsFinal with the extracted orderings; all "
            "preemption-bounded schedules of small programs on the real UniqueIndexSet, RobustUniqueIndexSet and "
            "PoolAllocator (2..3 threads, capacities 1..3) are executed under the deterministic scheduler and their "
            "call/return histories validated by TLC against IndexSetLin.tla (exclusive, bounded, fail only when full "
            "or locked, lock is final, a lock-if-last release / recovery of the last index locks also when observers "
            "(borrowed_indices, is_locked) overlap it, recover returns exactly the dead owner's indices); atomic-level traces are "
            "validated against UisImpl.tla.",
    "note": "Trusted: TLC, C11Mem simplifications, drop-in atomics, SC replay on x86, preemption bound. The robust set has "
            "its own implementation-shaped model RuisImpl.tla (acquire / release / lock-if-last; recover is covered at API "
            "level only), the pool allocator is covered at API level (it is built on UniqueIndexSet = UisImpl.tla). ABA tag "
            "domain of the model is as large as the number of tag changes of the program (no wrap-around; 2^16 in the code).",
    "design_ref": "DESIGN.md 5 C09",
    "replay": True,
}

LABELS = ["a_ld", "a_cas_s", "a_cas_f", "a_fence", "r_fence", "r_ld", "r_cas_s", "r_cas_f"]
LOCKV = 0xffffff


def unpack(v):
    b = v & 0xffffff
    return ((v >> 40) & 0xffffff, (v >> 24) & 0xffff, 999 if b == LOCKV else b)


def prepare_plain(recs):
    """strip aux accesses, decode the packed head word, extract the ordering table"""
    tab, drift, out = {}, [], []
    cur = {}

    def bind(label, val):
        if tab.setdefault(label, val) != val:
            drift.append(f"{label}: {tab[label]} vs {val}")

    # the head word is the location that is CASed; every other atomic location touched inside an
    # operation (relocatable pointer distance, debug `is_memory_initialized` flag) is auxiliary
    head_offs = {e["off"] for e in recs if e.get("k") == "atom" and e["op"] in ("cas", "cas_weak")}
    for e in recs:
        k = e.get("k")
        if k == "atom" and e["op"] != "fence" and e["off"] not in head_offs:
            out.append({"k": "aux"})
            continue
        if k == "call":
            cur[e["t"]] = e["a"]
        if k == "atom":
            a = cur.get(e["t"])
            op = e["op"]
            p = "a" if a == "acq" else "r"
            if op == "load":
                bind(f"{p}_ld", e["ord"])
            elif op in ("cas", "cas_weak"):
                bind(f"{p}_cas_s", e["ord"])
                bind(f"{p}_cas_f", e["ordf"])
                op = "cas"
            elif op == "fence":
                bind(f"{p}_fence", e["ord"])
            else:
                drift.append(f"unexpected {op} in {a} at {e.get('site')}")
            rh, ra, rb = unpack(e["rd"])
            xh, xa, xb = unpack(e["expected"])
            nh, na, nb = unpack(e["operand"])
            if op == "cas":
                bind(f"inc_{p}", (na - xa) % 65536)
            out.append({"k": "atom", "t": e["t"], "op": op, "ord": e["ord"], "ordf": e["ordf"], "ok": e["ok"],
                        "rdh": rh, "rda": ra, "rdb": rb, "exh": xh, "exa": xa, "exb": xb,
                        "nwh": nh, "nwa": na, "nwb": nb})
            continue
        out.append(e)
    return out, tab, sorted(set(drift))


def tla_prog(prog):
    def op(o):
        return {"acq": "acq", "rel0": "rel", "rell0": "rell"}[o]
    return "<< " + ", ".join("<<" + ", ".join(f'"{op(o)}"' for o in t) + ">>" for t in prog) + " >>"


def gen_module(ctx, name, base, cap, abamod, prog, tab, trace, inc=(1, 1)):
    ordv = ", ".join(f'{l} |-> "{tab.get(l, "SeqCst")}"' for l in LABELS)
    d = ctx.path("mc", name, "x")[:-2]
    with open(os.path.join(d, f"{name}.tla"), "w") as f:
        f.write(f"---- MODULE {name} ----\nEXTENDS {base}\nOrdVal == [{ordv}]\nProgVal == {tla_prog(prog)}\n====\n")
    with open(os.path.join(d, f"{name}.cfg"), "w") as f:
        if trace:
            f.write(f"SPECIFICATION TraceSpec\nCONSTANTS\n Cap = {cap}\n AbaMod = {abamod}\n AbaIncA = {inc[0]}\n AbaIncR = {inc[1]}\n Ord <- OrdVal\n Prog <- ProgVal\n"
                    "CONSTRAINT Progress\nPOSTCONDITION Accepted\nCHECK_DEADLOCK FALSE\n")
        else:
            f.write(f"SPECIFICATION Spec\nCONSTANTS\n Cap = {cap}\n AbaMod = {abamod}\n AbaIncA = {inc[0]}\n AbaIncR = {inc[1]}\n Ord <- OrdVal\n Prog <- ProgVal\n"
                    "INVARIANTS Exclusive InRange FreeListWellFormed BorrowedExact LockIsFinal\nCHECK_DEADLOCK FALSE\n")
    return d


def run_exec(ctx, kind, cap, prog, mode, bound, runs, atoms, tag):
    out = ctx.path("traces", f"{tag}.ndjson")
    args = ["uis", "--kind", kind, "--cap", cap, "--prog", json.dumps(prog), "--mode", mode, "--bound", bound,
            "--runs", runs, "--out", out]
    if atoms:
        args.append("--atoms")
    _, so, _ = vp.run_driver("drv-lockfree", args, timeout=1800, env={"VERIF_SEED": ctx.seed})
    return out, vp.last_json_line(so)


def on_reject(ctx):
    def f(meta, v, run, rel):
        kind, summ = meta if meta else ("?", {})
        end = [r for r in run if r.get("k") == "end"]
        ctx.report(vp.Violation(
            f"{kind}: history of the real index set is not explainable by IndexSetLin "
            f"(record #{rel} of the run: {v.record}; invariant: {v.invariant})",
            replay={"kind": kind, "summary": summ, "run": [r for r in run if r.get("k") not in ("atom", "aux")],
                    "first_unexplained": v.record, "invariant": v.invariant,
                    "schedule": end[0]["sched"] if end else None},
            signature=f"lin:{kind}"))
    return f


def run(ctx):
    vp.cargo_build(["drv-lockfree"])
    q = ctx.quick
    ctx.assumptions += ["C11Mem simplifications (see spec/lib/C11Mem.tla)", "preemption-bounded schedule enumeration",
                        "ABA tag domain of the model = number of tag changes of the program + 1 (no wrap-around; 2^16 in the code)"]
    A, R, RL = "acq", "rel0", "rell0"
    O, IL = "obs", "il"     # observers: borrowed_indices() (on the robust set it WRITES the generation counter), is_locked()
    progs = {
        "plain": [(2, [[A, R, A], [A, RL, A]], 2), (2, [[A, A, R, R], [A, R]], 2), (1, [[A, R, A], [A, R]], 3),
                  (2, [[A, R], [A, R], [A, RL]], 2), (2, [[A, A], [A, A, R, A]], 2)],
        "robust": [(2, [[A, R, A], [A, RL, A]], 2), (2, [[A, A], [A, R], ["rec0"]], 2), (1, [[A, RL], [A, R]], 3),
                   (2, [[A], [A, RL], ["recl0", A]], 2), (2, [[A], ["rec0"], ["rec0", A]], 2),
                   # the release / recovery of the LAST index with lock-if-last, overlapped by observers
                   (1, [[A, RL, A], [O, O]], 2), (1, [[A], ["recl0", A], [O]], 2)],
        "pool": [(2, [[A, R, A], [A, A, R]], 2), (1, [[A, R, A], [A, R]], 3)],
    }
    if not q:
        progs["plain"] += [(3, [[A, A, R, R], [A, RL, A], [A, R]], 2), (2, [[A, R, A, R], [A, R, A, RL]], 3)]
        progs["robust"] += [(3, [[A, A, R], [A, RL, A], [A, R]], 2), (2, [[A, A], [A, RL, A], ["recl0", A]], 3)]
        progs["pool"] += [(3, [[A, A, R], [A, R, A], [A, R]], 2)]
        progs["plain"] += [(1, [[A, RL, A], [O, IL]], 3), (2, [[A, RL, A], [A, R], [O, O]], 2)]
        progs["robust"] += [(1, [[A, RL], [O], [O]], 3), (2, [[A, RL, A], [O, IL, O]], 3), (1, [[A, RL], [A, RL], [O]], 2),
                            (2, [[A, A], [A, RL], ["recl0", A], [O]], 2), (2, [[A, RL, A], [A, R], [O, IL]], 2)]
    limit = 400 if q else 30000
    tab_final, drift_any = {}, False
    observed = {}
    bv = vp.BatchValidator(ctx, "lockfree", "IndexSetLinTrace", on_reject(ctx))
    for kind, lst in progs.items():
        for n, (cap, prog, bound) in enumerate(lst):
            tag = f"{kind}-{n}"
            atoms = kind == "plain" and not any(o in (O, IL) for t in prog for o in t)
            has_obs = any(o in (O, IL) for t in prog for o in t)
            # the observer programs are small (capacity 1-2): enumerate them completely also in the quick tier
            trace, summ = run_exec(ctx, kind, cap, prog, "dfs", bound, max(limit, 1500) if has_obs else limit, atoms, tag)
            ctx.evaluations += summ["executions"]
            recs = vp.read_ndjson(trace)
            for r in recs:
                if r.get("k") == "ret" and r["a"] in (O, IL, "rel", "rec"):
                    key = f"{kind}:{r['a']}:{r['r']}"
                    observed[key] = observed.get(key, 0) + 1
            ctx.distinct += len({tuple(r["sched"]) for r in recs if r.get("k") == "end"})
            if summ["anomalies"]:
                bad = [r for r in recs if r.get("k") == "end" and (r["outcome"] != "completed" or r["panics"])]
                ctx.report(vp.Violation(f"{kind}: execution did not complete normally: {bad[0]}",
                                        replay={"kind": kind, "prog": prog, "end": bad[0]}, signature=f"anomaly:{kind}"))
                continue
            if atoms:
                recs2, tab, drift = prepare_plain(recs)
                api = ctx.path("traces", f"{tag}-api.ndjson")
                vp.write_ndjson(api, [r for r in recs2 if r.get("k") not in ("atom", "aux")])
                bv.add(api, (kind, summ), summ["executions"])
                if drift or (tab_final and tab != tab_final):
                    drift_any = True
                    print(f"DRIFT: plain index set: access structure differs from UisImpl.tla: {drift[:3]}")
                    ctx.note(f"drift: {drift[:4]}")
                else:
                    tab_final = tab
                if not (drift or drift_any) and (not q or n < 2):
                    vp.write_ndjson(trace, recs2)
                    name = f"TR_{n}"
                    d = gen_module(ctx, name, "UisImplTrace", cap, 65536, prog, tab, True,
                                   inc=(tab.get("inc_a", 1), tab.get("inc_r", 1)))
                    v = vp.tlc_trace(d, name, trace, libs=["lockfree"])
                    vp.record_tlc(ctx, f"UisImplTrace[{tag}]", v.res, count=False)
                    if not v.accepted:
                        drift_any = True
                        print(f"DRIFT: atomic-level trace of UniqueIndexSet not explained by UisImpl.tla at {v.pos}: {v.record}")
                        ctx.note(f"atomic-level drift at {v.pos}: {v.record}")
            else:
                bv.add(trace, (kind, summ), summ["executions"])
            if len(ctx.samples) < 4:
                r0 = vp.split_runs(recs)[-1]
                ctx.sample({"kind": kind, "cap": cap, "prog": prog,
                            "history": [f"t{r['t']}:{r['k']}:{r['a']}:{r.get('r', r.get('i'))}:{r.get('v', '')}"
                                        for r in r0 if r.get("k") in ("call", "ret")]})
        # seeded random schedules of a longer program
        cap = 2
        prog = [[A, A, R, A, R, R], [A, R, A, RL if kind != "pool" else R, A], [A, R, A, R]]
        if kind != "pool":
            prog.append([O, IL, O, IL])
        trace, summ = run_exec(ctx, kind, cap, prog, "random", 0, 60 if q else 3000, False, f"{kind}-random")
        ctx.evaluations += summ["executions"]
        bv.add(trace, (kind, summ), summ["executions"])
    bv.run()
    # vacuity of the trace direction: observers overlapped lock-if-last releases / recoveries, both outcomes were seen
    ctx.coverage["api_results_observed"] = observed
    need = ["robust:obs:ok", "robust:rel:locked", "robust:rel:unlocked", "robust:rec:locked", "robust:rec:unlocked"]
    need += [] if q else ["plain:obs:ok", "plain:il:true", "plain:il:false", "robust:il:true", "robust:il:false"]
    missing = [k for k in need if not observed.get(k)]
    if missing and not (ctx.violations or ctx.known_hits):
        raise vp.ToolError(f"vacuous: API results never observed in the recorded histories: {missing}")

    # ---- selftest of the binding (thorough): corrupt one recorded field of an observer history -> must be rejected
    if not q and not ctx.violations:
        run0 = vp.split_runs(vp.read_ndjson(ctx.path("traces", "robust-5.ndjson")))[0]
        for what, pick, field, val in (("count of an observation", lambda r: r.get("k") == "ret" and r["a"] == O, "v", 7),
                                       ("result of the lock-if-last release of the last index",
                                        lambda r: r.get("k") == "ret" and r["a"] == "rel" and r["r"] == "locked", "r", "unlocked")):
            bad, done = [], False
            for r in run0:
                if not done and pick(r):
                    r, done = dict(r, **{field: val}), True
                bad.append(r)
            if not done:
                raise vp.ToolError(f"selftest: no record to corrupt ({what})")
            f = ctx.path("traces", f"selftest-{field}.ndjson")
            vp.write_ndjson(f, bad)
            v = vp.tlc_trace("lockfree", "IndexSetLinTrace", f)
            if v.accepted:
                raise vp.ToolError(f"selftest: a history with a corrupted {what} was accepted by IndexSetLinTrace")
        ctx.note("selftest: corrupted observer count / lock-if-last result are rejected by IndexSetLinTrace")

    # ---- TLC on the implementation-shaped model with the extracted orderings (V2)
    mcs = [(2, [[A, R, A], [A, R, A]]), (2, [[A, A, R, R], [A, RL]]), (1, [[A, R, A], [A, RL]]),
           (2, [[A, A], [A, A, R, A]])]
    if not q:
        mcs += [(2, [[A, R, A, R], [A, R, A, RL]]), (3, [[A, A, R], [A, R, A], [A, RL]]), (2, [[A, R], [A, R], [A, RL, A]])]
    if tab_final:
        for n, (cap, prog) in enumerate(mcs):
            name = f"MC_{n}"
            inc = (min(tab_final.get("inc_a", 1), 3), min(tab_final.get("inc_r", 1), 3))
            # the tag domain of the model must not wrap within one program (the code has 2^16 tags): every operation
            # that succeeds changes the tag once (failed CAS attempts do not)
            abamod = sum(len(t) for t in prog) * max(inc + (1,)) + 1
            d = gen_module(ctx, name, "UisImpl", cap, abamod, prog, tab_final, False, inc=inc)
            res = vp.tlc(d, name, workers=8, timeout=900 if q else 2400, libs=["lockfree"])
            vp.record_tlc(ctx, f"UisImpl[cap={cap} prog={prog} ord=extracted]", res)
            if res.timed_out:
                raise vp.ToolError(f"TLC timed out on {name}")
            if res.violated:
                ctx.report(vp.Violation(
                    f"TLC refutes {res.violated} for UniqueIndexSet with the orderings used by the code {tab_final}",
                    replay={"invariant": res.violated, "orderings_and_tag_increments": tab_final, "cap": cap, "prog": prog,
                            "counterexample": [h for h, _ in res.cex]},
                    signature=f"c11:uis:{res.violated}"))
                break
            if not res.ok:
                raise vp.ToolError(f"TLC failed on {name}: {res.error}\n{res.output[-3000:]}")
            vp.check_action_coverage(res, ["ALoad", "ACas", "AWriteNext", "RWriteNext", "RCas", "AFence"], name)
        if not q:
            d = gen_module(ctx, "MF_aba", "UisImpl", 2, 4, [[A, R], [A, A, R, R]], tab_final, False, inc=(0, 0))
            res = vp.tlc(d, "MF_aba", workers=8, timeout=600, libs=["lockfree"])
            vp.record_tlc(ctx, "must-fail AbaMod=1", res, count=False)
            if not res.violated:
                raise vp.ToolError("must-fail instance AbaMod=1 was not refuted: model is vacuous")
    else:
        ctx.note("no ordering table extracted: weak-memory argument not applicable to this build")
    # ---- the crash-robust set: implementation-shaped model with extracted orderings (checks/ruis_impl.py)
    import importlib.util
    spec = importlib.util.spec_from_file_location("ruis_impl", os.path.join(vp.VERIF, "checks", "ruis_impl.py"))
    mod = importlib.util.module_from_spec(spec)
    spec.loader.exec_module(mod)
    mod.run_impl(ctx)
    ctx.coverage["orderings_extracted"] = tab_final
    ctx.coverage["rule"] = ("executions = schedules of small acquire/release/recover programs on the real index sets and "
                            "pool allocator; distinct = distinct schedules; states = TLC on UisImpl with extracted orderings")


def replay(ctx, path):
    body = json.load(open(path))
    print(json.dumps({k: body.get(k) for k in ("what", "kind", "schedule", "invariant", "first_unexplained")}, indent=1))
    s = body.get("summary")
    if s and body.get("schedule"):
        vp.cargo_build(["drv-lockfree"])
        _, so, _ = vp.run_driver("drv-lockfree", ["uis", "--kind", body["kind"], "--cap", s["cap"], "--prog",
                                                 json.dumps(s["prog"]), "--mode", "replay", "--sched",
                                                 ",".join(map(str, body["schedule"])), "--out", "/dev/stdout"])
        print(so)
    return 0
