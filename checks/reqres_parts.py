"""Shared machinery of the request-response checks: C11 (checks/C11.py) and the request-response parts of
C08 and C02 (`c08_reqres(ctx)`, `c02_reqres(ctx)`, to be called from checks/C08.py / checks/C02.py).

Everything here follows the round trip of DESIGN.md 2.2 on spec/api/ReqRes.tla:
  parameters (chunk counts) read from the running code  ->  TLC model checking of the instantiated model
  TLC generated programs (simulation, trap-invariant witnesses)  ->  drv-reqres executes them on the real API
  recorded traces (plus traces of the driver's own seeded generator)  ->  ReqResTrace.tla validates them.
Only TLC decides: a VIOLATION is a trace the property layer cannot explain / an invariant violated on an
explained trace / a model refuted with the parameters of the current code and reproduced on the real code.
"""
import concurrent.futures as cf
import hashlib
import json
import os
import re
import threading

import vp

DRV = "drv-reqres"

PROPERTY_INVS = ["TypeOK", "EachServerGetsRequestOnce", "RequestConservation", "Routing", "OrderAtMostOnce",
                 "CloseObserved", "Limits"]
CHUNK_INVS = ["RefExact", "LoanFromFree", "NoLeak", "SingleHolder"]
MODULO_KNOWN = ["ChunksSufficeReqModuloKnown", "ChunksSufficeRespModuloKnown"]

# Signatures of the genuine defects of /repo found with this machinery (listed in /verif/known_findings.json
# per property: C11 misroute-dead-client-slot-reuse, stale-responses-block-buffer; C08/C02 resp-oom-stale-responses,
# req-oom-undelivered-pending; C08 loan-counter-not-restored is FIXED in /repo and therefore a violation again
# if it comes back). The shapes are defined in spec/api/ReqRes.tla (ReqOomKnown, RespOomKnown, LeakWouldRefuse,
# "stale entries block the buffer") so that an OutOfMemory / a loss / a misroute by any other mechanism stays
# unexplained.
KD_SIGNATURE = {
    "stale-responses-block-buffer": "reqres:stale-responses-block-buffer",
    "resp-oom-stale-responses": "reqres:resp-oom-stale-responses",
    "loan-counter-not-restored": "reqres:loan-counter-not-restored",
    "req-oom-undelivered-pending": "reqres:req-oom-undelivered-pending",
}
# which known-defect tags concern which property
KD_OF = {
    "C11": {"stale-responses-block-buffer"},
    "C08": {"resp-oom-stale-responses", "loan-counter-not-restored", "req-oom-undelivered-pending"},
    "C02": {"resp-oom-stale-responses", "req-oom-undelivered-pending"},
}

_lock = threading.Lock()


def report(ctx, v):
    ctx.report(v)


def B(b):
    return "TRUE" if b else "FALSE"


# ------------------------------------------------------------------------------------------------
# configurations

def cfg(svc, nc, ns, ma, ml, rb, mb, mlr, oq, op, ff, msv, mcl):
    return dict(svc=svc, nc=nc, ns=ns, ma=ma, ml=ml, rb=rb, mb=mb, mlr=mlr, oq=oq, op=op, ff=ff, msv=msv, mcl=mcl)


def key(c):
    return "{svc}-c{nc}s{ns}-a{ma}l{ml}b{rb}w{mb}r{mlr}-{o1}{o2}{f}-v{msv}k{mcl}".format(
        o1="Q" if c["oq"] else "q", o2="P" if c["op"] else "p", f="F" if c["ff"] else "f", **c) \
        + (f"-x{c['xb']}" if c.get("xb") else "")


EXEC_CONFIGS_QUICK = [
    cfg("ipc", 3, 2, 1, 1, 2, 1, 1, False, False, False, 1, 2),
    cfg("local", 2, 2, 2, 1, 1, 1, 1, True, True, True, 2, 2),
    cfg("ipc", 2, 3, 1, 2, 1, 2, 2, False, True, True, 2, 1),
    cfg("local", 3, 2, 2, 1, 2, 1, 1, True, False, False, 1, 2),
]
EXEC_CONFIGS_THOROUGH = EXEC_CONFIGS_QUICK + [
    cfg("ipc", 2, 2, 2, 2, 2, 2, 2, True, True, False, 2, 2),
    cfg("local", 3, 3, 1, 1, 1, 1, 1, False, False, True, 2, 2),
    cfg("ipc", 2, 2, 3, 1, 2, 2, 1, False, False, False, 1, 1),
    cfg("local", 2, 2, 1, 3, 3, 1, 2, True, False, True, 1, 2),
]


def extract_params(ctx, cfgs):
    """DESIGN.md 3.3: number of chunks of a client / server data segment as published by the RUNNING code
    (dynamic config: ClientDetails.number_of_requests / ServerDetails.number_of_responses)."""
    with _lock:
        extract_params.n = getattr(extract_params, "n", 0) + 1
        p = ctx.path("params", f"cfgs{extract_params.n}.ndjson")
    vp.write_ndjson(p, cfgs)
    _, so, _ = vp.run_driver(DRV, ["params", "--cfgs", p, "--work", ctx.path("drv", "x")[:-2], "--out",
                                   p + ".out"], timeout=300)
    out = vp.last_json_line(so)["params"]
    if len(out) != len(cfgs):
        raise vp.ToolError("parameter extraction returned a different number of configurations")
    for c, o in zip(cfgs, out):
        c["nreq"], c["nresp"] = o["nreq"], o["nresp"]
        if c["nreq"] < 1 or c["nresp"] < 1:
            raise vp.ToolError(f"parameter extraction failed for {key(c)}: {o}")
    return cfgs


def tla_constants(c, MaxN, MaxJ, PoolFifo, MinChunk, AllowKnown, Filter=True, AvoidDeadReuse=False, nc=None, ns=None,
                  TrackIds=True):
    return (f" NC = {nc or c['nc']}\n NS = {ns or c['ns']}\n MA = {c['ma']}\n ML = {c['ml']}\n RB = {c['rb']}\n"
            f" MB = {c['mb']}\n MLR = {c['mlr']}\n OQ = {B(c['oq'])}\n OP = {B(c['op'])}\n FF = {B(c['ff'])}\n"
            f" MSV = {c['msv']}\n MCL = {c['mcl']}\n NREQ = {c['nreq']}\n NRESP = {c['nresp']}\n"
            f" MaxN = {MaxN}\n MaxJ = {MaxJ}\n PoolFifo = {B(PoolFifo)}\n MinChunk = {B(MinChunk)}\n"
            f" AllowKnown = {B(AllowKnown)}\n Filter = {B(Filter)}\n AvoidDeadReuse = {B(AvoidDeadReuse)}\n"
            f" TrackIds = {B(TrackIds)}\n")


def write_module(d, name, extends, body, cfg_text):
    os.makedirs(d, exist_ok=True)
    with open(os.path.join(d, name + ".tla"), "w") as f:
        f.write(f"---- MODULE {name} ----\nEXTENDS {extends}\n{body}\n====\n")
    with open(os.path.join(d, name + ".cfg"), "w") as f:
        f.write(cfg_text)


# ------------------------------------------------------------------------------------------------
# model checking instances

def mc_instance(ctx, name, c, nc, ns, MaxN, MaxJ, total, invariants, fifo=False, allow_known=True, filt=True,
                no_death=False, props=True, track_ids=False, static_ports=False, no_hints=False, copy_only=False):
    """Writes MC_<name> (EXTENDS ReqRes) into the work directory.
    total: bound on the number of requests of all clients together; no_death: ports are never dropped;
    static_ports: every port instance is created before the first request; no_hints: disconnect hints unused."""
    d = ctx.path("mc", name, "x")[:-2]
    sumn = " + ".join(f"nextn[{i}]" for i in range(1, nc + 1))
    body = f"Bound == /\\ {sumn} <= {total}\n"
    if no_death:
        body += "         /\\ \\A c \\in Clients : cst[c] # \"dead\"\n         /\\ \\A s \\in Servers : sst[s] # \"dead\"\n"
    if static_ports:
        body += ("         /\\ ((\\E c \\in Clients : cst[c] = \"none\") \\/ (\\E s \\in Servers : sst[s] = \"none\"))\n"
                 f"              => ({sumn}) = 0\n")
    if no_hints:
        body += "         /\\ \\A s \\in Servers, c \\in Clients, ch \\in Chans : ~rst[s][c][ch].hint\n"
    if copy_only:   # copy API only: no unsent loans; ports are created in index order
        body += ("         /\\ \\A c \\in Clients : loans[c] = {}\n         /\\ \\A s \\in Servers : rloans[s] = {}\n"
                 "         /\\ \\A c \\in Clients : (c > 1 /\\ cst[c] # \"none\") => cst[c - 1] # \"none\"\n"
                 "         /\\ \\A s \\in Servers : (s > 1 /\\ sst[s] # \"none\") => sst[s - 1] # \"none\"\n")
    text = ("SPECIFICATION Spec\nCONSTANTS\n"
            + tla_constants(c, MaxN, MaxJ, fifo, True, allow_known, filt, False, nc, ns, track_ids)
            + "VIEW view\nCONSTRAINT Bound\nCHECK_DEADLOCK FALSE\n"
            + "INVARIANTS " + " ".join(invariants) + "\n"
            + ("PROPERTY RoutingAction\n" if props else ""))
    write_module(d, "MC_" + name, "ReqRes", body, text)
    return d, "MC_" + name


MC_ACTIONS = ["CreateClient", "CreateServer", "SendCopy", "LoanRequest", "SendRequest", "ReceiveRequest",
              "SendCopyResponse", "LoanResponse", "SendResponse", "ReceiveResponse", "DropPending", "DropActive",
              "DropStale", "SkipClosed", "DropResponse"]


_re_progress = re.compile(r"Progress\(\d+\) at [^:]+:[^:]+:[^:]+: ([\d,]+) states generated[^,]*, ([\d,]+) distinct states found")


def run_mc(ctx, d, module, what, timeout, workers=4, must_hold=True, count=True, coverage=MC_ACTIONS, best_effort=False):
    res = vp.tlc(d, module, workers=workers, timeout=timeout, libs=["api"])
    if res.timed_out and best_effort:
        # bounded-time exploration of a large instance: the states explored so far satisfied every invariant
        m = None
        for m in _re_progress.finditer(res.output):
            pass
        if m:
            res.generated, res.distinct = int(m.group(1).replace(",", "")), int(m.group(2).replace(",", ""))
        with _lock:
            vp.record_tlc(ctx, what + " (time-bounded, incomplete)", res, count=res.violated is None)
            ctx.note(f"{what}: exploration stopped by the time limit after {res.distinct} distinct states "
                     f"(no invariant violated so far)")
        return res
    with _lock:
        vp.record_tlc(ctx, what, res, count=count and res.violated is None)
    if res.timed_out:
        raise vp.ToolError(f"TLC timed out: {what}")
    if must_hold:
        if res.violated:
            return res
        vp.tlc_require_ok(res, what)
        if coverage:
            vp.check_action_coverage(res, coverage, what)
    return res


def cex_steps(res):
    """Action labels of a TLC counterexample."""
    out = []
    for hdr, _lines in res.cex:
        m = re.match(r"(\w+)(\([^)]*\))? line", hdr)
        out.append(m.group(1) + (m.group(2) or "") if m else hdr)
    return out


# ------------------------------------------------------------------------------------------------
# generation direction

def gen_instance(ctx, name, c, nc, ns, MaxN, MaxJ, length, lean, mode, avoid=True, wmax=2, fifo=True, minimal=False,
                 track_ids=False, death=False):
    """mode: "witness" (trap invariants Traps), "death" (DeathTraps: expired connections; the lean call set then also
    drops servers), "simulate" (random behaviours) or the name of an invariant to refute"""
    d = ctx.path("gen", name, "x")[:-2]
    text = ("INIT GenInit\nNEXT GenNext\nCONSTANTS\n"
            + tla_constants(c, MaxN, MaxJ, fifo, True, True, True, avoid, nc, ns, track_ids)
            + f" GenLen = {length}\n GenLean = {B(lean)}\n GenMinimal = {B(minimal)}\n WitnessMax = {wmax}\n"
            + f" GenDeath = {B(death or mode == 'death')}\n"
            + "CHECK_DEADLOCK FALSE\n"
            + ("VIEW gview\nINVARIANT Traps\n" if mode == "witness"
               else "VIEW gview\nINVARIANT DeathTraps\n" if mode == "death"
               else "INVARIANT Behaviour\n" if mode == "simulate" else f"VIEW gview\nINVARIANT {mode}\n"))
    write_module(d, "G_" + name, "ReqResGen", "", text)
    return d, "G_" + name


_re_wit = re.compile(r'<<"WITNESS", "([a-z-]+)", "(.*)">>')
_re_beh = re.compile(r'<<"BEHAVIOUR", "(.*)">>')


def _unescape(s):
    """TLC prints a string value with \\" and \\\\ escapes"""
    return s.encode().decode("unicode_escape")


def S(a, c=0, s=0, n=0, j=0, sel=0):
    """one program step; sel = 1 / 2: the first / last object of the kind the action needs that the acting port owns
    (instead of naming it by n / j)"""
    return {"a": a, "c": c, "s": s, "n": n, "j": j, "h": 0, "sel": sel}


def witness_tail(tag, info):
    s, c, na, nb = info.get("s", 0), info.get("c", 0), info.get("na", 0), info.get("nb", 0)
    if tag == "reuse-late-sender":
        return [S("IsConnectedA", c, s, na), S("SendCopyResponse", c, s, na), S("HasResponse", c, 0, nb),
                S("ReceiveResponse", c, 0, nb), S("IsConnectedP", c, 0, nb), S("SendCopyResponse", c, s, na),
                S("DropActive", c, s, na), S("IsConnectedP", c, 0, nb), S("ReceiveRequest", 0, s),
                S("IsConnectedA", c, s, nb), S("SendCopyResponse", c, s, nb), S("ReceiveResponse", c, 0, nb),
                S("ReceiveResponse", c, 0, nb), S("DropPending", c, 0, nb), S("IsConnectedA", c, s, nb),
                S("DropActive", c, s, nb)]
    if tag == "hint-stale-active":
        # the stale active request of A is dropped (with and without a late response): B's stream, which carries the
        # disconnect hint, must stay connected on both sides until B's own ends are dropped
        return [S("IsConnectedA", c, s, na), S("HasDisconnectHint", c, s, na), S("ReceiveRequest", 0, s),
                S("HasDisconnectHint", c, s, nb), S("SendCopyResponse", c, s, na), S("DropActive", c, s, na),
                S("IsConnectedP", c, 0, nb), S("IsConnectedA", c, s, nb), S("HasDisconnectHint", c, s, nb),
                S("SendCopyResponse", c, s, nb), S("ReceiveResponse", c, 0, nb), S("ReceiveResponse", c, 0, nb),
                S("DropActive", c, s, nb), S("IsConnectedP", c, 0, nb), S("ReceiveResponse", c, 0, nb),
                S("DropPending", c, 0, nb)]
    if tag == "hint-stale-queued":
        # the server receives: A is discarded (or handed out, fire and forget), B must come out connected
        return [S("IsConnectedP", c, 0, nb), S("HasRequests", 0, s), S("ReceiveRequest", 0, s), S("ReceiveRequest", 0, s),
                S("DropActive", c, s, na), S("IsConnectedP", c, 0, nb), S("IsConnectedA", c, s, nb),
                S("HasDisconnectHint", c, s, nb), S("SendCopyResponse", c, s, nb), S("ReceiveResponse", c, 0, nb),
                S("DropActive", c, s, nb), S("IsConnectedP", c, 0, nb), S("ReceiveResponse", c, 0, nb),
                S("DropPending", c, 0, nb)]
    if tag in ("expired-data-low", "expired-data-high"):
        # poll the pending response that has nothing to deliver (twice: the client notices that the server is gone and
        # looks at the expired connection), then the undelivered response must still arrive and the borrowed one must
        # still be intact (the canary of every held object is re-read after every step)
        np_ = info.get("np", 0)
        return [S("ReceiveResponse", c, 0, np_), S("ReceiveResponse", c, 0, np_), S("IsConnectedP", c, 0, np_),
                S("HasResponse", c, 0, na), S("ReceiveResponse", c, 0, na), S("ReceiveResponse", c, 0, na),
                S("ReceiveResponse", c, 0, nb), S("DropResponse", c, s, nb, 1), S("DropResponse", c, s, na, 1),
                S("ReceiveResponse", c, 0, np_), S("DropPending", c, 0, na), S("DropPending", c, 0, nb),
                S("DropPending", c, 0, np_), S("UpdateClient", c)]
    if tag == "reuse-queued-stale":
        return [S("HasResponse", c, 0, nb), S("ReceiveResponse", c, 0, nb), S("ReceiveResponse", c, 0, nb),
                S("ReceiveResponse", c, 0, nb), S("IsConnectedP", c, 0, nb), S("DropPending", c, 0, nb)]
    if tag == "client-saturated":
        np_, nl = info.get("np", 0), info.get("nl", 0)
        return [S("LoanRequest", c), S("SendCopy", c), S("ProbeRequestLoans", c), S("ReceiveResponse", c, 0, np_),
                S("SendRequest", c, 0, nl), S("LoanRequest", c), S("DropPending", c, 0, np_), S("SendCopy", c),
                S("ProbeRequestLoans", c)]
    if tag == "server-saturated":
        return [S("ReceiveRequest", 0, s), S("HasRequests", 0, s), S("SendCopy", c), S("LoanRequest", c),
                S("ProbeResponseLoans", c, s, na), S("LoanResponse", c, s, na), S("DropActive", c, s, na),
                S("ReceiveRequest", 0, s), S("ReceiveRequest", 0, s)]
    return []


def run_gen(ctx, d, module, what, timeout, simulate=None, workers=4):
    extra = ["-depth", "400", "-seed", str(ctx.seed)] if simulate else None
    res = vp.tlc(d, module, workers=workers, timeout=timeout, libs=["api"], coverage=False, simulate=simulate,
                 extra=extra)
    with _lock:
        vp.record_tlc(ctx, what, res, count=False)
    if res.error and "Parsing" in res.error:
        raise vp.ToolError(f"TLC failed on {what}: {res.output[-3000:]}")
    wit, beh = [], []
    for m in _re_wit.finditer(res.output):
        wit.append((m.group(1), json.loads(_unescape(m.group(2)))))
    for m in _re_beh.finditer(res.output):
        beh.append(json.loads(_unescape(m.group(1))))
    if res.timed_out and not simulate:
        if not wit or module.count("Formula"):
            raise vp.ToolError(f"TLC timed out: {what}")
        # breadth-first witness search stopped by the time limit: the witnesses found so far are used
        with _lock:
            ctx.note(f"{what}: witness search stopped by the time limit with {len(wit)} witnesses")
    return res, wit, beh


# ------------------------------------------------------------------------------------------------
# execution on the real code

def prog_hash(steps):
    return hashlib.sha1(json.dumps(steps, sort_keys=True).encode()).hexdigest()


def driver_cfg(c):
    d = {k: c[k] for k in ("svc", "nc", "ns", "ma", "ml", "rb", "mb", "mlr", "oq", "op", "ff", "msv", "mcl")}
    if c.get("xb"):
        d["xb"] = c["xb"]      # expired connection buffer of the node configuration (default 128)
    return d


def exec_programs(ctx, c, programs, tag):
    """programs: list of step lists; returns (trace path, driver summary)."""
    pf = ctx.path("progs", f"{tag}.ndjson")
    vp.write_ndjson(pf, [{"cfg": driver_cfg(c), "steps": p} for p in programs])
    out = ctx.path("traces", f"{tag}.ndjson")
    _, so, _ = vp.run_driver(DRV, ["exec", "--progs", pf, "--work", ctx.path("drv", "x")[:-2], "--out", out],
                             timeout=900)
    return out, vp.last_json_line(so)


def gen_random(ctx, c, runs, length, tag, stream=0, probes=True, churn=2, api=0):
    cf_ = ctx.path("progs", f"{tag}.cfg.ndjson")
    vp.write_ndjson(cf_, [driver_cfg(c)])
    out = ctx.path("traces", f"{tag}.ndjson")
    args = ["gen", "--cfgs", cf_, "--runs", runs, "--len", length, "--work", ctx.path("drv", "x")[:-2], "--out", out,
            "--progs-out", ctx.path("progs", f"{tag}.ndjson"), "--avoid-dead-client-send", "--churn", churn,
            "--api", api, "--stream", stream]
    if probes:
        args.append("--probes")
    _, so, _ = vp.run_driver(DRV, args, timeout=900, env={"VERIF_SEED": ctx.seed})
    return out, vp.last_json_line(so)


# ------------------------------------------------------------------------------------------------
# scripted program families (parameterised by the configuration and the chunk count read from the code)

def reuse_programs(c):
    """Channel-id reuse while a request / active request of the EARLIER owner of the channel is still around, with and
    without the disconnect hint on the new owner.  One client (slot 1), one server (slot 1).
    A = request 1; dropping its pending response returns channel 0 to the END of the client's FIFO of channel ids; nreq-1
    loan+drop pairs rotate the FIFO so that request B (= number nreq+1) gets channel 0 again."""
    nreq = c["nreq"]
    nb = nreq + 1
    progs = []
    rotate = []
    for k in range(2, nreq + 1):
        rotate += [S("LoanRequest", 1), S("DropRequest", 1, 0, k)]
    observe_b = [S("IsConnectedP", 1, 0, nb), S("ReceiveRequest", 0, 1), S("IsConnectedA", 1, 1, nb),
                 S("HasDisconnectHint", 1, 1, nb), S("SendCopyResponse", 1, 1, nb), S("ReceiveResponse", 1, 0, nb),
                 S("ReceiveResponse", 1, 0, nb), S("DropActive", 1, 1, nb), S("IsConnectedP", 1, 0, nb),
                 S("ReceiveResponse", 1, 0, nb), S("DropPending", 1, 0, nb), S("ReceiveRequest", 0, 1)]
    for a_received in (True, False):
        for hint in (True, False):
            for b_received_first in ((True, False) if a_received else (False,)):
                for late_response in ((True, False) if a_received else (False,)):
                    p = [S("CreateServer", 0, 1), S("CreateClient", 1), S("SendCopy", 1)]
                    if a_received:
                        p += [S("ReceiveRequest", 0, 1), S("IsConnectedA", 1, 1, 1)]
                    p += [S("DropPending", 1, 0, 1)] + rotate + [S("SendCopy", 1), S("IsConnectedP", 1, 0, nb)]
                    if b_received_first:
                        p += [S("ReceiveRequest", 0, 1), S("IsConnectedA", 1, 1, nb)]
                    if hint:
                        p += [S("DisconnectHint", 1, 0, nb), S("IsConnectedP", 1, 0, nb)]
                        if b_received_first:
                            p += [S("HasDisconnectHint", 1, 1, nb)]
                    if a_received:
                        p += [S("IsConnectedA", 1, 1, 1), S("HasDisconnectHint", 1, 1, 1)]
                        if late_response:
                            p += [S("SendCopyResponse", 1, 1, 1)]
                        p += [S("DropActive", 1, 1, 1)]
                    else:
                        # the server looks into its buffer: A is discarded (or handed out: fire and forget)
                        p += [S("HasRequests", 0, 1), S("ReceiveRequest", 0, 1), S("DropActive", 1, 1, 1)]
                    progs.append(p + observe_b)
    return progs


def expired_programs(c):
    """Ports dropped while the other side still has undelivered data on one channel and borrowed chunks on another
    one: the connection (and the mapped data segment) has to stay until everything is delivered / released.
    One client, one server; k = min(max_active_requests, 3) requests are pending at once, every role assignment
    (d: answered, not received; b: answered, received and held; p: polled) is tried."""
    import itertools
    k = min(c["ma"], 3)
    progs = []
    if k < 2:
        return progs
    base = [S("CreateServer", 0, 1), S("CreateClient", 1)] + [S("SendCopy", 1)] * k + [S("ReceiveRequest", 0, 1)] * k
    reqs = list(range(1, k + 1))
    for d, b in itertools.permutations(reqs, 2):
        for p_ in ([b] if c["mb"] >= 2 else []) + [x for x in reqs if x not in (d, b)]:
            for client_updates_first in (False, True):
                p = list(base)
                p += [S("SendCopyResponse", 1, 1, d), S("SendCopyResponse", 1, 1, b), S("ReceiveResponse", 1, 0, b)]
                p += [S("DropActive", 1, 1, n) for n in reqs] + [S("DropServer", 0, 1)]
                if client_updates_first:
                    p += [S("UpdateClient", 1)]
                p += [S("ReceiveResponse", 1, 0, p_), S("ReceiveResponse", 1, 0, p_), S("IsConnectedP", 1, 0, p_),
                      S("HasResponse", 1, 0, d), S("ReceiveResponse", 1, 0, d), S("ReceiveResponse", 1, 0, d),
                      S("ReceiveResponse", 1, 0, b), S("DropResponse", 1, 1, b, 1), S("ReceiveResponse", 1, 0, p_),
                      S("DropResponse", 1, 1, d, 1), S("UpdateClient", 1)]
                p += [S("DropPending", 1, 0, n) for n in reqs]
                progs.append(p)
    # borrows only: nothing undelivered, the connection is kept for the held response alone
    for b in reqs:
        for client_updates_first in (False, True):
            p = list(base) + [S("SendCopyResponse", 1, 1, b), S("ReceiveResponse", 1, 0, b)]
            p += [S("DropActive", 1, 1, n) for n in reqs] + [S("DropServer", 0, 1)]
            if client_updates_first:
                p += [S("UpdateClient", 1)]
            p += [S("ReceiveResponse", 1, 0, n) for n in reqs] + [S("ReceiveResponse", 1, 0, b), S("IsConnectedP", 1, 0, b),
                                                                 S("DropResponse", 1, 1, b, 1), S("UpdateClient", 1)]
            p += [S("DropPending", 1, 0, n) for n in reqs]
            progs.append(p)
    # mirrored: the client goes away while the server holds active requests (request payloads) and has a request queued
    for keep_queued in (True, False):
        p = [S("CreateServer", 0, 1), S("CreateClient", 1)] + [S("SendCopy", 1)] * k
        p += [S("ReceiveRequest", 0, 1)] * (k - 1 if keep_queued else k)
        p += [S("DropPending", 1, 0, n) for n in reqs] + [S("DropClient", 1), S("UpdateServer", 0, 1)]
        p += [S("IsConnectedA", 1, 1, n) for n in reqs] + [S("HasRequests", 0, 1), S("ReceiveRequest", 0, 1)]
        p += [S("DropActive", 1, 1, n) for n in reqs] + [S("ReceiveRequest", 0, 1), S("UpdateServer", 0, 1)]
        progs.append(p)
    return progs


def expired_overflow_programs(c):
    """More dead servers with undelivered responses than the client's expired-connection buffer has entries (c["xb"],
    here 1; three servers).  Only server 1 has a response that the client still HOLDS (plus an undelivered one on a
    lower channel): its connection must survive whatever the order in which the servers disappear; the undelivered
    responses of the borrow-free connections may be lost (the property layer lets the client let go of such a
    connection at any time)."""
    import itertools
    if c["ns"] < 3 or c["msv"] < 3 or c["ma"] < 2 or c["mb"] < 2:
        return []
    progs = []
    base = [S("CreateServer", 0, 1), S("CreateServer", 0, 2), S("CreateServer", 0, 3), S("CreateClient", 1),
            S("SendCopy", 1), S("SendCopy", 1)]
    for s in (1, 2, 3):
        base += [S("ReceiveRequest", 0, s), S("ReceiveRequest", 0, s)]
    base += [S("SendCopyResponse", 1, 1, 1), S("SendCopyResponse", 1, 1, 2), S("SendCopyResponse", 1, 2, 1),
             S("SendCopyResponse", 1, 3, 1), S("ReceiveResponse", 1, 0, 2)]
    base += [S("DropActive", 1, s, n) for s in (1, 2, 3) for n in (1, 2)]
    for order in itertools.permutations((1, 2, 3)):
        for poll_between in (True, False):
            p = list(base)
            for s in order:
                p += [S("DropServer", 0, s)]
                if poll_between:
                    p += [S("ReceiveResponse", 1, 0, 2)]
            p += [S("ReceiveResponse", 1, 0, 2), S("ReceiveResponse", 1, 0, 2), S("IsConnectedP", 1, 0, 2),
                  S("ReceiveResponse", 1, 0, 1), S("ReceiveResponse", 1, 0, 1), S("ReceiveResponse", 1, 0, 1),
                  S("DropResponse", 1, 1, 2, 1), S("DropResponse", 1, 1, 1, 1), S("DropResponse", 1, 2, 1, 1),
                  S("DropResponse", 1, 3, 1, 1), S("ReceiveResponse", 1, 0, 2), S("DropPending", 1, 0, 1),
                  S("DropPending", 1, 0, 2), S("UpdateClient", 1)]
            progs.append(p)
    return progs


# ------------------------------------------------------------------------------------------------
# concurrent executions: one client thread || one server thread under the deterministic scheduler

CONC_BASE = [S("CreateServer", 0, 1), S("CreateClient", 1), S("UpdateServer", 0, 1), S("UpdateClient", 1)]


def conc_prestates(c):
    """name -> sequential prefix"""
    nreq = c["nreq"]
    rotate = []
    for k in range(2, nreq + 1):
        rotate += [S("LoanRequest", 1), S("DropRequest", 1, 0, k)]
    pre = {
        "fresh": [],
        "queued": [S("SendCopy", 1)],
        "active": [S("SendCopy", 1), S("ReceiveRequest", 0, 1)],
        "answered": [S("SendCopy", 1), S("ReceiveRequest", 0, 1), S("SendCopyResponse", 1, 1, 1)],
        "stale-queued": [S("SendCopy", 1), S("DropPending", 1, 0, 1)],
        "stale-active": [S("SendCopy", 1), S("ReceiveRequest", 0, 1), S("DropPending", 1, 0, 1)],
        # the next request reuses the channel of request 1, whose active request / queue entry is still around
        "reuse-active": [S("SendCopy", 1), S("ReceiveRequest", 0, 1), S("SendCopyResponse", 1, 1, 1),
                         S("DropPending", 1, 0, 1)] + rotate,
        "reuse-queued": [S("SendCopy", 1), S("DropPending", 1, 0, 1)] + rotate,
    }
    if c["ma"] >= 2:
        pre["two-active"] = [S("SendCopy", 1), S("SendCopy", 1), S("ReceiveRequest", 0, 1), S("ReceiveRequest", 0, 1),
                             S("SendCopyResponse", 1, 1, 2)]
    return {k: CONC_BASE + v for k, v in pre.items()}


# thread programs; objects are chosen by selectors (1: oldest, 2: newest object of the port)
CONC_CLIENT = {
    "send": [S("SendCopy", 1)],
    "loan-send": [S("LoanRequest", 1), S("SendRequest", 1, sel=2)],
    "send-drop": [S("SendCopy", 1), S("DropPending", 1, sel=2)],
    "send-hint": [S("SendCopy", 1), S("DisconnectHint", 1, sel=2), S("IsConnectedP", 1, sel=2)],
    "drop": [S("DropPending", 1, sel=1)],
    "drop-send": [S("DropPending", 1, sel=1), S("SendCopy", 1)],
    "recv": [S("ReceiveResponse", 1, sel=1), S("ReceiveResponse", 1, sel=1)],
    "conn-recv": [S("IsConnectedP", 1, sel=1), S("ReceiveResponse", 1, sel=1), S("IsConnectedP", 1, sel=1)],
    "hint": [S("DisconnectHint", 1, sel=1), S("IsConnectedP", 1, sel=1)],
    "has-recv-release": [S("HasResponse", 1, sel=1), S("ReceiveResponse", 1, sel=1), S("DropResponse", 1, sel=1)],
}
CONC_SERVER = {
    "recv": [S("ReceiveRequest", 0, 1)],
    "recv-conn": [S("ReceiveRequest", 0, 1), S("IsConnectedA", 0, 1, sel=2)],
    "recv-respond": [S("ReceiveRequest", 0, 1), S("SendCopyResponse", 0, 1, sel=2)],
    "recv-recv": [S("ReceiveRequest", 0, 1), S("ReceiveRequest", 0, 1)],
    "has-recv-drop": [S("HasRequests", 0, 1), S("ReceiveRequest", 0, 1), S("DropActive", 0, 1, sel=2)],
    "drop": [S("DropActive", 0, 1, sel=1)],
    "respond-drop": [S("SendCopyResponse", 0, 1, sel=1), S("DropActive", 0, 1, sel=1)],
    "conn-hint-respond": [S("IsConnectedA", 0, 1, sel=1), S("HasDisconnectHint", 0, 1, sel=1),
                          S("SendCopyResponse", 0, 1, sel=1)],
    "loan-send": [S("LoanResponse", 0, 1, sel=1), S("SendResponse", 0, 1, sel=1)],
}
# the final state is observed by a sequential suffix
CONC_POST = [S("ReceiveRequest", 0, 1), S("ReceiveRequest", 0, 1), S("HasRequests", 0, 1),
             S("IsConnectedA", 0, 1, sel=1), S("IsConnectedA", 0, 1, sel=2), S("HasDisconnectHint", 0, 1, sel=2),
             S("IsConnectedP", 1, sel=1), S("IsConnectedP", 1, sel=2),
             S("SendCopyResponse", 0, 1, sel=1), S("SendCopyResponse", 0, 1, sel=2),
             S("ReceiveResponse", 1, sel=1), S("ReceiveResponse", 1, sel=1), S("ReceiveResponse", 1, sel=2),
             S("DropActive", 0, 1, sel=1), S("IsConnectedP", 1, sel=1), S("IsConnectedP", 1, sel=2),
             S("DropActive", 0, 1, sel=1), S("IsConnectedP", 1, sel=1), S("IsConnectedP", 1, sel=2),
             S("ReceiveResponse", 1, sel=1), S("ReceiveResponse", 1, sel=2), S("DropPending", 1, sel=1),
             S("DropPending", 1, sel=1), S("ReceiveRequest", 0, 1)]

# (pre-state, client thread, server thread) combinations in which the two threads work on the same connection
# state (request queue, channel state, response queue); they are always executed, the rest of the product is sampled
CONC_CORE = [
    ("fresh", "send", "recv"), ("fresh", "send", "recv-conn"), ("fresh", "loan-send", "recv-respond"),
    ("fresh", "send-drop", "recv-conn"), ("fresh", "send-hint", "recv-conn"), ("fresh", "send", "recv-recv"),
    ("queued", "drop", "recv-conn"), ("queued", "drop-send", "recv-recv"), ("queued", "hint", "recv-conn"),
    ("active", "drop", "respond-drop"), ("active", "drop", "conn-hint-respond"), ("active", "recv", "respond-drop"),
    ("active", "hint", "conn-hint-respond"), ("active", "hint", "drop"), ("active", "hint", "respond-drop"),
    ("active", "conn-recv", "drop"), ("active", "drop-send", "drop"),
    ("active", "recv", "loan-send"),
    ("answered", "recv", "respond-drop"), ("answered", "has-recv-release", "respond-drop"), ("answered", "drop", "respond-drop"),
    ("stale-queued", "send", "recv"), ("stale-queued", "send-hint", "has-recv-drop"), ("stale-queued", "send", "recv-recv"),
    ("stale-active", "send", "drop"), ("stale-active", "send-hint", "respond-drop"),
    ("reuse-active", "send", "drop"), ("reuse-active", "send-hint", "drop"), ("reuse-active", "send-hint", "respond-drop"),
    ("reuse-active", "send", "recv-respond"),
    ("reuse-queued", "send", "recv"), ("reuse-queued", "send-hint", "recv-recv"), ("reuse-queued", "send-hint", "has-recv-drop"),
    ("two-active", "recv", "respond-drop"), ("two-active", "drop", "respond-drop"), ("two-active", "conn-recv", "drop"),
]


def conc_programs(c, seed, core=True, sample=0, random_progs=0, dfs_runs=400, bound=1, random_runs=30):
    """Concurrent programs for configuration c (one client, one server):
    the core combinations (depth-first enumeration of the schedules with `bound` preemptions), `sample` further
    combinations of the product pre-state x client thread x server thread chosen by the seed, and `random_progs`
    longer random thread programs run under seeded random schedules."""
    import random
    rnd = random.Random(seed * 7919 + 17)
    pres = conc_prestates(c)
    out = []

    def prog(name, pre, t0, t1, mode, runs, b=bound):
        return {"name": name, "cfg": driver_cfg(c), "pre": pre, "t0": t0, "t1": t1, "post": CONC_POST, "mode": mode,
                "bound": b, "runs": runs, "switch": 30}

    chosen = []
    if core:
        chosen += [x for x in CONC_CORE if x[0] in pres]
    rest = [(p, a, b) for p in sorted(pres) for a in sorted(CONC_CLIENT) for b in sorted(CONC_SERVER)
            if (p, a, b) not in CONC_CORE]
    rnd.shuffle(rest)
    chosen += rest[:sample]
    for (p, a, b) in chosen:
        out.append(prog(f"{p}:{a}||{b}", pres[p], CONC_CLIENT[a], CONC_SERVER[b], "dfs", dfs_runs))
    cl_ops = [S("SendCopy", 1), S("SendCopy", 1), S("LoanRequest", 1), S("SendRequest", 1, sel=2), S("DropPending", 1, sel=1),
              S("DropPending", 1, sel=2), S("ReceiveResponse", 1, sel=1), S("ReceiveResponse", 1, sel=2),
              S("IsConnectedP", 1, sel=1), S("IsConnectedP", 1, sel=2), S("DisconnectHint", 1, sel=2),
              S("HasResponse", 1, sel=1), S("DropResponse", 1, sel=1), S("DropRequest", 1, sel=1)]
    sv_ops = [S("ReceiveRequest", 0, 1), S("ReceiveRequest", 0, 1), S("SendCopyResponse", 0, 1, sel=1),
              S("SendCopyResponse", 0, 1, sel=2), S("DropActive", 0, 1, sel=1), S("DropActive", 0, 1, sel=2),
              S("IsConnectedA", 0, 1, sel=1), S("IsConnectedA", 0, 1, sel=2), S("HasDisconnectHint", 0, 1, sel=2),
              S("HasRequests", 0, 1), S("LoanResponse", 0, 1, sel=2), S("SendResponse", 0, 1, sel=1)]
    names = sorted(pres)
    for i in range(random_progs):
        p = names[rnd.randrange(len(names))]
        t0 = [cl_ops[rnd.randrange(len(cl_ops))] for _ in range(rnd.randint(4, 7))]
        t1 = [sv_ops[rnd.randrange(len(sv_ops))] for _ in range(rnd.randint(4, 7))]
        out.append(prog(f"{p}:random{i}", pres[p], t0, t1, "random", random_runs))
    return out


def exec_conc(ctx, progs, tag, stream=0):
    """Runs concurrent programs (all of ONE configuration); returns (trace path, driver summary)."""
    pf = ctx.path("progs", f"{tag}.ndjson")
    vp.write_ndjson(pf, progs)
    out = ctx.path("traces", f"{tag}.ndjson")
    _, so, _ = vp.run_driver(DRV, ["conc", "--progs", pf, "--work", ctx.path("drv", "x")[:-2], "--out", out, "--stream", stream],
                             timeout=1500, env={"VERIF_SEED": ctx.seed})
    return out, vp.last_json_line(so)


# ------------------------------------------------------------------------------------------------
# validation direction

def trace_instance(ctx, c, name, allow_known=True, invariants=None, conc=False):
    """conc: concurrent executions (call / ret records, spec/api/ReqResConcTrace.tla; chunk identities unbound)"""
    d = ctx.path("tr", name, "x")[:-2]
    invs = invariants if invariants is not None else PROPERTY_INVS + CHUNK_INVS
    text = (f"SPECIFICATION {'ConcSpec' if conc else 'TraceSpec'}\nCONSTANTS\n"
            + tla_constants(c, 1000000, 1000000, False, False, allow_known, TrackIds=not conc)
            + "CONSTRAINT Progress\nPOSTCONDITION Accepted\nCHECK_DEADLOCK FALSE\n"
            + "INVARIANTS " + " ".join(invs) + "\nPROPERTY RoutingAction\n")
    write_module(d, "TR_" + name, "ReqResConcTrace" if conc else "ReqResTrace", "", text)
    return d, "TR_" + name


_re_kd = re.compile(r'<<"KNOWN_DEFECT", (\d+), "([a-z-]+)">>')


class Verdict:
    def __init__(self):
        self.accepted = False
        self.pos = None
        self.record = None
        self.invariant = None
        self.kd = {}          # tag -> set of run numbers
        self.runs = 0
        self.res = None
        self.trace = None
        self.cfg = None


CONC_ACTIONS = ["CallStep", "RetStep", "DoStep"]


def validate(ctx, c, trace, name, allow_known=True, timeout=1500, conc=False, need_actions=None):
    """need_actions: actions of the trace specification that TLC must have taken while explaining the trace (TLC
    action coverage; used for the interval actions of ReqResConcTrace.tla)"""
    d, module = trace_instance(ctx, c, name, allow_known, conc=conc)
    if need_actions:
        v = tlc_trace_cov(d, module, trace, timeout)
    else:
        v = vp.tlc_trace(d, module, trace, libs=["api"], timeout=timeout)
    out = Verdict()
    out.accepted, out.pos, out.record, out.invariant, out.res = v.accepted, v.pos, v.record, v.invariant, v.res
    out.trace, out.cfg = trace, c
    for m in _re_kd.finditer(v.res.output):
        out.kd.setdefault(m.group(2), set()).add(int(m.group(1)))
    with _lock:
        vp.record_tlc(ctx, f"{'ReqResConcTrace' if conc else 'ReqResTrace'}[{os.path.basename(trace)}]", v.res, count=False)
    if need_actions and out.accepted:
        vp.check_action_coverage(v.res, need_actions, f"trace validation {os.path.basename(trace)}")
    return out


def tlc_trace_cov(d, module, trace, timeout):
    """vp.tlc_trace with TLC's action coverage switched on (local variant: vp.tlc_trace has no such parameter)"""
    res = vp.tlc(d, module, workers=1, timeout=timeout, env={"TRACE": trace}, coverage=True, deque=True, heap="4g",
                 libs=["api"])
    v = vp.TraceVerdict()
    v.res = res
    if res.timed_out:
        raise vp.ToolError(f"trace validation timed out: {module} {trace}")
    for line in res.prints:
        m = vp._re_acc.search(line)
        if m:
            v.accepted = True
            v.records = int(m.group(1))
        m = vp._re_rej.search(line)
        if m:
            v.pos = int(m.group(1))
            try:
                v.record = json.loads(m.group(2).encode().decode("unicode_escape"))
            except Exception:
                v.record = m.group(2)
    if res.violated and res.violated != "POSTCONDITION":
        v.accepted = False
        v.invariant = res.violated
    if not v.accepted and v.pos is None and v.invariant is None:
        raise vp.ToolError(f"trace validation gave no verdict ({module}):\n" + res.output[-4000:])
    if v.accepted and (res.error or res.violated):
        v.accepted = False
    return v


def fmt_op(r):
    if r.get("k") not in ("op", "call", "ret"):
        return json.dumps(r, sort_keys=True)
    if r["k"] == "call":
        return f"[thread {r['t']} calls] {r['a']}(c={r['c']},s={r['s']},n={r['n']},j={r['j']})"
    s = f"{r['a']}(c={r['c']},s={r['s']},n={r['n']},j={r['j']})->{r['r']}"
    if r["k"] == "ret":
        s = f"[thread {r['t']} returns] " + s
    if r["ch"] >= 0:
        s += f" ch={r['ch']}"
    if r["x"]:
        s += f" chunk={r['x']}"
    if r["pc"] or r["ps"]:
        s += f" payload=(c{r['pc']},n{r['pn']},s{r['ps']},j{r['pj']})"
    if r["v"]:
        s += f" v={r['v']}"
    if r["bad"]:
        s += f" CORRUPTED={r['bad']}"
    return s


def classify_rejection(run, rel):
    """Signature of a rejected run. The known slot-reuse defect shows as an observation that involves an
    active request / a response of a client port that was dropped earlier in the run."""
    dead = {r["c"] for r in run[:rel] if r.get("k") == "op" and r["a"] == "DropClient" and r["r"] == "ok"}
    bad = run[rel - 1] if 0 < rel <= len(run) else {}
    if bad.get("k") in ("call", "ret"):
        return f"reqres:unexplained-concurrent:{bad['a']}:{bad['r']}"
    if bad.get("k") == "op":
        if bad["a"] == "ReceiveResponse" and bad["r"] == "some" and bad["pc"] in dead and bad["pc"] != bad["c"]:
            return "reqres:misroute-dead-client-slot-reuse"
        if bad["a"] in ("IsConnectedA", "HasDisconnectHint", "SendCopyResponse", "SendResponse", "LoanResponse",
                        "DropActive") and bad["c"] in dead:
            return "reqres:misroute-dead-client-slot-reuse"
        # consequences of such an active request on the client that took the slot
        created_after = False
        for r in run[:rel]:
            if r.get("k") == "op" and r["a"] == "DropClient":
                created_after = False
            if r.get("k") == "op" and r["a"] == "CreateClient" and dead:
                created_after = True
        ar_of_dead = any(r.get("k") == "op" and r["a"] in ("SendCopyResponse", "SendResponse", "DropActive")
                         and r["c"] in dead for r in run[:rel])
        if created_after and ar_of_dead and bad["a"] in ("ReceiveResponse", "IsConnectedP", "HasResponse"):
            return "reqres:misroute-dead-client-slot-reuse"
        return f"reqres:unexplained:{bad['a']}:{bad['r']}"
    return "reqres:unexplained"


def report_verdict(ctx, v, what, kd_filter):
    """Turns a trace verdict into violations / known findings of property ctx.pid."""
    recs = vp.read_ndjson(v.trace)
    runs = [r for r in recs if r.get("k") == "reset"]
    if v.accepted:
        ctx.traces_validated += len(runs)
    else:
        if v.pos:
            run, rel = vp.run_containing(recs, v.pos)
            sig = classify_rejection(run, rel)
            hist = [fmt_op(r) for r in run[1:rel]]
            replay = {"config": driver_cfg(v.cfg), "chunks": {"nreq": v.cfg["nreq"], "nresp": v.cfg["nresp"]},
                      "program": [{k: r[k] for k in ("a", "c", "s", "n", "j", "h")} for r in run[1:rel]
                                  if r.get("k") == "op" and r["a"] != "Skip"],
                      "history": hist, "first_unexplained": v.record, "invariant": v.invariant}
            if run[0].get("conc"):
                # concurrent execution: the program (prefix, two thread programs, suffix) and the schedule of the run
                end = next((r for r in run if r.get("k") == "end"), {})
                pfile = v.trace.replace(os.sep + "traces" + os.sep, os.sep + "progs" + os.sep)
                prog = next((p for p in (read_progs(pfile)) if p.get("name") == run[0].get("prog")), None)
                replay["history"] = [fmt_op(r) for r in run[1:] if r.get("k") != "end"]
                replay["conc_program"] = dict(prog, mode="replay", sched=end.get("sched", "")) if prog else None
                replay["schedule"] = end.get("sched")
                del replay["program"]
            report(ctx, vp.Violation(
                f"{what} [{key(v.cfg)}]: the recorded history is not explainable by "
                f"{'ReqResConcTrace.tla' if run[0].get('conc') else 'ReqRes.tla'}; first unexplained "
                f"event #{rel - 1} of the run: {fmt_op(run[rel - 1])}",
                replay=replay, signature=sig))
            # the runs before the rejected one were explained
            ctx.traces_validated += len([r for r in recs[:v.pos] if r.get("k") == "reset"]) - 1
        else:
            report(ctx, vp.Violation(
                f"{what} [{key(v.cfg)}]: property invariant {v.invariant} violated on a state reached while "
                f"explaining a recorded trace",
                replay={"config": driver_cfg(v.cfg), "invariant": v.invariant, "trace_file": v.trace,
                        "tlc_tail": v.res.output[-2500:]},
                signature=f"reqres:invariant:{v.invariant}"))
    for tag, runset in sorted(v.kd.items()):
        if tag in kd_filter:
            run_no = min(runset)
            run = next((x for x in vp.split_runs(recs) if x and x[0].get("run") == run_no), [])
            report(ctx, vp.Violation(
                f"{what} [{key(v.cfg)}]: the execution is only explainable through the known-defect shape '{tag}' "
                f"({len(runset)} runs)",
                replay={"config": driver_cfg(v.cfg), "tag": tag, "history": [fmt_op(r) for r in run[1:]]},
                signature=KD_SIGNATURE[tag]))
        else:
            ctx.note(f"{what} [{key(v.cfg)}]: runs went through the known-defect shape '{tag}' "
                     f"(reported by the check of the property it belongs to)")


def read_progs(path):
    try:
        return vp.read_ndjson(path)
    except OSError:
        return []


def require_counts(summary, needed, what):
    missing = [k for k in needed if summary["counts"].get(k, 0) == 0]
    if missing:
        raise vp.ToolError(f"vacuous execution ({what}): never observed {missing}")


def parallel(jobs, max_workers=6):
    """jobs: list of (callable, args); returns results in order; exceptions are re-raised."""
    with cf.ThreadPoolExecutor(max_workers=max_workers) as ex:
        futs = [ex.submit(f, *a) for f, a in jobs]
        return [f.result() for f in futs]


def cleanup_shm(ctx):
    """iceoryx2 leaves the per-domain global node management segment behind; the driver removes what it
    created, this is the last resort for killed drivers."""
    pref = re.compile(r"^rr\d+x\d+_")
    try:
        for f in os.listdir("/dev/shm"):
            if pref.match(f):
                try:
                    os.remove(os.path.join("/dev/shm", f))
                except OSError:
                    pass
    except OSError:
        pass


# ------------------------------------------------------------------------------------------------
# the pieces shared by C11 / C08 / C02

def prepared(ctx, quick):
    """build + parameter extraction, cached on the context"""
    st = getattr(ctx, "_reqres", None)
    if st is None:
        vp.cargo_build([DRV])
        cfgs = [dict(c) for c in (EXEC_CONFIGS_QUICK if quick else EXEC_CONFIGS_THOROUGH)]
        extract_params(ctx, cfgs)
        st = {"cfgs": cfgs}
        ctx._reqres = st
        ctx.assumptions += [
            "request-response driver is single threaded: API calls are atomic steps (concurrency of the "
            "underlying queues is the subject of C03/C13)",
            "ports use BackpressureStrategy::DiscardData (the default RetryUntilDelivered blocks a "
            "single-threaded driver when a buffer is full and safe overflow is off)",
            "a port slot stands for one port instance; ports are dropped only after the objects created "
            "from them (the shared state of a port lives as long as those objects)",
            "chunk identity = payload address at the sender; responses sent with the copy API carry no "
            "observable chunk identity (counted, not identified)",
        ]
    return st


def limits_mc_configs(quick):
    """small configurations for the closed chunk formulas (C08): limit values 1..2 (thorough: ..3)"""
    out = [cfg("ipc", 1, 1, 1, 1, 1, 1, 1, False, False, False, 1, 1),
           cfg("ipc", 1, 1, 1, 2, 2, 1, 1, True, True, False, 1, 1)]
    if not quick:
        out += [cfg("ipc", 1, 1, 2, 1, 1, 1, 1, False, False, True, 1, 1),
                cfg("ipc", 1, 1, 1, 3, 2, 1, 1, False, False, False, 1, 1),
                cfg("ipc", 1, 1, 1, 1, 1, 2, 2, True, False, False, 1, 1)]
    return out


def _limits_and_chunks(ctx, quick, want):
    """Limit layer (C08) / chunk layer (C02) of the request-response pattern.
    want: "C08" or "C02" selects the invariants and the known-defect tags that are reported."""
    st = prepared(ctx, quick)
    kd_filter = KD_OF[want]
    # ---- 1. TLC on the model instantiated with the chunk counts of the running code ------------------
    mcs = limits_mc_configs(quick)
    extract_params(ctx, mcs)
    invs = (["Limits", "NoLeak"] + MODULO_KNOWN) if want == "C08" else (CHUNK_INVS + MODULO_KNOWN)
    jobs = []
    for i, c in enumerate(mcs):
        n = 3 if quick else 4
        d, m = mc_instance(ctx, f"{want}_lim{i}", c, 1, 1, n, 1 if quick else 2, n, invs, fifo=True, no_death=True,
                           props=False, static_ports=True, no_hints=True, track_ids=(want == "C02"))
        jobs.append((run_mc, (ctx, d, m, f"ReqRes[{want} {key(c)} nreq={c['nreq']} nresp={c['nresp']}]",
                              900 if quick else 1500, 4, True, True, ["SendCopy", "ReceiveRequest", "SendCopyResponse"])))
        # the plain closed formulas: a refutation is a counterexample to "no OutOfMemory inside the limits";
        # searched with the minimal API (copy API, the client never looks at the responses)
        for f in ("FormulaReq", "FormulaResp"):
            mn = c["nreq"] + 1 if f == "FormulaReq" else c["nreq"] + 2
            d2, m2 = gen_instance(ctx, f"{want}_{f}{i}", c, 1, 1, mn, c["rb"], 80, True, f, minimal=True, wmax=0)
            jobs.append((run_gen, (ctx, d2, m2, f"ReqResGen[{want} {f} {key(c)}]", 900 if quick else 1500, None, 4)))
    results = parallel(jobs, 6)
    witnesses = []
    for i, c in enumerate(mcs):
        res = results[3 * i]
        if res.violated:
            report(ctx, vp.Violation(
                f"TLC refutes {res.violated} for the request-response model instantiated with the chunk counts of "
                f"the running code ({key(c)}: {c['nreq']} request chunks, {c['nresp']} response chunks)",
                replay={"config": driver_cfg(c), "invariant": res.violated, "counterexample": cex_steps(res)},
                signature=f"reqres:model:{res.violated}"))
        for k, f in ((1, "FormulaReq"), (2, "FormulaResp")):
            r2, wit, _ = results[3 * i + k]
            if r2.violated and wit:
                witnesses.append((c, f, wit[0][1]))
            elif r2.violated or r2.error:
                raise vp.ToolError(f"TLC failed on {f} {key(c)}: {r2.violated} {r2.error}\n{r2.output[-2000:]}")
    ctx.coverage.setdefault("formula_refutations", {})
    # ---- 2. counterexamples of the plain formulas are replayed on the real code -------------------------
    for n, (c, f, w) in enumerate(witnesses):
        info = w["info"]
        tail = [S("LoanRequest", info["c"])] if f == "FormulaReq" else [S("LoanResponseAny", 0, info["s"])] * 2
        steps = w["hist"] + tail
        trace, summ = exec_programs(ctx, c, [steps], f"{want}-cex{n}-{f}")
        recs = vp.read_ndjson(trace)
        oom = [r for r in recs if r.get("k") == "op" and r["r"] == "OutOfMemory"]
        ctx.evaluations += summ["events"]
        tag = "req-oom-undelivered-pending" if f == "FormulaReq" else "resp-oom-stale-responses"
        ctx.coverage["formula_refutations"][f"{f} {key(c)}"] = "reproduced" if oom else "model only"
        if oom:
            # the trace specification decides: the OutOfMemory is accepted only in the known shape (tag in kd);
            # report_verdict turns every tag of this property into a (known) finding and anything else into a
            # violation
            v = validate(ctx, c, trace, f"{want}cex{n}")
            if v.accepted and tag not in v.kd:
                raise vp.ToolError(f"replay of {f} ended in OutOfMemory but the trace specification did not tag it")
            report_verdict(ctx, v, f"{want} {f} refuted by TLC with the chunk counts of the code "
                                   f"({c['nreq']}/{c['nresp']}), counterexample replayed on the real code", kd_filter)
        else:
            ctx.note(f"{f} refuted in the model for {key(c)} but the replay did not end in OutOfMemory")
    # ---- 3. random histories with loan-to-exhaustion probes, validated by the trace specification --------
    jobs = []
    for i, c in enumerate(st["cfgs"]):
        trace, summ = gen_random(ctx, c, 12 if quick else 60, 60 if quick else 90, f"{want}-rnd-{key(c)}",
                                 stream=100 + i, probes=True, churn=1)
        ctx.evaluations += summ["events"]
        if summ["panics"]:
            ctx.note(f"{summ['panics']} runs ended in a panic inside the library ({key(c)})")
        jobs.append((validate, (ctx, c, trace, f"{want}r{i}")))
    for v in parallel(jobs, 6):
        report_verdict(ctx, v, f"{want} limit/chunk histories", kd_filter)
    cleanup_shm(ctx)


def cex_to_program(res):
    """TLC counterexample (action labels with parameters) -> driver program."""
    prog = []
    for lab in cex_steps(res):
        m = re.match(r"(\w+)(?:\(([^)]*)\))?", lab)
        if not m:
            continue
        a, args = m.group(1), [int(x) for x in (m.group(2) or "").split(",") if x.strip().lstrip("-").isdigit()]
        if a in ("CreateClient", "DropClient", "UpdateClient", "LoanRequest", "SendCopy", "ProbeRequestLoans"):
            prog.append(S(a, args[0]))
        elif a in ("CreateServer", "DropServer", "UpdateServer", "ReceiveRequest", "HasRequests"):
            prog.append(S(a, 0, args[0]))
        elif a in ("SendRequest", "DropRequest", "DropPending", "ReceiveResponse", "IsConnectedP", "HasResponse",
                   "DisconnectHint"):
            prog.append(S(a, args[0], 0, args[1]))
        elif a in ("LoanResponse", "SendCopyResponse", "DropActive", "IsConnectedA", "HasDisconnectHint",
                   "ProbeResponseLoans"):
            prog.append(S(a, args[1], args[0], args[2]))
        elif a in ("SendResponse", "DropResponseLoan"):
            prog.append(S(a, args[1], args[0], args[2], args[3]))
        elif a == "DropResponse":
            prog.append(S(a, args[0], args[1], args[2], args[3]))
    return prog


def c08_reqres(ctx):
    """Request-response part of C08 (limits suffice and are enforced)."""
    _limits_and_chunks(ctx, ctx.quick, "C08")


def c02_reqres(ctx):
    """Request-response part of C02 (payload chunks are not reused while referenced, not leaked)."""
    _limits_and_chunks(ctx, ctx.quick, "C02")
