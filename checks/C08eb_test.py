"""stand-alone runner of the event / blackboard part of C08 (development only)"""
import importlib.util
import os
import vp

META = {"level": "model_checking", "engine": "tla-roundtrip", "technique": "test", "text": "test", "note": "", "design_ref": ""}


def run(ctx):
    p = os.path.join(vp.VERIF, "checks", "limits_parts.py")
    spec = importlib.util.spec_from_file_location("limits_parts", p)
    mod = importlib.util.module_from_spec(spec)
    spec.loader.exec_module(mod)
    mod.c08_event_blackboard(ctx)
