"""C13 - Connection lifecycle: one sender, one receiver, removed once by the last."""
import json
import os

import vp

META = {
    "level": "model_checking",
    "engine": "tla-atomics-scheduler",
    "technique": "TLC model checking of the attach/detach/ownership protocol (ConnState.tla) with the creator-registration "
                 "order extracted from the running code; all preemption-bounded schedules and all short sequential "
                 "histories of attach / detach / abandon / forced removal on the real zero_copy_connection are validated "
                 "by TLC against the linearizable connection specification ConnAbs.tla",
    "text": "ConnState.tla (open-or-create, reserve_port, release/acquire ownership, remove_state, destruction by name; 3 "
            "threads) is model-checked for OneSenderOneReceiver, DestroyedAtMostOnce, NotWhileAttached, "
            "AttachNeverOnDestroyed with CreatorReserves read back from the code. Real executions: every schedule "
            "(preemption bound 2-3, yield points before and after each access of the connection state byte and at call "
            "boundaries) of 2-3 threads attaching/detaching both roles on process-local and POSIX-shared-memory "
            "connections, including a third actor that re-creates the name, plus sequential histories with matching and "
            "mismatching parameters, abandon and forced removal; create results, does_exist and is_connected are "
            "validated by TLC against ConnAbs.tla.",
    "note": "Sequential programs include forced removals of roles that are not attached and repeated forced removals. Trusted: TLC, drop-in atomics, preemption bound. The storage internals (named dynamic storage) are treated as "
            "atomic open-or-create / destroy-by-name steps. Multi-process runs are not part of this check (threads only).",
    "design_ref": "DESIGN.md 5 C13",
    "replay": True,
}


def drv(ctx, args, tag, timeout=1800):
    out = ctx.path("traces", f"{tag}.ndjson")
    _, so, _ = vp.run_driver("drv-event", ["conn"] + args + ["--out", out], timeout=timeout, env={"VERIF_SEED": ctx.seed})
    return out, vp.last_json_line(so)


def on_reject(ctx):
    def f(meta, v, run, rel):
        what, summ = meta if meta else ("?", {})
        end = [r for r in run if r.get("k") == "end"]
        ctx.report(vp.Violation(
            f"{what}: history of the real connection is not explainable by ConnAbs (second attach of a role, resource "
            f"destroyed while attached / not destroyed by the last, wrong refusal) at record #{rel}: {v.record}",
            replay={"what": what, "summary": summ, "run": run, "first_unexplained": v.record, "invariant": v.invariant,
                    "schedule": end[0].get("sched") if end else None},
            signature="lin:conn"))
    return f


def gen_mc(ctx, name, prog, creator_reserves):
    d = ctx.path("mc", name, "x")[:-2]
    seq = "<< " + ", ".join("<<" + ", ".join(f'"{o}"' for o in t) + ">>" for t in prog) + " >>"
    with open(os.path.join(d, f"{name}.tla"), "w") as f:
        f.write(f"---- MODULE {name} ----\nEXTENDS ConnState\nProgV == {seq}\n====\n")
    with open(os.path.join(d, f"{name}.cfg"), "w") as f:
        f.write(f"SPECIFICATION Spec\nCONSTANTS\n Prog <- ProgV\n CreatorReserves = {'TRUE' if creator_reserves else 'FALSE'}\n"
                "INVARIANTS OneSenderOneReceiver DestroyedAtMostOnce NotWhileAttached AttachNeverOnDestroyed\n"
                "CHECK_DEADLOCK FALSE\n")
    return d


def creator_reserves(ctx):
    """Does a creating attach perform a reserving CAS on the state byte AFTER the storage became visible?
    (sequential run of one create_sender on a fresh name, atomic accesses of the state byte recorded)"""
    out = ctx.path("traces", "probe.ndjson")
    _, so, _ = vp.run_driver("drv-event", ["conn", "--storage", "local", "--prog", json.dumps([["S", "s"]]), "--mode", "seq",
                                          "--atoms", "--out", out], timeout=300)
    recs = vp.read_ndjson(out)
    in_create, cas = False, 0
    for r in recs:
        if r.get("k") == "call":
            in_create = r["a"] == "S"
        if r.get("k") == "ret":
            in_create = False
        if in_create and r.get("k") == "atom" and r["op"].startswith("cas") and r["ok"]:
            cas += 1
    return cas == 0


def run(ctx):
    vp.cargo_build(["drv-event"])
    q = ctx.quick
    ctx.assumptions += ["preemption-bounded schedule enumeration", "named dynamic storage: open-or-create and destroy-by-name atomic"]
    bv = vp.BatchValidator(ctx, "lockfree", "ConnAbsTrace", on_reject(ctx))
    seqs = [["S", "s", "R", "r", "S", "Rx", "R", "Sx", "S", "s", "r", "as", "S", "ar", "fs"],
            ["R", "Sx", "S", "R", "r", "s", "S", "as", "fs", "R", "ar", "fr", "S", "R", "s", "r"],
            ["Sx", "R", "Rx", "s", "R", "S", "r", "s"]]
    # forced removal on behalf of a dead peer whose role is NOT attached (the peer died before it attached, or a second
    # cleaner repeats the removal): nothing may change - no phantom port, the role stays attachable, the last real port
    # still destroys the resource (seeded change C13/4: remove_state toggled the role bit)
    seqs_forced = [["R", "fs", "S", "s", "r"], ["S", "fr", "fr", "R", "r", "s"], ["S", "as", "fs", "fs", "R", "S", "s", "r"],
                   ["R", "ar", "fr", "fr", "fs", "S", "R", "r", "s"]]
    for st in (["local", "shm"] if not q else ["local", "shm"]):
        for n, p in enumerate((seqs if not q else seqs[:2]) + seqs_forced):
            trace, summ = drv(ctx, ["--storage", st, "--prog", json.dumps([p]), "--mode", "seq"], f"seq-{st}-{n}")
            ctx.evaluations += 1
            bv.add(trace, (f"sequential {st} {p}", summ), 1)
    progs = [("local", [["S", "s"], ["R", "r"]], 2), ("local", [["S"], ["R", "r"], ["S"]], 2),
             ("local", [["S", "s", "S"], ["R", "r", "R"]], 2), ("shm", [["S", "s"], ["R", "r"]], 2),
             ("local", [["S"], ["S"], ["R", "r"]], 2)]
    if not q:
        progs += [("shm", [["S"], ["R", "r"], ["S"]], 2), ("local", [["S", "s"], ["R", "r"], ["S", "s"]], 3),
                  ("local", [["S", "s", "S", "s"], ["R", "r", "R", "r"]], 3), ("shm", [["S", "s", "S"], ["R", "r", "R"]], 3),
                  ("local", [["Sx", "s"], ["R", "r"], ["S"]], 2)]
    for n, (st, prog, bound) in enumerate(progs):
        trace, summ = drv(ctx, ["--storage", st, "--prog", json.dumps(prog), "--mode", "dfs", "--bound", bound,
                                "--runs", 600 if q else 40000], f"dfs-{n}")
        ctx.evaluations += summ["executions"]
        recs = vp.read_ndjson(trace)
        ctx.distinct += len({tuple(r["sched"]) for r in recs if r.get("k") == "end"})
        bv.add(trace, (f"scheduled {st} {prog}", summ), summ["executions"])
        if len(ctx.samples) < 3:
            r0 = vp.split_runs(recs)[len(recs) // 30 % 11]
            ctx.sample({"storage": st, "prog": prog,
                        "history": [f"t{r['t']}:{r['k']}:{r['a']}:{r.get('r')}" for r in r0 if r.get("k") in ("call", "ret")]
                        + [str({k: r0[-1].get(k) for k in ("exists", "sc", "rc")})]})
        trace, summ = drv(ctx, ["--storage", st, "--prog", json.dumps(prog), "--mode", "random", "--runs", 100 if q else 3000],
                          f"rnd-{n}")
        ctx.evaluations += summ["executions"]
        bv.add(trace, (f"random schedules {st} {prog}", summ), summ["executions"])
    bv.run()

    # ---- TLC on the protocol model with the extracted creator-registration order (V2)
    try:
        cr = creator_reserves(ctx)
    except vp.ToolError as e:
        cr = None
        ctx.note(f"creator-registration order not extracted ({e}); model argument not applicable")
    ctx.coverage["creator_reserves_in_initializer"] = cr
    if cr is not None:
        mcs = [[["S", "s"], ["R", "r"], ["S", "s"]], [["S", "s", "S"], ["R", "r", "R"]]]
        if not q:
            mcs += [[["S", "s", "S", "s"], ["R", "r", "R", "r"], ["S", "s"]], [["S", "s"], ["S", "s"], ["R", "r"], ["R"]]]
        for n, prog in enumerate(mcs):
            name = f"MC_{n}"
            d = gen_mc(ctx, name, prog, cr)
            res = vp.tlc(d, name, workers=8, timeout=900 if q else 2400, libs=["lockfree"])
            vp.record_tlc(ctx, f"ConnState[prog={prog} CreatorReserves={cr}]", res)
            if res.timed_out:
                raise vp.ToolError(f"TLC timed out on {name}")
            if res.violated:
                ctx.report(vp.Violation(
                    f"TLC refutes {res.violated} for the connection life cycle as the code performs it "
                    f"(creator registers its port {'inside' if cr else 'after'} the storage initialisation)",
                    replay={"invariant": res.violated, "creator_reserves": cr, "prog": prog,
                            "counterexample": [h for h, _ in res.cex]},
                    signature=f"protocol:conn:{res.violated}:creator_reserves={cr}"))
                break
            if not res.ok:
                raise vp.ToolError(f"TLC failed on {name}: {res.error}\n{res.output[-3000:]}")
            vp.check_action_coverage(res, ["OpenOrCreate", "Release", "RemoveState", "Drop"], name)
        if not q:
            d = gen_mc(ctx, "MF_late", mcs[0], False)
            res = vp.tlc(d, "MF_late", workers=8, timeout=600, libs=["lockfree"])
            vp.record_tlc(ctx, "must-fail CreatorReserves=FALSE", res, count=False)
            if not res.violated:
                raise vp.ToolError("must-fail instance (creator registers late) was not refuted: model is vacuous")
    ctx.coverage["rule"] = "evaluations = executions (sequential, scheduled, random); distinct = distinct schedules"


def replay(ctx, path):
    body = json.load(open(path))
    print(json.dumps({k: body.get(k) for k in ("what", "schedule", "first_unexplained", "invariant")}, indent=1))
    return 0
