"""C18 - The C binding is a faithful projection of the Rust API."""
import concurrent.futures as cf
import json
import os
import random
import re
import threading

import vp

LOCK = threading.Lock()

META = {
    "level": "translation_validation",
    "engine": "tla-roundtrip",
    "technique": "translation validation against explicit TLA+ specifications: TLC-generated and seeded programs over one "
                 "action vocabulary are executed through the Rust API, through the iox2_* C API and mixed on the same "
                 "service; every recorded trace is validated by TLC against the publish-subscribe / request-response / "
                 "event trace specification and the traces are compared event by event; the Rust-error -> C-code table "
                 "is dumped from the running code by an exhaustive match and its clauses are evaluated by TLC",
    "text": "harness/drivers/ffi implements every action (node/service/port creation with QoS, loan, payload write, send, "
            "send_copy, receive, release, notify, wait, request/response send/receive, drop of every handle) twice: "
            "through iceoryx2::prelude and through the iox2_* functions of iceoryx2-ffi-c linked as rlib. Programs come "
            "from TLC (-simulate over PubSub.tla / ReqRes.tla) and from a seeded generator (fixed-size, slice and custom "
            "payload type details with sizes 1..64 and alignments 1..16). Each program is run Rust-only, C-only and mixed "
            "(C publisher/notifier/client with Rust subscriber/listener/server and the converses) in an isolated domain. "
            "TLC validates all traces (PubSubTraceFfi, ReqResTraceFfi, EventObsTrace: the reference specifications of "
            "C01/C02/C08/C11/C05 plus registry counts after every create/drop) and the check compares the traces event by "
            "event (error variant after translating C codes through the dumped table, payload digest and length, header "
            "fields, recipient counts, order, end-of-run leftovers, name reuse). A disagreement is classified by the "
            "specification verdicts of both sides. spec/data/FfiTable.tla states Total, Injective, NoCollisionWithOK, "
            "NamesNonEmpty, NamesDistinct and NamesRustError over the table dumped by harness/drivers/ffitab.",
    "note": "Sequential programs, one process. The table driver compiles the sources of iceoryx2-ffi/c/src/api a second "
            "time (IntoCInt is private); conversions that do not return are detected by a CPU-time watchdog. Channel and "
            "request ids are not observable through the C API and left to TLC in C traces. update_connections of "
            "subscriber / client / server does not exist in the C API and is not part of the vocabulary. Double use of "
            "a released C handle is not attempted; release is judged by registry counts, loan probes, leftovers and name "
            "reuse. Trusted: TLC, the driver's mapping of ids to small indices, the canary encoding.",
    "design_ref": "DESIGN.md 5 C18, 2.2, 3.4",
    "replay": True,
}

DRV = "drv-ffi"
TAB = "drv-ffitab"
CLAUSES = ["Total", "Injective", "NoCollisionWithOK", "NamesNonEmpty", "NamesDistinct", "NamesRustError"]
# fields that are not compared between the front ends
IGNORE = {"api", "service", "mode", "creator", "run", "ch", "rid"}
CORE = {
    "loan": ["c:loan:ok", "c:LoanRequest:ok", "c:LoanResponse:ok"],
    "send": ["c:send:ok"],
    "receive": ["c:recv:some"],
    "notify": ["c:notify:ok"],
    "wait": ["c:wait:ok"],
    "request": ["c:SendCopy:ok", "c:SendRequest:ok", "c:ReceiveRequest:some"],
    "response": ["c:SendCopyResponse:ok", "c:SendResponse:ok", "c:ReceiveResponse:some"],
    "drop": ["c:drop_pub", "c:drop_sub", "c:drop_sample", "c:drop_notifier:ok", "c:drop_listener", "c:DropClient:ok",
             "c:DropServer:ok", "c:DropPending:ok", "c:DropActive:ok", "c:DropResponse:ok", "c:teardown"],
}


# ---------------------------------------------------------------------------------------------
# 1. the error table

def error_table(ctx, path, summ):
    """TLC evaluates the clauses of spec/data/FfiTable.tla over the table dumped from the running code"""
    res = vp.tlc("data", "FfiTable", workers=1, timeout=900, env={"TABLE": path}, coverage=False, cont=True)
    with LOCK:
        vp.record_tlc(ctx, f"FfiTable[{summ['rows']} variants of {summ['enums']} error enums, {summ['consts']} C constants]", res,
                      count=False)
    if res.timed_out:
        raise vp.ToolError("TLC timed out on FfiTable")
    verdict, offenders = {}, {}
    for line in res.output.splitlines():
        m = re.match(r'<<"FFITABLE_VERDICT", "(\w+)", (TRUE|FALSE)>>', line)
        if m:
            verdict[m.group(1)] = m.group(2) == "TRUE"
        m = re.match(r'<<"FFITABLE", "(\w+)", "(.*)">>$', line)
        if m:
            offenders[m.group(1)] = json.loads(m.group(2).encode().decode("unicode_escape"))
    if set(verdict) != set(CLAUSES) or "FFITABLE_SIZE" not in res.output:
        raise vp.ToolError("TLC gave no verdict for every table clause:\n" + res.output[-3000:])
    for c in CLAUSES:
        if not verdict[c] and not offenders.get(c):
            raise vp.ToolError(f"clause {c} is FALSE but TLC named no offending row")
    ctx.coverage["error_table"] = {"variants": summ["rows"], "rust_error_enums": summ["enums"], "c_enums": summ["cenums"],
                                   "c_constants": summ["consts"], "conversions_not_returning": summ["not_evaluated"],
                                   "clauses": verdict}
    cmd = "harness/target/debug/drv-ffitab dump --out t.ndjson ; TABLE=t.ndjson tlc spec/data/FfiTable"

    def row(o):
        return f"{o['enum']}::{o['variant']} -> {o['code']} ({o['cenum']} \"{o['cname']}\", {o['st']})"

    def twins(x, y):
        """XOpenError(V) / XCreateError(V) of one *OpenOrCreateError enum"""
        mx = re.match(r"(\w+?)(Open|Create)Error\((\w+)\)$", x["variant"])
        my = re.match(r"(\w+?)(Open|Create)Error\((\w+)\)$", y["variant"])
        return bool(mx and my and x["enum"].endswith("OpenOrCreateError") and x["enum"] == y["enum"]
                    and mx.group(1) == my.group(1) and mx.group(3) == my.group(3) and mx.group(2) != my.group(2))
    out = []
    for clause in CLAUSES:
        offs = offenders.get(clause, []) if not verdict[clause] else []
        if clause == "NamesDistinct":
            tw = [(x, y) for x, y in offs if twins(x, y)]
            if tw:
                out.append(vp.Violation(
                    f"error table: NamesDistinct fails: {len(tw)} open/create twin pairs of the *OpenOrCreateError enums have "
                    f"distinct C codes but the same printable name, e.g. {row(tw[0][0])} / {row(tw[0][1])}",
                    replay={"kind": "table", "clause": clause, "pairs": [[row(x), row(y)] for x, y in tw], "table": path, "cmd": cmd},
                    signature="table:NamesDistinct:OpenOrCreate-open/create-twins"))
            offs = [[x, y] for x, y in offs if not twins(x, y)]
        for o in offs:
            if isinstance(o, list):
                x, y = sorted(o, key=lambda r: r["variant"])
                what = f"{row(x)} and {row(y)} share " + ("one C code" if clause == "Injective" else "one printable name")
                sig = f"table:{clause}:{x['enum']}::{x['variant']}={y['variant']}"
                if clause == "Injective" and x["enum"] == "ServiceRemoveError" and {x["variant"], y["variant"]} == {"Interrupt", "VersionMismatch"}:
                    sig = "table:Injective:ServiceRemoveError::VersionMismatch=Interrupt"
                if clause == "Injective" and x["enum"] == "EventOpenOrCreateError" and \
                        {x["variant"], y["variant"]} == {"EventOpenError(Interrupt)", "EventCreateError(Interrupt)"}:
                    sig = "table:Injective:EventOpenOrCreateError:open-Interrupt=create-Interrupt"
                en = x["enum"]
            else:
                what = {"Total": "the conversion yields no C code (it does not return / leaves the C enum)",
                        "NoCollisionWithOK": "an error is converted to IOX2_OK",
                        "NamesNonEmpty": "the C code has no printable name",
                        "NamesRustError": "the C enum has a constant named like the Rust variant, but the variant is mapped "
                                          "to a constant with another name"}[clause] + ": " + row(o)
                sig = f"table:{clause}:{o['enum']}::{o['variant']}"
                if clause == "Total" and o["variant"] == "SystemInFlux":
                    sig = "table:Total:SystemInFlux"
                en = o["enum"]
            out.append(vp.Violation(f"error table: {clause} fails: {what}",
                                    replay={"kind": "table", "clause": clause, "enum": en, "rows": o, "table": path, "cmd": cmd},
                                    signature=sig))
    return out


def dump_table(ctx):
    path = ctx.path("table", "table.ndjson")
    _, so, _ = vp.run_driver(TAB, ["dump", "--out", path], timeout=600)
    summ = vp.last_json_line(so)
    if summ["rows"] < 100:
        raise vp.ToolError(f"error table too small: {summ}")
    codes = {}
    for r in vp.read_ndjson(path):
        if r.get("k") == "row" and r["st"] == "ok":
            codes[(r["enum"], r["variant"])] = r["code"]
    return path, summ, codes


# ---------------------------------------------------------------------------------------------
# 2. programs

def ps_qos(rnd, payload, variant):
    bufmax = rnd.choice((1, 2, 3))
    hist = rnd.choice([h for h in (0, 1, 2) if h <= bufmax])
    overflow = rnd.choice((1, 0))
    strategy = "discard" if overflow else rnd.choice(("discard", "retry_fail", "retry_discard"))
    return dict(maxpubs=rnd.choice((1, 2, 2)), maxsubs=rnd.choice((1, 2, 3)), bufmax=bufmax, hist=hist,
                borrow=rnd.choice((1, 2)), loan=rnd.choice((1, 2)), overflow=overflow, strategy=strategy,
                payload=payload, variant=variant)


def payload_kinds(rnd, n):
    """fixed u64, byte slices, custom type details with size 1..64 / alignment 1..16 (fixed and dynamic)"""
    out = []
    for i in range(n):
        k = i % 4
        if k == 0:
            out.append("u64")
        elif k == 1:
            out.append("slice")
        elif k == 2:
            out.append(f"custom:{rnd.randint(1, 64)}:{rnd.choice((1, 2, 4, 8, 16))}")
        else:
            out.append(f"cslice:{rnd.randint(1, 20)}:{rnd.choice((1, 2, 4, 8, 16))}")
    return out


def gen_ps_program(rnd, q, steps):
    """seeded generator with an optimistic abstract state (the driver skips what is not applicable)"""
    prog, live_p, live_s, loans, held = [], [], [], {}, {}
    next_p, next_s = 1, 1
    for _ in range(steps):
        w = rnd.randrange(100)
        if w < 5 and next_p <= 8 and (len(live_p) < q["maxpubs"] or rnd.random() < 0.2):
            prog.append({"a": "create_pub", "p": next_p})
            if len(live_p) < q["maxpubs"]:
                live_p.append(next_p)
                loans[next_p] = 0
            next_p += 1
        elif w < 7 and live_p and next_p <= 8:
            p = rnd.choice(live_p)
            prog.append({"a": "drop_pub", "p": p})
            live_p.remove(p)
        elif w < 14 and next_s <= 10 and (len(live_s) < q["maxsubs"] or rnd.random() < 0.2):
            buf = q["bufmax"] + 1 if rnd.random() < 0.08 else rnd.randint(1, q["bufmax"])
            maxreq = min(q["hist"], buf)
            req = maxreq + 1 if rnd.random() < 0.1 else rnd.randint(0, maxreq)
            prog.append({"a": "create_sub", "s": next_s, "buf": buf, "req": req})
            if len(live_s) < q["maxsubs"] and buf <= q["bufmax"] and req <= maxreq:
                live_s.append(next_s)
                held[next_s] = 0
            next_s += 1
        elif w < 17 and live_s and next_s <= 10:
            s = rnd.choice(live_s)
            prog.append({"a": "drop_sub", "s": s, "mode": "zombie" if rnd.random() < 0.3 else "orderly"})
            live_s.remove(s)
        elif w < 32 and live_p:
            p = rnd.choice(live_p)
            prog.append({"a": "loan", "p": p})
            if loans[p] < q["loan"]:
                loans[p] += 1
        elif w < 50 and live_p:
            p = rnd.choice(live_p)
            if loans[p] > 0:
                prog.append({"a": "send", "p": p, "id": 0})
                loans[p] -= 1
            elif loans[p] < q["loan"]:
                prog.append({"a": "send_copy", "p": p})
        elif w < 56 and live_p:
            # copy-send only below the loan limit: at the limit the C binding deviates (known finding, see KNOWN_PS)
            p = rnd.choice(live_p)
            if loans[p] < q["loan"]:
                prog.append({"a": "send_copy", "p": p})
        elif w < 59 and live_p:
            p = rnd.choice(live_p)
            if loans[p] > 0:
                prog.append({"a": "drop_loan", "p": p, "id": 0})
                loans[p] -= 1
        elif w < 78 and live_s:
            s = rnd.choice(live_s)
            prog.append({"a": "recv", "s": s})
            held[s] += 1
        elif w < 88 and live_s:
            s = rnd.choice(live_s)
            if held.get(s, 0) > 0:
                prog.append({"a": "drop_sample", "s": s, "id": 0})
                held[s] -= 1
        elif w < 91 and live_p:
            prog.append({"a": "update_pub", "p": rnd.choice(live_p)})
        elif w < 95 and live_s:
            prog.append({"a": "has", "s": rnd.choice(live_s)})
        elif live_p:
            prog.append({"a": "probe", "p": rnd.choice(live_p)})
    # tail: chunk-availability probe of every publisher (a leaked loan / sample shows here), then everything
    # the subscribers still see
    for p in live_p:
        prog.append({"a": "probe", "p": p})
    for s in live_s:
        prog += [{"a": "recv", "s": s}, {"a": "has", "s": s}]
    return prog


def tag_ps(prog, mode):
    """assigns the API of every participant (the tag sits on the create action)"""
    out = []
    for a in prog:
        a = {k: v for k, v in a.items() if k in ("a", "p", "s", "id", "buf", "req", "mode")}
        if a["a"] in ("update_sub", "abandon_sub"):
            continue                     # not in the C API / not in the vocabulary
        if a["a"] == "create_pub":
            a["api"] = {"rust": "rust", "c": "c", "cpub": "c", "rpub": "rust"}.get(mode) or ("c" if a["p"] % 2 else "rust")
        if a["a"] == "create_sub":
            a["api"] = {"rust": "rust", "c": "c", "cpub": "rust", "rpub": "c"}.get(mode) or ("rust" if a["s"] % 2 else "c")
        out.append(a)
    return out


def creator_of(mode, i):
    return {"rust": "rust", "c": "c", "cpub": "c", "rpub": "rust", "cnot": "c", "rnot": "rust", "ccl": "c",
            "rcl": "rust"}.get(mode) or ("c" if i % 2 else "rust")


KNOWN_PS = [  # witnesses of the copy-send defect (LoanError code returned where the send error enum is documented)
    ("u64", [{"a": "create_pub", "p": 1}, {"a": "create_sub", "s": 1, "buf": 1, "req": 0}, {"a": "loan", "p": 1},
             {"a": "send_copy", "p": 1}, {"a": "send", "p": 1, "id": 0}, {"a": "recv", "s": 1}]),
    ("slice", [{"a": "create_pub", "p": 1}, {"a": "loan", "p": 1}, {"a": "send_copy", "p": 1}, {"a": "drop_loan", "p": 1, "id": 0}]),
]


def S(a, c=0, s=0, n=0, j=0):
    return {"a": a, "c": c, "s": s, "n": n, "j": j, "h": 0}


KNOWN_RR = [
    [S("CreateServer", 0, 1), S("CreateClient", 1), S("LoanRequest", 1), S("SendCopy", 1), S("DropRequest", 1, 0, 1)],
    [S("CreateServer", 0, 1), S("CreateClient", 1), S("SendCopy", 1), S("ReceiveRequest", 0, 1), S("LoanResponse", 1, 1, 1),
     S("SendCopyResponse", 1, 1, 1), S("DropResponseLoan", 1, 1, 1, 1)],
]


def gen_rr_program(rnd, c, steps):
    prog = [S("CreateServer", 0, 1), S("CreateClient", 1)]
    cl, sv = {1}, {1}
    used_c, used_s = 1, 1
    nn = {1: 0}
    loans, pend, areq, rloans = set(), set(), set(), set()
    nj = {}
    for _ in range(steps):
        w = rnd.randrange(100)
        if w < 4 and used_c < c["nc"]:
            used_c += 1
            prog.append(S("CreateClient", used_c))
            if len(cl) < c["mcl"]:
                cl.add(used_c)
                nn[used_c] = 0
        elif w < 7 and used_s < c["ns"]:
            used_s += 1
            prog.append(S("CreateServer", 0, used_s))
            if len(sv) < c["msv"]:
                sv.add(used_s)
        elif w < 18 and cl:
            k = rnd.choice(sorted(cl))
            # copy API only below the loan limit (known finding otherwise, see KNOWN_RR)
            if len([x for x in loans if x[0] == k]) < c["ml"]:
                prog.append(S("SendCopy", k))
                if len([x for x in pend if x[0] == k]) < c["ma"]:
                    nn[k] += 1
                    pend.add((k, nn[k]))
        elif w < 26 and cl:
            k = rnd.choice(sorted(cl))
            prog.append(S("LoanRequest", k))
            if len([x for x in loans if x[0] == k]) < c["ml"]:
                nn[k] += 1
                loans.add((k, nn[k]))
        elif w < 34 and loans:
            k, n = rnd.choice(sorted(loans))
            loans.discard((k, n))
            if rnd.random() < 0.8:
                prog.append(S("SendRequest", k, 0, n))
                if len([x for x in pend if x[0] == k]) < c["ma"]:
                    pend.add((k, n))
            else:
                prog.append(S("DropRequest", k, 0, n))
        elif w < 46 and sv:
            s = rnd.choice(sorted(sv))
            prog.append(S("ReceiveRequest", 0, s))
            # optimistic: the oldest pending request of some client that s has not seen
            for (k, n) in sorted(pend):
                if (s, k, n) not in areq and (s, k, n) not in nj:
                    areq.add((s, k, n))
                    nj[(s, k, n)] = 0
                    break
        elif w < 58 and areq:
            s, k, n = rnd.choice(sorted(areq))
            if len([x for x in rloans if x[:3] == (s, k, n)]) < c["mlr"]:
                prog.append(S("SendCopyResponse", k, s, n))
                nj[(s, k, n)] += 1
        elif w < 64 and areq:
            s, k, n = rnd.choice(sorted(areq))
            prog.append(S("LoanResponse", k, s, n))
            if len([x for x in rloans if x[:3] == (s, k, n)]) < c["mlr"]:
                nj[(s, k, n)] += 1
                rloans.add((s, k, n, nj[(s, k, n)]))
        elif w < 70 and rloans:
            s, k, n, j = rnd.choice(sorted(rloans))
            rloans.discard((s, k, n, j))
            prog.append(S("SendResponse" if rnd.random() < 0.8 else "DropResponseLoan", k, s, n, j))
        elif w < 82 and pend:
            k, n = rnd.choice(sorted(pend))
            prog.append(S("ReceiveResponse", k, 0, n))
        elif w < 86 and pend:
            k, n = rnd.choice(sorted(pend))
            prog.append(S(rnd.choice(("IsConnectedP", "HasResponse", "DisconnectHint")), k, 0, n))
        elif w < 89 and areq:
            s, k, n = rnd.choice(sorted(areq))
            prog.append(S(rnd.choice(("IsConnectedA", "HasDisconnectHint")), k, s, n))
        elif w < 93 and pend:
            k, n = rnd.choice(sorted(pend))
            pend.discard((k, n))
            prog.append(S("DropPending", k, 0, n))
        elif w < 97 and areq:
            s, k, n = rnd.choice(sorted(areq))
            if not [x for x in rloans if x[:3] == (s, k, n)]:
                areq.discard((s, k, n))
                prog.append(S("DropActive", k, s, n))
        elif sv:
            prog.append(S("HasRequests", 0, rnd.choice(sorted(sv))))
    # responses that were received are held by the driver under handles 1.. : release them, then probe
    for h in range(1, 12):
        prog.append({"a": "DropResponse", "c": 0, "s": 0, "n": 0, "j": 0, "h": h})
    for k in sorted(cl):
        prog.append(S("ProbeRequestLoans", k))
    return prog


def tag_rr(prog, mode):
    out = []
    for a in prog:
        a = dict(a)
        if a["a"] == "CreateClient":
            a["api"] = {"rust": "rust", "c": "c", "ccl": "c", "rcl": "rust"}.get(mode) or ("c" if a["c"] % 2 else "rust")
        if a["a"] == "CreateServer":
            a["api"] = {"rust": "rust", "c": "c", "ccl": "rust", "rcl": "c"}.get(mode) or ("rust" if a["s"] % 2 else "c")
        out.append(a)
    return out


def gen_ev_program(rnd, cfg, steps):
    prog = [{"a": "create_listener"}]
    live, used = [], 0
    for _ in range(steps):
        w = rnd.randrange(100)
        if w < 10 and used < 8:
            prog.append({"a": "create_notifier", "t": used})
            if len(live) < cfg["max_notifiers"]:
                live.append(used)
            used += 1
        elif w < 15 and live:
            t = rnd.choice(live)
            live.remove(t)
            prog.append({"a": "drop_notifier", "t": t})
        elif w < 70 and live:
            ident = cfg["maxid"] + 1 if rnd.random() < 0.05 else rnd.randint(0, cfg["maxid"])
            prog.append({"a": "notify", "t": rnd.choice(live), "id": ident})
        else:
            prog.append({"a": "wait", "w": "timed" if rnd.random() < 0.15 else "try"})
    prog.append({"a": "wait", "w": "try"})
    return prog


def tag_ev(prog, mode):
    out = []
    for a in prog:
        a = dict(a)
        if a["a"] == "create_listener":
            a["api"] = {"rust": "rust", "c": "c", "cnot": "rust", "rnot": "c"}[mode]
        if a["a"] == "create_notifier":
            a["api"] = {"rust": "rust", "c": "c", "cnot": "c", "rnot": "rust"}[mode]
        out.append(a)
    return out


# ---- TLC as generator (DESIGN.md 2.2) ------------------------------------------------------------

def qos_tla(q):
    return ("[maxpubs |-> %d, maxsubs |-> %d, bufmax |-> %d, hist |-> %d, borrow |-> %d, loan |-> %d, "
            "overflow |-> %s, strategy |-> \"%s\", expbuf |-> 64]" % (q["maxpubs"], q["maxsubs"], q["bufmax"], q["hist"], q["borrow"],
                                                      q["loan"], "TRUE" if q["overflow"] else "FALSE", q["strategy"]))


def simulate_ps(ctx, q, num, depth):
    """tlc -simulate over PubSubGen.tla: behaviours of `depth` API calls"""
    d = ctx.path("gen", "ps", "x")[:-2]
    with open(os.path.join(d, "G_ps.tla"), "w") as f:
        f.write(f"---- MODULE G_ps ----\nEXTENDS PubSubGen\nQV == {qos_tla(q)}\n====\n")
    with open(os.path.join(d, "G_ps.cfg"), "w") as f:
        f.write("SPECIFICATION GenSpec\nCONSTANTS\n PubIds = {1,2,3}\n SubIds = {1,2,3}\n Q <- QV\n BufChoices = {1,2}\n"
                f" ReqChoices = {{0,1,2}}\n NChunks = 16\n MaxIds = 60\n GenLen = {depth}\nCHECK_DEADLOCK FALSE\n"
                "INVARIANTS Emit\n")
    res = vp.tlc(d, "G_ps", workers=1, timeout=600, libs=["api"], coverage=False, simulate=f"num={num}",
                 extra=["-depth", str(depth + 1), "-seed", str(ctx.seed)])
    vp.record_tlc(ctx, f"PubSubGen[simulate num={num} depth={depth}]", res, count=False)
    if res.timed_out:
        raise vp.ToolError("TLC simulation of PubSubGen timed out")
    progs, seen = [], set()
    for line in res.prints:
        m = re.match(r'<<"BEHAVIOUR", "(.*)">>\s*$', line)
        if m:
            prog = json.loads(json.loads('"' + m.group(1) + '"'))
            key = json.dumps(prog[:-1], sort_keys=True)
            if key not in seen:
                seen.add(key)
                progs.append(prog)
    if not progs:
        raise vp.ToolError("PubSubGen simulation produced no behaviour:\n" + res.output[-2000:])
    return progs[:num]


def B(b):
    return "TRUE" if b else "FALSE"


def rr_constants(c, MaxN, MaxJ, PoolFifo, MinChunk, AllowKnown, AvoidDeadReuse, nc=None, ns=None):
    return (f" NC = {nc or c['nc']}\n NS = {ns or c['ns']}\n MA = {c['ma']}\n ML = {c['ml']}\n RB = {c['rb']}\n"
            f" MB = {c['mb']}\n MLR = {c['mlr']}\n OQ = {B(c['oq'])}\n OP = {B(c['op'])}\n FF = {B(c['ff'])}\n"
            f" MSV = {c['msv']}\n MCL = {c['mcl']}\n NREQ = {c['nreq']}\n NRESP = {c['nresp']}\n"
            f" MaxN = {MaxN}\n MaxJ = {MaxJ}\n PoolFifo = {B(PoolFifo)}\n MinChunk = {B(MinChunk)}\n"
            f" AllowKnown = {B(AllowKnown)}\n Filter = TRUE\n AvoidDeadReuse = {B(AvoidDeadReuse)}\n TrackIds = TRUE\n")


def simulate_rr(ctx, c, num, length):
    d = ctx.path("gen", "rr", "x")[:-2]
    with open(os.path.join(d, "G_rr.tla"), "w") as f:
        f.write("---- MODULE G_rr ----\nEXTENDS ReqResGen\n====\n")
    with open(os.path.join(d, "G_rr.cfg"), "w") as f:
        f.write("INIT GenInit\nNEXT GenNext\nCONSTANTS\n" + rr_constants(c, 6, 3, True, True, True, True, min(c["nc"], 2), min(c["ns"], 2))
                + f" GenLen = {length}\n GenLean = FALSE\n GenMinimal = FALSE\n GenDeath = FALSE\n WitnessMax = 0\nCHECK_DEADLOCK FALSE\n"
                  "INVARIANT Behaviour\n")
    res = vp.tlc(d, "G_rr", workers=1, timeout=600, libs=["api"], coverage=False, simulate=f"num={3 * num}",
                 extra=["-depth", "400", "-seed", str(ctx.seed)])
    vp.record_tlc(ctx, f"ReqResGen[simulate num={num} len={length}]", res, count=False)
    if res.timed_out:
        raise vp.ToolError("TLC simulation of ReqResGen timed out")
    # the simulator evaluates the invariant on every candidate successor: one group of behaviours per walk
    # (same prefix, different last call) - the last member of every group is kept
    progs, seen = [], {}
    for m in re.finditer(r'<<"BEHAVIOUR", "(.*)">>', res.output):
        prog = json.loads(m.group(1).encode().decode("unicode_escape"))
        seen[json.dumps(prog[:-1], sort_keys=True)] = prog
    progs = list(seen.values())
    if not progs:
        raise vp.ToolError("ReqResGen simulation produced no behaviour:\n" + res.output[-2000:])
    return progs[:num]


# ---------------------------------------------------------------------------------------------
# 3. execution

def execute(ctx, table, jobs, tag):
    """one driver process per batch; a crash of the code under test is data"""
    d = ctx.path("exec", "x")[:-2]
    jp, out = os.path.join(d, f"{tag}.jobs.json"), os.path.join(d, f"{tag}.ndjson")
    with open(jp, "w") as f:
        json.dump(jobs, f)
    rcode, so, se = vp.run_driver(DRV, ["exec", "--work", d, "--jobs", jp, "--table", table, "--out", out], timeout=1200,
                                  ok_codes=None)
    recs = vp.read_ndjson(out) if os.path.exists(out) else []
    runs = vp.split_runs(recs) if recs else []
    if rcode != 0:
        return runs, None, f"driver exited with {rcode}: {se[-400:]}"
    return runs, vp.last_json_line(so), None


def strip(e, mixed=False):
    skip = IGNORE | ({"left", "files"} if mixed else set())
    return {k: v for k, v in e.items() if k not in skip}


def first_difference(ra, rb, mixed=False):
    """(index, key, value a, value b) of the first event that differs, None if the runs are equal.
    A mixed run has one node more than a single-API run: its end-of-run listing is not compared."""
    for i in range(max(len(ra), len(rb))):
        if i >= len(ra) or i >= len(rb):
            return i, "length", len(ra), len(rb)
        a, b = strip(ra[i], mixed), strip(rb[i], mixed)
        if a != b:
            keys = [k for k in ("cr", "r", "rl", "a") if a.get(k) != b.get(k)] or sorted(k for k in set(a) | set(b) if a.get(k) != b.get(k))
            k = keys[0]
            return i, k, a.get(k), b.get(k)
    return None


def describe(e):
    if e.get("k") in ("reset",):
        return "reset " + json.dumps({k: v for k, v in e.items() if k not in ("k", "service")}, sort_keys=True)
    skip = {"k", "bad", "via", "al", "hp", "np", "ns", "ncl", "nsv", "ok", "rid", "ch", "w", "i"}
    keep = {k: v for k, v in e.items() if k not in skip and v not in (0, "", [], -1) or k in ("r",)}
    return json.dumps(keep, sort_keys=True)


# ---------------------------------------------------------------------------------------------
# 4. validation by TLC

def rr_trace_module(ctx, c, name):
    d = ctx.path("tr", name, "x")[:-2]
    invs = ["TypeOK", "EachServerGetsRequestOnce", "RequestConservation", "Routing", "OrderAtMostOnce", "CloseObserved",
            "Limits", "RefExact", "LoanFromFree", "NoLeak", "SingleHolder"]
    with open(os.path.join(d, f"TR_{name}.tla"), "w") as f:
        f.write(f"---- MODULE TR_{name} ----\nEXTENDS ReqResTraceFfi\n====\n")
    with open(os.path.join(d, f"TR_{name}.cfg"), "w") as f:
        f.write("SPECIFICATION TraceSpec\nCONSTANTS\n" + rr_constants(c, 1000000, 1000000, False, False, True, False)
                + "CONSTRAINT Progress\nPOSTCONDITION Accepted\nCHECK_DEADLOCK FALSE\nINVARIANTS " + " ".join(invs)
                + "\nPROPERTY RoutingAction\n")
    return d, f"TR_{name}"


def validate(ctx, pat, runs, tag, rrcfg=None, weight=None):
    """Validates a list of runs with the trace specification of `pat`.
    Returns the list of (run index, position in run, record, invariant) of rejected runs; all other runs were
    explained completely.  Runs after a rejected one are validated in a further TLC run.
    weight[k] = number of recorded traces run k stands for (traces that are identical to it)."""
    rejected, base, rounds = [], 0, 0
    items = list(runs)
    weight = list(weight or [1] * len(items))
    spec_name = {"ps": "PubSubTraceFfi", "ev": "EventObsTrace", "rr": "ReqResTraceFfi"}[pat]
    while items:
        p = ctx.path("val", f"{tag}.{rounds}.ndjson")
        vp.write_ndjson(p, [e for r in items for e in r])
        if pat == "ps":
            v = vp.tlc_trace("ffi", "PubSubTraceFfi", p, libs=["api"], timeout=1500)
        elif pat == "ev":
            v = vp.tlc_trace("lockfree", "EventObsTrace", p, timeout=1500)
        else:
            d, m = rr_trace_module(ctx, rrcfg, tag.replace("-", "_"))
            v = vp.tlc_trace(d, m, p, libs=["api", "ffi"], timeout=1500)
        with LOCK:
            vp.record_tlc(ctx, f"{spec_name}[{tag}: {len(items)} runs, {sum(len(r) for r in items)} records]", v.res, count=True)
        if v.accepted:
            with LOCK:
                ctx.traces_validated += sum(weight[base:base + len(items)])
            break
        pos = v.pos if v.pos is not None else max(1, len(v.res.cex) - 1)
        acc, idx = 0, len(items) - 1
        for i, r in enumerate(items):
            if acc + len(r) >= pos:
                idx = i
                break
            acc += len(r)
        rel = min(max(pos - acc, 1), len(items[idx]))
        rejected.append((base + idx, rel, items[idx][rel - 1], v.invariant))
        with LOCK:
            ctx.traces_validated += sum(weight[base:base + idx])
        base += idx + 1
        items = items[idx + 1:]
        rounds += 1
        if rounds >= 6 and items:
            raise vp.ToolError(f"{tag}: more than 6 runs rejected by the trace specification; first: {rejected[0]}")
    return rejected


def parallel(jobs, n=4):
    with cf.ThreadPoolExecutor(max_workers=n) as ex:
        futs = [ex.submit(f, *a) for f, a in jobs]
        return [f.result() for f in futs]


# ---------------------------------------------------------------------------------------------
# the check

class Program:
    def __init__(self, pat, cfg, prog, origin, order=0):
        self.pat, self.cfg, self.prog, self.origin, self.order = pat, cfg, prog, origin, order
        self.runs = {}        # mode -> recorded run


MIXED = {"ps": ["cpub", "rpub", "alt"], "rr": ["ccl", "rcl", "alt"], "ev": ["cnot", "rnot"]}


def modes_of(pr, i, quick):
    if pr.origin == "witness":
        return ["rust", "c"]
    mixed = MIXED[pr.pat]
    return ["rust", "c"] + ([mixed[i % len(mixed)]] if quick else mixed)


def job_of(pr, mode, i):
    tag = {"ps": tag_ps, "rr": tag_rr, "ev": tag_ev}[pr.pat]
    return {"pat": pr.pat, "cfg": pr.cfg, "creator": creator_of(mode, i), "order": pr.order, "mode": mode,
            "program": tag(pr.prog, mode)}


def copy_send_loan_failure(pat, run):
    """index of the first program step at which a copy-send failed in its loan half (Rust-only run), or None"""
    for k, e in enumerate(run):
        if pat == "ps" and e.get("via") == "send_copy" and e.get("a") == "loan" and e.get("r") != "ok":
            return e["i"]
        if pat == "rr" and e.get("a") in ("SendCopy", "SendCopyResponse") and "LoanError(" in e.get("rl", ""):
            return k - 1          # record k of a run answers step k-1 (record 0 is the reset)
    return None


def known_copy_send(codes, pat, ea, eb, key):
    """the disagreement is: a copy-send whose Rust result wraps LoanError::V, and the C code is V's code in the
    loan error enum although the function documents the send error enum"""
    if key not in ("cr", "r", "rl"):
        return False
    if pat == "ps":
        if eb.get("via") != "send_copy" or ea.get("via") != "send_copy":
            return False
        en, ra, rb = "SendError", ea.get("cr", ""), eb.get("cr", "")
    elif pat == "rr" and ea.get("a") in ("SendCopy", "SendCopyResponse") and ea.get("a") == eb.get("a"):
        en, ra, rb = ("RequestSendError" if ea["a"] == "SendCopy" else "SendError"), ea.get("rl", ""), eb.get("rl", "")
    else:
        return False
    m = re.search(r"LoanError\((\w+)\)", ra)
    if not m or ("LoanError", m.group(1)) not in codes:
        return False
    return any(codes[("LoanError", m.group(1))] == codes.get((en, lab)) for lab in rb.split("|"))


def build_programs(ctx, rnd, quick, simq, rrcfgs, sim_ps, sim_rr):
    programs = []
    kinds = payload_kinds(rnd, 64)
    for i, prog in enumerate(sim_ps):
        # the behaviour is the sequence of `out` records of the model: keep the call and its arguments
        prog = [{k: v for k, v in a.items() if k in ("a", "p", "s", "id", "buf", "req")} for a in prog
                if a.get("a") not in ("update_sub", "abandon_sub", "none")]
        programs.append(Program("ps", dict(simq, payload=kinds[i % len(kinds)], variant=("ipc", "local")[(i // 4) % 2]), prog, "tlc"))
    for i in range(10 if quick else 48):
        q = ps_qos(rnd, kinds[(i + 2) % len(kinds)], ("ipc", "ipc", "local")[i % 3])
        programs.append(Program("ps", q, gen_ps_program(rnd, q, 70 if quick else 110), "seeded", order=i % 3))
    for payload, prog in KNOWN_PS:
        q = dict(maxpubs=1, maxsubs=1, bufmax=1, hist=0, borrow=1, loan=1, overflow=1, strategy="discard", payload=payload,
                 variant="ipc")
        programs.append(Program("ps", q, prog, "witness"))
    plain = [{k: v for k, v in c.items() if k not in ("nreq", "nresp")} for c in rrcfgs]
    for prog in sim_rr:
        programs.append(Program("rr", plain[0], prog, "tlc"))
    for c, dc in zip(rrcfgs, plain):
        for i in range(6 if quick else 24):
            programs.append(Program("rr", dc, gen_rr_program(rnd, c, 50 if quick else 80), "seeded", order=i % 2))
    for prog in KNOWN_RR:
        programs.append(Program("rr", plain[0], prog, "witness"))
    for i in range(6 if quick else 24):
        c = dict(variant=("ipc", "local")[i % 2], maxid=rnd.choice((3, 7, 15)), max_notifiers=rnd.choice((1, 2, 3)), max_listeners=1)
        programs.append(Program("ev", c, gen_ev_program(rnd, c, 40 if quick else 80), "seeded", order=i % 2))
    return programs


def run(ctx):
    quick = ctx.quick
    rnd = random.Random(ctx.seed * 7919 + 18)
    vp.cargo_build([TAB])
    vp.cargo_build([DRV])
    ctx.assumptions += [
        "sequential programs executed by one thread in one process; C and Rust participants share the process",
        "IPC = ipc::Service on the Rust side and iox2_service_type_e::IPC (ipc_threadsafe) on the C side",
        "channel / request ids are unobservable through the C API: a run that equals its Rust-only run on everything "
        "observable is validated with the channel ids of that run; a divergent run leaves them to TLC",
        "a trace that is identical (on every field a specification reads) to a validated one is not validated again",
        "per-job heap accounting compares the C-only with the Rust-only process (same jobs, same order)",
    ]
    # ---- 1. error table: dumped from the running code, clauses evaluated by TLC; side by side TLC generates programs ---
    sel = ctx.seed % 3
    simq = dict(maxpubs=2, maxsubs=3, bufmax=2, hist=2, borrow=2, loan=2, overflow=1 if sel == 0 else 0,
                strategy=("discard", "retry_fail", "retry_discard")[sel])
    rrcfgs = [dict(svc="ipc", nc=3, ns=2, ma=2, ml=1, rb=2, mb=2, mlr=1, oq=False, op=False, ff=False, msv=2, mcl=2)]
    if not quick:
        rrcfgs.append(dict(svc="local", nc=2, ns=2, ma=1, ml=2, rb=1, mb=1, mlr=2, oq=True, op=True, ff=True, msv=2, mcl=2))
    table, tsumm, codes = dump_table(ctx)
    # chunk counts of the request-response configurations, read from the running code (reset record)
    runs, _, err = execute(ctx, table, [{"pat": "rr", "cfg": c, "creator": "rust", "mode": "params", "program": []} for c in rrcfgs],
                           "params")
    if err or len(runs) != len(rrcfgs):
        raise vp.ToolError(f"parameter extraction failed: {err}")
    for c, r in zip(rrcfgs, runs):
        c["nreq"], c["nresp"] = r[0]["nreq"], r[0]["nresp"]
        if c["nreq"] < 1 or c["nresp"] < 1:
            raise vp.ToolError(f"parameter extraction failed: {r[0]}")
    nsim = 6 if quick else 24
    table_violations, sim_ps, sim_rr = parallel([(error_table, (ctx, table, tsumm)),
                                                 (simulate_ps, (ctx, simq, nsim, 36 if quick else 60)),
                                                 (simulate_rr, (ctx, rrcfgs[0], nsim, 40 if quick else 60))], 3)
    for v in table_violations:
        ctx.report(v)

    # ---- 2. programs; a first Rust-only pass cuts generated programs before a copy-send at the loan limit ----------
    programs = build_programs(ctx, rnd, quick, simq, rrcfgs, sim_ps, sim_rr)
    runs, _, err = execute(ctx, table, [job_of(pr, "rust", i) for i, pr in enumerate(programs)], "pass1-rust")
    if err or len(runs) != len(programs):
        raise vp.ToolError(f"the Rust-only reference pass failed: {err} ({len(runs)} of {len(programs)} runs)")
    # (until bf6e4d3 generated programs were cut before a copy-send at the loan limit - the error-space defect of the
    # *_send_copy functions; it is repaired, nothing is cut any more)
    ctx.coverage["programs_with_a_copy_send_at_the_loan_limit"] = sum(
        1 for pr, r in zip(programs, runs) if copy_send_loan_failure(pr.pat, r) is not None)

    # ---- 3. execution: Rust-only, C-only, mixed ---------------------------------------------------------------------
    by_mode = {}
    for i, pr in enumerate(programs):
        for mode in modes_of(pr, i, quick):
            by_mode.setdefault(mode, []).append((i, pr))
    counts, crashes = {}, []
    heap_by_mode = {}
    for mode, items in sorted(by_mode.items()):
        jobs = [job_of(pr, mode, i) for i, pr in items]
        runs, summ, err = execute(ctx, table, jobs, f"mode-{mode}")
        if err:
            k = max(len(runs) - 1, 0)      # the run that was being executed when the driver died
            i, pr = items[min(k, len(items) - 1)]
            crashes.append((mode, i, err))
            ctx.report(vp.Violation(
                f"the driver died while executing program #{i} ({pr.pat}, {pr.origin}) in mode {mode}: {err}",
                replay={"kind": "crash", "mode": mode, "job": jobs[min(k, len(jobs) - 1)],
                        "trace": [describe(e) for e in (runs[k] if runs else [])][-60:]},
                signature=f"crash:{pr.pat}:{mode}"))
            runs = runs[:k]
        else:
            for key, v in summ["counts"].items():
                counts[key] = counts.get(key, 0) + v
            if summ["panics"]:
                ctx.note(f"{summ['panics']} run(s) in mode {mode} ended in a panic of the code under test")
        for (i, pr), r in zip(items, runs):
            pr.runs[mode] = r
        if not err and len(summ.get("heap", [])) == len(items):
            heap_by_mode[mode] = [(i, h[0]) for (i, _), h in zip(items, summ["heap"])]
        ctx.evaluations += len(runs)
    # ---- 3b. "dropping a C handle releases exactly the object it wraps (no leak ...)": the driver counts the heap blocks
    # that a job leaves behind after everything was dropped (counting global allocator); the C-only process executes
    # the same jobs in the same order as the Rust-only process, so the per-job numbers must agree (they do, exactly,
    # on a tree without leaks: one-time allocations happen in the same job in both processes)
    hr, hc = heap_by_mode.get("rust"), heap_by_mode.get("c")
    if hr and hc:
        n = 0
        while n < min(len(hr), len(hc)) and hr[n][0] == hc[n][0]:
            n += 1
        excess = [(hr[k][0], hc[k][1] - hr[k][1]) for k in range(n) if hc[k][1] > hr[k][1]]
        ctx.coverage["heap_accounting"] = {"jobs_compared": n, "jobs_where_the_c_front_end_leaves_more_blocks": len(excess)}
        if excess:
            i = excess[0][0]
            pr = programs[i]
            acts = {}
            for e in pr.runs.get("c", []):
                if e.get("k") == "op" and e.get("r") not in (None, "ok", "some", "none"):
                    acts[f"{e.get('a')}:{e.get('r')}"] = acts.get(f"{e.get('a')}:{e.get('r')}", 0) + 1
            ctx.report(vp.Violation(
                f"heap accounting: in {len(excess)} of {n} programs the C front end leaves more heap blocks behind than the Rust "
                f"front end after everything was dropped (e.g. program #{i} ({pr.pat}, {pr.origin}): {excess[0][1]} blocks more; "
                f"failing calls in that run: {acts}) - a C call leaks the storage of a handle it never hands out, or a drop "
                f"function does not release what it wraps",
                replay={"kind": "leak", "program": i, "pat": pr.pat, "excess_blocks_per_program": excess[:40],
                        "job": job_of(pr, "c", i)},
                signature=f"leak:c:{pr.pat}"))
    ctx.coverage["programs"] = sum(1 for pr in programs if "rust" in pr.runs and "c" in pr.runs)
    ctx.coverage["executions"] = ctx.evaluations
    ctx.distinct = len({json.dumps([pr.pat, pr.cfg, pr.prog], sort_keys=True) for pr in programs})
    ctx.coverage["programs_by_origin"] = {f"{p}:{o}": sum(1 for pr in programs if pr.pat == p and pr.origin == o)
                                          for p in ("ps", "rr", "ev") for o in ("tlc", "seeded", "witness")
                                          if any(pr.pat == p and pr.origin == o for pr in programs)}
    ctx.coverage["payload_kinds"] = sorted({pr.cfg["payload"] for pr in programs if pr.pat == "ps"})
    ctx.coverage["actions_through_c"] = {k[2:]: v for k, v in sorted(counts.items()) if k.startswith("c:")}
    ctx.coverage["actions_through_rust"] = {k[5:]: v for k, v in sorted(counts.items()) if k.startswith("rust:")}

    # ---- 4. comparison: all traces of one program must be equal event by event -----------------------------------------
    divergent = []      # (program index, mode, index of first differing event, key, rust value, other value)
    equal_runs = {}     # program index -> number of runs identical to the Rust-only run (itself included)
    for i, pr in enumerate(programs):
        ref = pr.runs.get("rust")
        if ref is None:
            continue
        equal_runs[i] = 1
        for mode, r in pr.runs.items():
            if mode == "rust":
                continue
            d = first_difference(ref, r, mixed=mode not in ("rust", "c"))
            if d:
                divergent.append((i, mode) + d)
            else:
                equal_runs[i] += 1
    ctx.coverage["runs_identical_to_their_rust_only_run"] = sum(equal_runs.values()) - len(equal_runs)
    ctx.coverage["disagreements_checked"] = len(divergent)

    # ---- 5. validation by TLC: the Rust-only run of every program (= every run identical to it) and, on its own,
    #         the prefix of every divergent run up to and including the first event that differs ------------------------
    plain = [{k: v for k, v in c.items() if k not in ("nreq", "nresp")} for c in rrcfgs]
    batches = []   # (pat, tag, rrcfg, [program index])
    for pat in ("ps", "ev"):
        idx = [i for i, pr in enumerate(programs) if pr.pat == pat and "rust" in pr.runs]
        if idx:
            batches.append((pat, pat, None, idx))
    for ci, (c, dc) in enumerate(zip(rrcfgs, plain)):
        idx = [i for i, pr in enumerate(programs) if pr.pat == "rr" and pr.cfg == dc and "rust" in pr.runs]
        if idx:
            batches.append(("rr", f"rr{ci}", c, idx))
    jobs = [(validate, (ctx, pat, [programs[i].runs["rust"] for i in idx], tag, c, [equal_runs[i] for i in idx]))
            for pat, tag, c, idx in batches]
    for (i, mode, at, *_r) in divergent:
        pr = programs[i]
        ref, oth = pr.runs["rust"], pr.runs[mode]
        prefix = []
        for k, e in enumerate(oth[:at + 1]):
            e = dict(e)
            if pr.pat == "rr" and k < at and k < len(ref) and e.get("k") == "op":
                e["ch"], e["rid"] = ref[k].get("ch", -1), ref[k].get("rid", -1)     # same observables, same channel
            prefix.append(e)
        c = next((c for c, dc in zip(rrcfgs, plain) if dc == pr.cfg), None)
        jobs.append((validate, (ctx, pr.pat, [prefix], f"div-{i}-{mode}", c)))
    results = parallel(jobs, 4 if quick else 6)
    spec_rejected = {}     # (program index, mode) -> (rel, record, invariant)
    for (pat, tag, c, idx), rej in zip(batches, results[:len(batches)]):
        for (k, rel, record, inv) in rej:
            spec_rejected[(idx[k], "rust")] = (rel, record, inv)
    for (i, mode, *_r), rej in zip(divergent, results[len(batches):]):
        if rej:
            spec_rejected[(i, mode)] = rej[0][1:]

    # ---- 6. classification -------------------------------------------------------------------------------------------------
    for (i, mode, idx, key, va, vb) in divergent:
        pr = programs[i]
        ref, oth = pr.runs["rust"], pr.runs[mode]
        rej_ref, rej_oth = spec_rejected.get((i, "rust")), spec_rejected.get((i, mode))
        if rej_ref and rej_ref[0] > idx + 1:
            rej_ref = None                 # the Rust-only run is explained up to the point of disagreement
        ea = ref[idx] if idx < len(ref) else {}
        eb = oth[idx] if idx < len(oth) else {}
        action = eb.get("via") if eb.get("via") not in (None, "loan", "send") else eb.get("a", ea.get("a", "end"))
        if eb.get("k") == "end" or ea.get("k") == "end":
            action = "end"
        if rej_oth and not rej_ref:
            side = f"the {mode} trace is not explainable by the specification (first unexplained: {describe(rej_oth[1])}" \
                   + (f", invariant {rej_oth[2]}" if rej_oth[2] else "") + "), the Rust-only trace is"
        elif rej_ref and not rej_oth:
            side = "the RUST-only trace is not explainable by the specification, the other one is"
        elif rej_ref and rej_oth:
            side = "neither trace is explainable by the specification"
        else:
            side = "the specification explains both traces (the observable is fixed by the property statement only)"
        sig = f"api:{pr.pat}:{action}:{key}:{va}->{vb}"
        if rej_oth and not rej_ref and known_copy_send(codes, pr.pat, ea, eb, key):
            sig = "behaviour:send_copy:LoanError-code-in-send_error-space"
        ctx.report(vp.Violation(
            f"{pr.pat} program #{i} ({pr.origin}): Rust-only and {mode} runs disagree at event {idx} on `{key}`: "
            f"{va!r} (Rust) vs {vb!r} ({mode}); {side}",
            replay={"kind": "disagreement", "pattern": pr.pat, "mode": mode, "cfg": pr.cfg, "order": pr.order,
                    "program": pr.prog, "job_rust": job_of(pr, "rust", i), "job_other": job_of(pr, mode, i),
                    "event_index": idx, "field": key, "rust_value": va, "other_value": vb,
                    "trace_rust": [describe(e) for e in ref[:idx + 2]][-40:],
                    "trace_other": [describe(e) for e in oth[:idx + 2]][-40:],
                    "spec_verdict_rust": "rejected" if rej_ref else "accepted",
                    "spec_verdict_other": "rejected" if rej_oth else "accepted"},
            signature=sig))
    div_prog = {i for (i, *_r) in divergent}
    for (i, mode), (rel, record, inv) in sorted(spec_rejected.items()):
        if mode != "rust" or (i in div_prog and rel > min(d[2] for d in divergent if d[0] == i)):
            continue
        # the Rust-only run (and every run identical to it) is not explained by the reference specification: the same
        # behaviour through both APIs - not a C18 matter, reported by the owner of that specification
        pr = programs[i]
        ctx.note(f"{pr.pat} program #{i} ({pr.origin}): the Rust-only run and the {equal_runs[i] - 1} runs identical to it are "
                 f"rejected by the reference specification at {describe(record)} (invariant {inv})")
        ctx.coverage.setdefault("rejected_identically_through_both_apis", []).append(
            {"pattern": pr.pat, "cfg": pr.cfg, "program": pr.prog, "first_unexplained": record, "invariant": inv})

    if not quick:
        selftest(ctx, programs, rrcfgs, plain)

    # ---- 7. samples, vacuity ---------------------------------------------------------------------------------------------------
    for pat in ("ps", "rr", "ev"):
        pr = next((p for p in programs if p.pat == pat and p.origin != "witness" and "c" in p.runs and len(p.prog) > 10), None)
        if pr:
            mixed = next((m for m in pr.runs if m not in ("rust", "c")), "c")
            ctx.sample({"pattern": pat, "origin": pr.origin, "cfg": pr.cfg,
                        "program": [json.dumps(a, sort_keys=True) for a in pr.prog[:25]],
                        f"trace[{mixed}]": [describe(e) for e in pr.runs[mixed][1:25]],
                        "end[c]": pr.runs["c"][-1], "end[rust]": pr.runs["rust"][-1]})
    missing = [k for k, alts in CORE.items() if not any(counts.get(a, 0) > 0 for a in alts)]
    if missing and not crashes:
        raise vp.ToolError(f"vacuous: core actions never exercised through the C API: {missing}; counts: {counts}")
    ctx.coverage["traces_validated"] = ctx.traces_validated
    ctx.coverage["core_actions_through_c"] = {k: sum(counts.get(a, 0) for a in alts) for k, alts in CORE.items()}
    ctx.coverage["rule"] = ("programs = generated behaviours (TLC -simulate over PubSubGen/ReqResGen, seeded generator, "
                            "known-finding witnesses) executed through BOTH APIs (Rust-only and C-only; plus mixed); "
                            "executions = program x mode runs; distinct = distinct (pattern, QoS, program); "
                            "disagreements_checked = runs that differ from their Rust-only run, each validated on its own by "
                            "TLC up to the first differing event; traces_validated = recorded runs explained completely by "
                            "the trace specification (a run identical to a validated one counts with it)")
    cleanup()


def selftest(ctx, programs, rrcfgs, plain):
    """Binding demonstration: a corrupted record must be rejected by the trace specification, and a corrupted
    field must be seen by the comparison."""
    done = {}
    for pat, pick, mutate, what in (
            ("ps", lambda e: e.get("a") == "recv" and e.get("r") == "some", lambda e: e.update(id=e["id"] + 1), "received_id_changed"),
            ("ps", lambda e: e.get("a") == "send" and e.get("r") == "ok" and e.get("n", 0) > 0, lambda e: e.update(n=e["n"] - 1), "recipients_changed"),
            ("ps", lambda e: e.get("a") == "drop_pub", lambda e: e.update(np=e["np"] + 1), "registry_count_after_drop_changed"),
            ("rr", lambda e: e.get("a") == "ReceiveResponse" and e.get("r") == "some", lambda e: e.update(pn=e["pn"] + 1), "response_routed_elsewhere"),
            ("ev", lambda e: e.get("k") == "ret" and e.get("a") == "wait" and e.get("rep"), lambda e: e.update(rep=e["rep"] + [[e["rep"][-1][0] + 1, 1]]), "phantom_event")):
        for pr in programs:
            run_ = pr.runs.get("c")
            if pr.pat != pat or pr.origin == "witness" or not run_:
                continue
            idx = [k for k, e in enumerate(run_) if pick(e)]
            if not idx:
                continue
            bad = [dict(e) for e in run_]
            mutate(bad[idx[0]])
            c = next((c for c, dc in zip(rrcfgs, plain) if dc == pr.cfg), None)
            if pat == "rr":     # a C run carries no channel ids: take those of the identical Rust-only run
                for k, e in enumerate(bad):
                    if e.get("k") == "op" and k < len(pr.runs["rust"]):
                        e["ch"], e["rid"] = pr.runs["rust"][k].get("ch", -1), pr.runs["rust"][k].get("rid", -1)
            rej = validate(ctx, pat, [bad], f"selftest-{what}", c)
            ctx.traces_validated -= 0 if rej else 1
            if not rej:
                raise vp.ToolError(f"binding self-test failed: corrupted trace ({what}) was accepted")
            if first_difference(pr.runs["rust"], bad) is None:
                raise vp.ToolError(f"binding self-test failed: corrupted field ({what}) was not seen by the comparison")
            done[what] = {"rejected_at_record": rej[0][1], "invariant": rej[0][3]}
            break
        else:
            ctx.note(f"self-test {what}: no suitable record in the traces of this run")
    ctx.coverage["selftest"] = done


def cleanup():
    try:
        for f in os.listdir("/dev/shm"):
            m = re.match(r"vf(\d+)x\d+_", f)
            if m and not os.path.exists(f"/proc/{m.group(1)}"):
                try:
                    os.remove(os.path.join("/dev/shm", f))
                except OSError:
                    pass
    except OSError:
        pass


def replay(ctx, path):
    body = json.load(open(path))
    print(json.dumps({k: body.get(k) for k in ("what", "signature", "kind", "clause", "field", "rust_value", "other_value")}, indent=1))
    vp.cargo_build([TAB])
    vp.cargo_build([DRV])
    table, tsumm, _codes = dump_table(ctx)
    if body.get("kind") == "table":
        found = [v for v in error_table(ctx, table, tsumm) if v.signature == body.get("signature")]
        print("REPRODUCED" if found else "not reproduced on the current tree")
        return 1 if found else 0
    jobs = [body[k] for k in ("job_rust", "job_other", "job") if body.get(k)]
    if not jobs:
        return 0
    runs, _, err = execute(ctx, table, jobs, "replay")
    for r in runs:
        print("-----", r[0].get("mode"))
        for e in r[1:]:
            print("  ", describe(e))
    if err:
        print("driver:", err)
        return 1
    if len(runs) == 2:
        d = first_difference(runs[0], runs[1], mixed=runs[1][0].get("mode") not in ("rust", "c"))
        print("REPRODUCED: first difference " + str(d) if d else "not reproduced on the current tree")
        return 1 if d else 0
    return 0
