"""C07 - Liveness verdicts are sound and stale cleanup is exclusive."""
import concurrent.futures
import json
import os
import random
import shutil
import subprocess
import sys

import vp

sys.path.insert(0, os.path.join(vp.HARNESS, "sysshim"))
import shimctl  # noqa: E402

META = {
    "level": "model_checking",
    "engine": "tla-sysshim-stepping",
    "technique": "TLC model checking of an implementation-shaped TLA+ spec of the process-state file protocol (one "
                 "action per system call, step sequences extracted from a sysshim log of the current code), "
                 "confirmed by stepping real guard/monitor/cleaner processes at system-call granularity and "
                 "validating their traces with TLC against the property layer",
    "text": "ProcessState.tla models the three files of iceoryx2-bb-posix process_state (context, state, owner_lock: "
            "existence, init/final permission, pid content, advisory lock holder), the guard (create / drop op "
            "sequences EXTRACTED from the LD_PRELOAD sysshim log of a dry run), the decision tree of "
            "ProcessMonitor::state() one action per system call, ProcessCleaner::new / drop, the mapping of "
            "monitoring/file_lock.rs (extracted) and the listing step of Node::list, with crashes of guard and cleaners "
            "at every step. TLC checks NoFalseDead, NoReclaimFromLive, DeadIsDetected, ExclusiveCleanup, "
            "CleanerCrashRecoverable over all interleavings. Every TLC witness/counterexample and one behaviour per "
            "reachable (guard step, monitor step[, cleaner step]) position is replayed on REAL processes by stepping "
            "them through their system calls (and killing them) with the shim; the recorded system-call traces are "
            "validated by ProcessStateTrace.tla (conformance) and the observed verdicts by ProcessPropTrace.tla "
            "(property layer, decides V1). A model counterexample is reported only if the real replay reproduces it. "
            "Refused cleaners: the REFUSAL TAILS of ProcessCleaner::new (the calls a loser performs after a failed "
            "acquire step) are extracted from stepped races of two real cleaner processes and are steps of the model; "
            "RefusedChangesNothing (a refused cleaner has not removed / created / chmod-ed / written a token file) and "
            "AbsentOnlyAfterCleanup (no 'absent' before an owner has begun to remove the files) are checked by TLC and, "
            "on real traces, by the property layer which consumes the state-changing calls of non-owning cleaners. A "
            "grid of two real cleaners (loser stopped after a calls, winner after b calls of acquire / ownership / "
            "drop, then the loser runs to its refusal, monitors ask, the winner completes or is killed, a third "
            "cleaner must recover) and fault-injected attempts (sysshim FAIL_AT on every open / lock call) are "
            "replayed on real processes.",
    "note": "Trusted: TLC; the shim's view of the libc calls (cross-checked with strace in the thorough tier); POSIX "
            "advisory record lock semantics as modelled (locks die with the process / on close, F_GETLK ignores own "
            "locks, locks work on unlinked inodes); one guard incarnation per path (inode = name) in ProcessState.tla - "
            "runs with a later incarnation (another process re-using the path while a stale cleaner holds the old "
            "files) and runs with injected failures are judged by the property layer only. The refusal tail of the "
            "F_GETLK(state) step of ProcessCleaner::new cannot be provoked with the unchanged protocol and is assumed "
            "(close what is open); the property layer judges the real calls of such a refusal anyway. The in-process "
            "tracker map (monitor inside the guard's own process) is only exercised in free runs, not modelled. "
            "Node::list level: listing step + mapping; node details handling is C04's.",
    "design_ref": "DESIGN.md 5 C07, 3.3, 3.4, 3.6, 7 (hypothesis 1)",
    "replay": True,
}

BIN = os.path.join(vp.TARGET_BIN, "drv-procstate")
PID_SIZE = 16
NAME = "7"


# ---------------------------------------------------------------------------------------------
# normalisation of sysshim records to the abstract step vocabulary (DESIGN.md 3.3)

def file_of(path):
    if path.endswith("_context"):
        return "context"
    if path.endswith("_owner_lock"):
        return "owner_lock"
    if path.endswith(".tok") or path.endswith(".node_monitor"):
        return "state"
    return "dir"


def perm_of(mode):
    return "init" if mode == 0o200 else "final"


def errname(e):
    return {0: "ok", 2: "enoent", 13: "eacces", 11: "fail", 17: "eexist"}.get(e, f"errno{e}")


def blank(k, p):
    return {"k": k, "p": p, "op": "-", "f": "-", "perm": "-", "acc": "-", "obs": "-", "ev": "-", "lv": "-", "v": "-",
            "left": "-"}


def norm_sys(r):
    """sysshim record -> abstract record (or None if it is not part of the protocol)."""
    o = blank("sys", r["p"])
    call = r["call"]
    o["f"] = file_of(r["path"])
    ok = r["ret"] >= 0
    if call == "open":
        if r["flags"] & os.O_CREAT:
            o["op"], o["perm"] = "create", perm_of(r["mode"])
        else:
            o["op"], o["acc"] = "open", ("w" if (r["flags"] & 3) in (1, 2) else "r")
        o["obs"] = "ok" if ok else errname(r["errno"])
    elif call == "fchmod":
        o["op"], o["perm"], o["obs"] = "chmod", perm_of(r["mode"]), "ok" if ok else errname(r["errno"])
    elif call == "write":
        o["op"], o["obs"] = "write", "ok" if r["ret"] == PID_SIZE else "short"
    elif call == "read":
        o["op"], o["obs"] = "read", "pid" if r["ret"] == PID_SIZE else "none"
    elif call == "fcntl":
        if r["cmd"] == "F_GETLK":
            o["op"], o["obs"] = "getlk", ("unlocked" if r["rt"] == "F_UNLCK" else "locked")
        elif r["cmd"] in ("F_SETLK", "F_SETLKW"):
            if r["lt"] == "F_UNLCK":
                o["op"], o["obs"] = "unlock", "ok" if ok else "fail"
            else:
                o["op"], o["obs"] = ("lock" if r["cmd"] == "F_SETLK" else "lockw"), "ok" if ok else "fail"
        else:
            o["op"] = "fcntl_" + r["cmd"]
    elif call == "fstat":
        o["op"], o["obs"] = "fstat", perm_of(r["mode"]) if ok else errname(r["errno"])
    elif call in ("remove", "unlink"):
        o["op"], o["obs"] = "unlink", "ok" if ok else errname(r["errno"])
    elif call == "close":
        o["op"], o["obs"] = "close", "ok"
    elif call in ("access", "stat"):
        o["op"], o["obs"] = call, "ok" if ok else errname(r["errno"])
    elif call == "opendir":
        o["op"], o["obs"] = "opendir", "ok" if ok else errname(r["errno"])
    else:
        o["op"], o["obs"] = call, "ok" if ok else errname(r["errno"])
    return o


def model_matches(mop, mf, a):
    """Does the abstract record a (of an announced / performed call) instantiate the model step (mop, mf)?"""
    if mf not in ("-", a["f"]) and not (mf == "dir" and a["f"] == "dir"):
        return False
    if mop == "openw":
        return a["op"] == "open" and a["acc"] == "w"
    if mop == "openr":
        return a["op"] == "open" and a["acc"] == "r"
    if mop == "scandir":
        return a["op"] == "opendir"
    return a["op"] == mop


# ---------------------------------------------------------------------------------------------
# one run of real processes (stepped or free)

LEVEL_CMD = {"pm": ("state", "state"), "cal": ("mstate", "mstate")}


class Run:
    """Real guard / monitors / cleaners on one fresh set of token files. All records (system calls from the shim,
    controller events) go to one file in their real order: only one process moves at a time."""

    def __init__(self, ctx, tag, levels, stepped=True, count="so", free=()):
        self.dir = ctx.path("runs", tag, "x")[:-2]
        self.tok = os.path.join(self.dir, "tok")
        os.makedirs(self.tok, exist_ok=True)
        self.roots = [os.path.join(self.tok, "v_")]
        self.log = os.path.join(self.dir, "sys.ndjson")
        open(self.log, "w").close()
        self.logf = os.open(self.log, os.O_WRONLY | os.O_APPEND)
        self.levels = levels               # monitor name -> "pm" | "cal"
        self.stepped = stepped
        self.count = count
        self.procs = {}
        self.state = {}                    # per process controller-side phase
        self.diverged = None
        self.answers = []                  # (proc, event dict)
        self.faults = {}                   # cleaner -> (k, errno): fail the k-th numbered call of its attempt
        self.free = set(free)              # processes of a stepped run that are never stopped (whole commands only)
        self.step_dir = os.path.join(self.dir, "fifo") if stepped else None

    def files_left(self):
        b = os.path.join(self.tok, f"v_{NAME}.tok")
        return "".join(ch if os.path.exists(p) else "-" for ch, p in
                       (("c", b + "_context"), ("s", b), ("o", b + "_owner_lock")))

    def emit(self, rec):
        os.write(self.logf, (json.dumps(rec, separators=(",", ":")) + "\n").encode())

    def ev(self, p, ev, **kw):
        r = blank("ev", p)
        r["ev"] = ev
        r.update(kw)
        self.emit(r)

    def proc(self, p):
        if p not in self.procs:
            role = "guard" if p.startswith("G") else ("monitor" if p.startswith("M") else "cleaner")
            self.procs[p] = shimctl.Proc([BIN, role, "--dir", self.tok, "--name", NAME], self.roots, p, self.log,
                                         self.count, step_dir=None if p in self.free else self.step_dir,
                                         stderr_path=os.path.join(self.dir, "stderr.txt"))
            self.state[p] = "new"
        return self.procs[p]

    # -- commands ---------------------------------------------------------------------------
    def begin(self, p):
        """Sends the next command of process p's life cycle; returns False if it has none left."""
        pr = self.proc(p)
        st = self.state[p]
        if p.startswith("G"):
            if st == "new":
                self.ev(p, "create_begin"); pr.send("create"); self.state[p] = "creating"
            elif st == "created":
                self.ev(p, "drop_begin"); pr.send("drop"); self.state[p] = "dropping"
            else:
                return False
        elif p.startswith("M"):
            if st in ("new", "idle"):
                self.ev(p, "qstart", lv=self.levels[p]); pr.send(LEVEL_CMD[self.levels[p]][0]); self.state[p] = "query"
            else:
                return False
        else:
            if st == "new":
                if p in self.faults:
                    k, en = self.faults[p]
                    pr.send(f"failat {k} {en}")
                    o = pr.wait_out()
                    if not o or o.get("ev") != "armed" or o.get("v") != "Ok":
                        raise vp.ToolError(f"fault injection could not be armed in {p}: {o}")
                    self.ev(p, "cstart", v="fault")
                else:
                    self.ev(p, "cstart")
                pr.send("acquire"); self.state[p] = "acquiring"
            elif st == "owner":
                self.ev(p, "cdrop_begin"); pr.send("drop"); self.state[p] = "cdropping"
            else:
                return False
        return True

    def answer(self, p, o):
        self.answers.append((p, o))
        e = o.get("ev")
        if e == "created":
            if o["v"] == "Ok":
                self.ev(p, "created"); self.state[p] = "created"
            else:
                self.ev(p, "create_failed", v=o["v"]); self.state[p] = "failed"
        elif e == "dropped":
            self.ev(p, "dropped"); self.state[p] = "gone"
        elif e in ("state", "mstate"):
            self.ev(p, "verdict", lv=self.levels[p], v=o["v"] if not o["v"].startswith("Err") else "Err")
            self.state[p] = "idle"
        elif e == "cleaner":
            v = {"ProcessIsStillAlive": "StillAlive", "OwnedByAnotherProcess": "OwnedByAnother",
                 "ProcessIsBeingCleanedUpOrCrashedDuringCleanup": "BeingCleanedUp",
                 "ProcessIsInitializedOrCrashedDuringInitialization": "Starting"}.get(o["v"], o["v"])
            if v not in ("Ok", "StillAlive", "OwnedByAnother", "BeingCleanedUp", "Starting", "DoesNotExist"):
                v = "Err"
            lockop = "-"
            for rec in reversed(shimctl.read_syslog(self.log)):
                if rec["k"] == "sys" and rec["p"] == p and rec["call"] == "fcntl" and rec["cmd"] in ("F_SETLK", "F_SETLKW"):
                    lockop = "lock" if rec["cmd"] == "F_SETLK" else "lockw"
                    break
                if rec["k"] == "ev" and rec["p"] == p and rec["ev"] == "cstart":
                    break
            self.ev(p, "cresult", v=v, left=self.files_left(), lv=lockop)
            self.state[p] = "owner" if v == "Ok" else "cfailed"
        elif e == "cleaner_dropped":
            self.ev(p, "cdropped"); self.state[p] = "cdone"

    def crash(self, p):
        r = blank("crash", p)
        self.emit(r)
        self.proc(p).kill()
        self.state[p] = "dead"

    # -- stepping ---------------------------------------------------------------------------
    def ensure_announced(self, p, may_begin=True):
        """Brings p to its next announced system call (sending its next command if may_begin). Returns the announce
        record or None when p has nothing more to do."""
        pr = self.proc(p)
        if self.state[p] == "dead":
            return None
        while pr.pending_step is None:
            if self.state[p] in ("creating", "dropping", "query", "acquiring", "cdropping"):
                pass   # in a command: the next event tells
            elif not may_begin or not self.begin(p):
                return None
            ev = pr.wait()
            if ev[0] == "out":
                self.answer(p, ev[1])
                if ev[1].get("ev") in ("quit", "error"):
                    return None
                # a command that needed no (further) tracked call: p is idle again
                return None
            if ev[0] == "exit":
                self.state[p] = "dead"
                return None
        return pr.pending_step

    def take_step(self, p):
        """Releases the announced call of p and waits until it has completed."""
        pr = self.procs[p]
        pr.token("g")
        ev = pr.wait()
        if ev[0] == "out":
            self.answer(p, ev[1])
        elif ev[0] == "exit":
            self.state[p] = "dead"

    def follow(self, schedule):
        """Executes a TLC schedule [[proc, op, file], ...]; stops following at the first divergence."""
        for i, (p, op, f) in enumerate(schedule):
            if op == "crash":
                if p not in self.procs or self.state[p] in ("dead",):
                    self.diverged = f"step {i}: crash of {p} which does not run"
                    return
                self.crash(p)
                continue
            ann = self.ensure_announced(p)
            if ann is None:
                self.diverged = f"step {i}: model expects {p} to perform {op}({f}) but the real process has no call left"
                return
            a = norm_sys(dict(ann, ret=0, errno=0, rt="F_UNLCK"))
            if not model_matches(op, f, a):
                self.diverged = f"step {i}: model expects {p}:{op}({f}), real process is about to {a['op']}({a['f']})"
                return
            self.take_step(p)

    def finish(self, p, whole_life=False):
        """Lets p complete its current command (and, if whole_life, every later command of its life cycle)."""
        if p not in self.procs and not whole_life:
            return
        while True:
            ann = self.ensure_announced(p, may_begin=whole_life or self.state[p] == "new")
            if ann is None:
                return
            self.take_step(p)

    def begin_more(self, p):
        return self.state[p] in ("created", "owner")

    def steps(self, p, n):
        """p performs its next n tracked calls (beginning the next command of its life cycle whenever it is idle);
        returns the number of calls performed (smaller when its life has fewer calls left)."""
        self.proc(p)
        done = idle = 0
        while done < n and idle < 2:
            if self.ensure_announced(p) is None:
                idle += 1
                continue
            idle = 0
            self.take_step(p)
            done += 1
        return done

    def query(self, p):
        """One complete query of monitor p, call by call."""
        self.proc(p)
        if self.state[p] not in ("new", "idle"):
            return
        first = True
        while True:
            ann = self.ensure_announced(p, may_begin=first)
            first = False
            if ann is None:
                return
            self.take_step(p)

    def run_until_done(self, p, pred, limit=400):
        """p performs calls (as steps()) until it has performed one for which pred(abstract record) holds."""
        self.proc(p)
        idle = 0
        for _ in range(limit):
            ann = self.ensure_announced(p)
            if ann is None:
                idle += 1
                if idle >= 2:
                    return False
                continue
            idle = 0
            a = norm_sys(dict(ann, ret=0, errno=0, rt="F_UNLCK"))
            self.take_step(p)
            if pred(a):
                return True
        return False

    def run_cmd(self, p):
        """Free (unstepped) execution of p's next command; returns the answer."""
        if not self.begin(p):
            return None
        o = self.procs[p].wait_out()
        if o is not None:
            self.answer(p, o)
        else:
            self.state[p] = "dead"
        return o

    def close(self):
        for pr in self.procs.values():
            pr.close()
        os.close(self.logf)

    def records(self):
        out = []
        for r in shimctl.read_syslog(self.log):
            if r["k"] == "sys":
                out.append(norm_sys(r))
            elif r["k"] == "kill":
                continue
            elif r["k"] == "fault":      # the shim's record of an injected failure (the failed "sys" record follows)
                o = blank("ev", r["p"])
                o["ev"] = "fault"
                out.append(o)
            else:
                out.append(r)
        return out


# ---------------------------------------------------------------------------------------------
# extraction of the step sequences and of the mapping from a dry run (DESIGN.md 3.3)

def op_rec(a):
    return {"op": a["op"], "f": a["f"], "perm": a["perm"] if a["op"] in ("create", "chmod") else "none"}


def extract(ctx):
    drift = []
    # guard create / drop, monitor in the quiescent situations, cleaner acquire / drop
    r = Run(ctx, "dry-1", {"M1": "pm", "M2": "cal"}, stepped=False)
    nodemap = {}
    try:
        def both(tag):
            a = r.run_cmd("M1")
            b = r.run_cmd("M2")
            if a and b:
                nodemap.setdefault(a["v"] if not a["v"].startswith("Err") else "Err", b["v"])
        both("nothing")
        n0 = len(r.records())
        r.run_cmd("G")
        recs = r.records()
        gcreate = [op_rec(a) for a in recs[n0:] if a["k"] == "sys" and a["p"] == "G"]
        both("alive")
        n1 = len(r.records())
        r.run_cmd("G")
        gdrop = [op_rec(a) for a in r.records()[n1:] if a["k"] == "sys" and a["p"] == "G"]
    finally:
        r.close()
    r = Run(ctx, "dry-2", {"M1": "pm", "M2": "cal"}, stepped=False)
    try:
        r.run_cmd("G")
        r.crash("G")
        a = r.run_cmd("M1"); b = r.run_cmd("M2")
        nodemap.setdefault(a["v"], b["v"])
        n0 = len(r.records())
        r.run_cmd("C1")
        acq = [x for x in r.records()[n0:] if x["k"] == "sys" and x["p"] == "C1"]
        a = r.run_cmd("M1"); b = r.run_cmd("M2")
        nodemap.setdefault(a["v"], b["v"])
        n1 = len(r.records())
        r.run_cmd("C1")
        cdrop = [op_rec(x) for x in r.records()[n1:] if x["k"] == "sys" and x["p"] == "C1"]
    finally:
        r.close()
    # the acquire part follows the embedded state(): it starts at the first open of the context file after the
    # state file has been closed
    cut = None
    for i, x in enumerate(acq):
        if x["op"] == "close" and x["f"] == "state":
            cut = i + 1
            break
    if cut is None:
        drift.append("cleaner: embedded state() did not end with close(state)")
        cacq = []
    else:
        cacq = [op_rec(x) for x in acq[cut:]]
        for o in cacq:
            if o["op"] not in ("open", "getlk", "lock", "lockw"):
                drift.append(f"cleaner acquire: unexpected step {o}")
    # Starting: a guard stopped before the last step of its creation
    r = Run(ctx, "dry-3", {"M1": "pm", "M2": "cal"}, stepped=True)
    try:
        r.follow([["G", o["op"], o["f"]] for o in gcreate[:2]])     # context file created, nothing else yet
        a = r.run_cmd("M1"); b = r.run_cmd("M2")
        if a and b:
            nodemap.setdefault(a["v"], b["v"])
        if r.diverged:
            drift.append("dry run 3: " + r.diverged)
    finally:
        r.close()
    for v in ("Alive", "Dead", "CleaningUp", "DoesNotExist", "Starting"):
        if v not in nodemap:
            drift.append(f"mapping of {v} could not be observed")
    nodemap.setdefault("Err", "Undefined")
    for v in ("Alive", "Dead", "CleaningUp", "DoesNotExist", "Starting"):
        nodemap.setdefault(v, "Undefined")
    for seq, nm in ((gcreate, "guard create"), (gdrop, "guard drop"), (cdrop, "cleaner drop")):
        for o in seq:
            if o["op"] not in ("create", "chmod", "write", "lock", "lockw", "unlink", "close") or o["f"] == "dir":
                drift.append(f"{nm}: step outside the vocabulary {o}")
    refuse, how, refuse_gone = extract_refusals(ctx, cacq, cut or 0, drift)
    return {"GuardCreate": gcreate, "GuardDrop": gdrop, "CleanerAcquire": cacq, "CleanerDrop": cdrop,
            "CleanerRefuse": refuse, "CleanerRefuseGone": refuse_gone, "RefuseHow": how, "NState": cut or 0, "AcquireCalls": acq,
            "NodeMap": nodemap}, drift


def extract_refusals(ctx, cacq, nstate, drift):
    """The REFUSED paths of ProcessCleaner::new: for every step j of the acquire part, the calls the cleaner performs
    AFTER that step has failed (before it returns its error) - its refusal tail. Extracted from races of two real
    cleaner processes stepped call by call: the loser C2 is stopped before its step j, the winner C1 acquires the
    files (and, for an open step, drops them until the file of step j is unlinked), then C2 runs to its result.
    A step whose failure cannot be provoked with the unchanged protocol (F_GETLK of the state file: the guard is
    dead; a blocking lock) gets the tail "close what is open, in reverse order"; a real trace that differs is DRIFT
    of the state layer, the property layer judges the real calls anyway."""
    tails, how, gone_tails = [], [], []

    def race(j, o, gone):
        """the tail of step j; gone: the winner has already unlinked the file of (lock) step j"""
        r = Run(ctx, f"dry-refuse-{j}{'g' if gone else ''}", {}, stepped=True, free=("G",))
        tail = None
        try:
            r.run_cmd("G")
            r.crash("G")
            if r.steps("C2", nstate + j - 1) != nstate + j - 1:
                drift.append(f"refusal of acquire step {j}: the loser has fewer calls than expected")
            else:
                r.proc("C1")
                r.finish("C1")
                ok = r.state.get("C1") == "owner"
                if ok and (o["op"] == "open" or gone):
                    ok = r.run_until_done("C1", lambda a: a["op"] == "unlink" and a["f"] == o["f"])
                n0 = len(r.records())
                r.finish("C2")
                mine = [x for x in r.records()[n0:] if x["k"] == "sys" and x["p"] == "C2"]
                res = [x for x in r.records()[n0:] if x["k"] == "ev" and x["p"] == "C2" and x["ev"] == "cresult"]
                if not ok or not mine or mine[0]["op"] != o["op"] or mine[0]["f"] != o["f"] \
                        or mine[0]["obs"] not in ("enoent", "fail") or not res or res[0]["v"] == "Ok":
                    drift.append(f"refusal of acquire step {j} ({o['op']} {o['f']}) could not be provoked: "
                                 f"{[(x['op'], x['f'], x['obs']) for x in mine[:3]]} {[x['v'] for x in res]}")
                else:
                    tail = [op_rec(x) for x in mine[1:]]
        except shimctl.Hang as e:
            drift.append(f"refusal of acquire step {j}: {e}")
        finally:
            r.close()
        shutil.rmtree(r.dir, ignore_errors=True)
        for x in tail or []:
            if x["op"] not in ("fstat", "close", "unlink", "chmod", "unlock") or x["f"] == "dir":
                drift.append(f"refusal tail of acquire step {j}: step outside the vocabulary {x}")
        return tail

    for j, o in enumerate(cacq, start=1):
        opened = [x["f"] for x in cacq[:j - 1] if x["op"] == "open"]
        default = [{"op": "close", "f": f, "perm": "none"} for f in reversed(opened)]
        tail = race(j, o, False) if o["op"] in ("open", "lock") else None
        tails.append(default if tail is None else tail)
        how.append("assumed" if tail is None else "extracted")
        # the lock step failing on a file that has lost its name (the winner holds the lock and has unlinked it)
        gtail = race(j, o, True) if o["op"] == "lock" and tail is not None else None
        gone_tails.append(tails[-1] if gtail is None else gtail)
    return tails, how, gone_tails


# ---------------------------------------------------------------------------------------------
# TLC instances

def tla_seq(ops):
    return "<< " + ", ".join(f'[op |-> "{o["op"]}", f |-> "{o["f"]}", perm |-> "{o["perm"]}"]' for o in ops) + " >>"


def tla_set(xs):
    return "{" + ", ".join(f'"{x}"' for x in xs) + "}"


def tla_seqseq(seqs):
    return "<< " + ", ".join(tla_seq(x) for x in seqs) + " >>"


def tla_sig(s):
    return "<<" + ", ".join(f'"{x}"' for x in s) + ">>"


def write_mc(ctx, name, ext, base, cfgd, invariants, excused, trace=False):
    d = ctx.path("mc", name, "x")[:-2]
    lv = cfgd.get("levels", {})
    level = "[m \\in Monitors |-> " + "".join(f'IF m = "{m}" THEN {tla_set(l)} ELSE ' for m, l in lv.items()) + '{"pm"}]'
    nm = "[" + ", ".join(f'{k} |-> "{v}"' for k, v in sorted(ext["NodeMap"].items())) + "]"
    with open(os.path.join(d, name + ".tla"), "w") as f:
        f.write(f"---- MODULE {name} ----\nEXTENDS {base}\n"
                f"GuardCreateSeq == {tla_seq(ext['GuardCreate'])}\nGuardDropSeq == {tla_seq(ext['GuardDrop'])}\n"
                f"CleanerAcquireSeq == {tla_seq(ext['CleanerAcquire'])}\nCleanerDropSeq == {tla_seq(ext['CleanerDrop'])}\n"
                f"CleanerRefuseSeq == {tla_seqseq(ext['CleanerRefuse'])}\n"
                f"CleanerRefuseGoneSeq == {tla_seqseq(ext['CleanerRefuseGone'])}\n"
                f"NodeMapVal == {nm}\nLevelsVal == {level}\n"
                f"ExcusedVal == {{{', '.join(tla_sig(s) for s in excused)}}}\n"
                f"CrashPhasesVal == {tla_set(cfgd.get('crash', []))}\n====\n")
    with open(os.path.join(d, name + ".cfg"), "w") as f:
        f.write(("SPECIFICATION TraceSpec\n" if trace else "SPECIFICATION Spec\n") + "CONSTANTS\n"
                " GuardCreate <- GuardCreateSeq\n GuardDrop <- GuardDropSeq\n CleanerAcquire <- CleanerAcquireSeq\n"
                " CleanerDrop <- CleanerDropSeq\n CleanerRefuse <- CleanerRefuseSeq\n CleanerRefuseGone <- CleanerRefuseGoneSeq\n NodeMap <- NodeMapVal\n Levels <- LevelsVal\n Excused <- ExcusedVal\n"
                " GuardCrashPhases <- CrashPhasesVal\n"
                f" Monitors = {tla_set(cfgd.get('monitors', []))}\n Cleaners = {tla_set(cfgd.get('cleaners', []))}\n"
                f" Privileged = {'TRUE' if cfgd.get('priv', True) else 'FALSE'}\n"
                f" MaxQueries = {cfgd.get('queries', 1)}\n"
                f" GuardMayDrop = {'TRUE' if cfgd.get('drop', True) else 'FALSE'}\n"
                f" CleanerMayCrash = {'TRUE' if cfgd.get('ccrash', False) else 'FALSE'}\n"
                f" CleanersAfterCrash = {'TRUE' if cfgd.get('after', False) else 'FALSE'}\n"
                f" ExcuseAll = {'TRUE' if cfgd.get('excuse_all', False) else 'FALSE'}\n"
                + ("CONSTRAINT Progress\nPOSTCONDITION Accepted\n" if trace else "VIEW view\n")
                + f"INVARIANTS {' '.join(invariants)}\nCHECK_DEADLOCK FALSE\n")
    return d


INVS = ["TypeOK", "NoFalseDead", "NoReclaimFromLive", "DeadIsDetected", "ExclusiveCleanup", "CleanerCrashRecoverable",
        "RefusedChangesNothing", "AbsentOnlyAfterCleanup"]
PROP_INVS = INVS[1:]
ALL_PHASES = ["startup", "running", "shutdown"]


def parse_prints(res, key):
    out = []
    for line in res.prints:
        if line.startswith(f'<<"{key}", "'):
            body = line[len(f'<<"{key}", "'):-3]
            try:
                out.append(json.loads(body.encode().decode("unicode_escape")))
            except ValueError:
                pass
    return out


def sig_str(s):
    return ":".join(str(x) for x in s)


def known_sigs(ctx):
    out = []
    for k in vp.load_known_findings():
        if k.get("property") == ctx.pid and k.get("status") == "known" and k.get("signature"):
            out.append(k["signature"].split(":"))
    return out


# ---------------------------------------------------------------------------------------------
# replay of schedules on real processes

def levels_of(cfgd):
    lv = dict(cfgd.get("levels", {}))
    for m in cfgd.get("monitors", []):
        lv.setdefault(m, "pm")
    return lv


def replay_schedule(ctx, tag, schedule, levels, cont="M", also=()):
    """Runs the schedule on real processes, then completes everybody: cont = "M" observers first, "G" guard first
    (its whole life, i.e. including the drop)."""
    levels = {m: (l if l != "node" else "cal") for m, l in levels.items()}
    r = Run(ctx, tag, levels, stepped=True)
    hang = None
    try:
        r.follow(schedule)
        # a TLC witness ends BEFORE the step that completes the violation: when that is the first step of a process,
        # the process has not been started yet - the processes of the configuration that have not run do so now
        for p in also:
            if p not in r.procs and not r.diverged:
                r.proc(p)
        observers = sorted(p for p in r.procs if p != "G")
        if cont == "G" and "G" in r.procs:
            r.finish("G", whole_life=any(op in ("unlink",) for p, op, f in schedule if p == "G"))
        for p in observers:
            r.finish(p)
        # cleaners that own the files drop them
        for p in observers:
            if r.state.get(p) == "owner":
                r.finish(p, whole_life=True)
        if "G" in r.procs:
            r.finish("G")
        recs = r.records()
    except shimctl.Hang as e:
        hang = str(e)
        recs = r.records()
    finally:
        r.close()
    shutil.rmtree(r.dir, ignore_errors=True)
    return {"tag": tag, "records": recs, "diverged": r.diverged, "hang": hang, "answers": r.answers,
            "schedule": schedule, "cont": cont, "levels": levels}


def trace_files(ctx, runs, name):
    recs, starts = [], []
    for r in runs:
        starts.append(len(recs) + 1)
        recs.append(blank("reset", "-"))
        recs.extend(r["records"])
    path = ctx.path("traces", name + ".ndjson")
    vp.write_ndjson(path, recs)

    def run_of(pos):
        k = 0
        for i, s in enumerate(starts):
            if s <= pos:
                k = i
        return k
    return path, run_of


def names_in(runs):
    mons = sorted({m for r in runs for m in r["levels"]} | {"M1"})
    cls = sorted({x["p"] for r in runs for x in r["records"] if x["p"].startswith("C")} | {"C1"})
    return mons, cls


def validate_prop(ctx, runs, name, excused):
    """Property layer (decides V1). Returns {signature: [run indices]} of everything recorded, excused or not.
    An unexcused signature fails the named invariant; it is then excused and the batch is validated again, so
    that every run is judged."""
    path, run_of = trace_files(ctx, runs, name)
    mons, cls = names_in(runs)
    excused = [list(s) for s in excused]
    found, failed = {}, []
    for attempt in range(12):
        d = ctx.path("tr", f"{name}_prop{attempt}", "x")[:-2]
        mod = f"TP_{name}_{attempt}"
        with open(os.path.join(d, mod + ".tla"), "w") as f:
            f.write(f"---- MODULE {mod} ----\nEXTENDS ProcessPropTrace\n"
                    f"ExcusedVal == {{{', '.join(tla_sig(s) for s in excused)}}}\n====\n")
        with open(os.path.join(d, mod + ".cfg"), "w") as f:
            f.write("SPECIFICATION TraceSpec\nCONSTANTS\n"
                    f" Monitors = {tla_set(mons)}\n Cleaners = {tla_set(cls)}\n Excused <- ExcusedVal\n"
                    "CONSTRAINT Progress\nPOSTCONDITION Accepted\n"
                    f"INVARIANTS {' '.join(PROP_INVS)}\nCHECK_DEADLOCK FALSE\n")
        pv = vp.tlc_trace(d, mod, path, libs=["process"])
        vp.record_tlc(ctx, f"ProcessPropTrace[{name}#{attempt}]", pv.res, count=False)
        for w in parse_prints(pv.res, "WITNESS"):
            ks = found.setdefault(tuple(w[0]), [])
            k = run_of(w[1])
            if k not in ks:
                ks.append(k)
        if pv.accepted:
            return found, failed
        if pv.invariant:
            new = [s for s in found if list(s) not in excused]
            if not new:
                raise vp.ToolError(f"{pv.invariant} failed on trace {name} without a recorded signature")
            for s in new:
                failed.append((pv.invariant, s))
                excused.append(list(s))
            continue
        raise vp.ToolError(f"ProcessPropTrace could not consume record {pv.pos} of {name}: {pv.record}")
    raise vp.ToolError("more than 12 distinct violation signatures in real traces")


def validate_state(ctx, ext, runs, name):
    """Implementation-shaped layer: conformance of every system call and verdict (a rejection is DRIFT)."""
    path, run_of = trace_files(ctx, runs, name)
    mons, cls = names_in(runs)
    d2 = write_mc(ctx, "TS_" + name, ext, "ProcessStateTrace",
                  {"monitors": mons, "cleaners": cls, "levels": {m: ["pm", "cal"] for m in mons}, "queries": 99,
                   "crash": ALL_PHASES, "ccrash": True, "drop": True, "excuse_all": True}, ["TypeOK"], [], trace=True)
    sv = vp.tlc_trace(d2, "TS_" + name, path, libs=["process"])
    vp.record_tlc(ctx, f"ProcessStateTrace[{name}]", sv.res, count=False)
    return sv, run_of


# ---------------------------------------------------------------------------------------------

def describe(run):
    """Human readable interleaving of a replayed run."""
    out = []
    for a in run["records"]:
        if a["k"] == "sys":
            out.append(f"{a['p']}:{a['op']}({a['f']})" + (f"={a['obs']}" if a["obs"] not in ("ok", "-") else ""))
        elif a["k"] == "crash":
            out.append(f"{a['p']}:KILLED")
        elif a["k"] == "ev" and a["ev"] in ("verdict", "cresult"):
            out.append(f"{a['p']}:{a['ev']}={a['v']}")
    return out


INV_OF = {"falsedead": "NoFalseDead", "reclaim": "NoReclaimFromLive", "undetected": "DeadIsDetected",
          "exclusive": "ExclusiveCleanup", "loser": "ExclusiveCleanup", "unrecoverable": "CleanerCrashRecoverable",
          "refused": "RefusedChangesNothing", "vanished": "AbsentOnlyAfterCleanup"}


def model_check(ctx, ext, known, quick):
    mon3 = {"M1": ["pm", "cal", "node"]}
    if quick:
        configs = [
            ("monitor", {"monitors": ["M1"], "levels": mon3, "crash": ALL_PHASES, "reach": True}),
            ("monitor_unpriv", {"monitors": ["M1"], "levels": mon3, "crash": ALL_PHASES, "priv": False}),
            ("reclaim", {"cleaners": ["C1"], "crash": ALL_PHASES}),
            ("cleaners2", {"cleaners": ["C1", "C2"], "crash": ["running"], "ccrash": True, "after": True, "drop": False}),
        ]
    else:
        configs = [
            ("monitor", {"monitors": ["M1"], "levels": mon3, "crash": ALL_PHASES, "reach": True, "queries": 2}),
            ("monitor_unpriv", {"monitors": ["M1"], "levels": mon3, "crash": ALL_PHASES, "priv": False, "queries": 2}),
            ("two_monitors", {"monitors": ["M1", "M2"], "levels": {"M1": ["pm"], "M2": ["node"]}, "crash": ALL_PHASES}),
            ("reclaim", {"cleaners": ["C1"], "crash": ALL_PHASES, "ccrash": True}),
            ("mon_cleaner", {"monitors": ["M1"], "cleaners": ["C1"], "levels": {"M1": ["pm"]}, "crash": ALL_PHASES,
                             "ccrash": True}),
            # triples (guard step, monitor step, cleaner step) with crashes of guard and cleaner, for the replay
            ("triples", {"monitors": ["M1"], "cleaners": ["C1"], "levels": {"M1": ["pm"]}, "crash": ["running", "shutdown"],
                         "ccrash": True, "after": True, "reach": True}),
            ("cleaners2", {"cleaners": ["C1", "C2"], "crash": ALL_PHASES, "ccrash": True}),
            # one behaviour per reachable pair of positions of two cleaners (incl. refusal tails and crashes), for the replay
            ("cleaners2_reach", {"cleaners": ["C1", "C2"], "crash": ["running"], "ccrash": True, "after": True,
                                 "drop": False, "reach": True}),
            # a monitor reading while two cleaners race (one of them is refused)
            ("mon_cleaners2", {"monitors": ["M1"], "cleaners": ["C1", "C2"], "levels": {"M1": ["pm", "cal"]},
                               "crash": ["running"], "ccrash": False, "after": True, "drop": False,
                               "simulate": "num=4000"}),      # exhaustive: 18 M states
            # 3 and 4 concurrent cleaners: random behaviours (TLC -simulate), the exhaustive instances are too large
            ("cleaners3", {"cleaners": ["C1", "C2", "C3"], "crash": ["running"], "ccrash": True, "after": True,
                           "drop": False, "simulate": "num=3000"}),
            ("cleaners4", {"cleaners": ["C1", "C2", "C3", "C4"], "crash": ["running"], "ccrash": False, "after": True,
                           "drop": False, "simulate": "num=2000"}),
        ]
    witnesses, reach, failed, unpriv_only = {}, {}, [], {}

    def one(cname, cfgd):
        out = {"wit": [], "reach": None, "failed": [], "runs": []}
        for attempt in (0, 1):
            c = dict(cfgd, excuse_all=(attempt == 1))
            name = f"MC_{cname}_{attempt}"
            want_reach = bool(cfgd.get("reach"))
            d = write_mc(ctx, name, ext, "ProcessState", c, INVS + (["Reach"] if want_reach else []),
                         [list(s) for s in known])
            res = vp.tlc(d, name, workers=1 if want_reach else 4, timeout=900 if quick else 3000, libs=["process"],
                         simulate=cfgd.get("simulate"), extra=(["-depth", "200", "-seed", str(ctx.seed)] if cfgd.get("simulate") else None))
            out["runs"].append((f"ProcessState[{cname}{' all signatures' if attempt else ''}]", res))
            if res.timed_out:
                raise vp.ToolError(f"TLC timed out on {name}")
            out["wit"] += parse_prints(res, "WITNESS")
            if want_reach:    # the run that visits every state is the last one
                out["reach"] = parse_prints(res, "REACH")
            if res.violated:
                if res.violated not in INVS or attempt == 1:
                    raise vp.ToolError(f"TLC: unexpected violation {res.violated} in {name}\n{res.output[-2000:]}")
                out["failed"].append(res.violated)
                continue      # second run: collect every signature of this configuration
            if not res.ok:
                raise vp.ToolError(f"TLC failed on {name}: {res.error}\n{res.output[-3000:]}")
            need = ["GCreateStep"] + (["GDropStep"] if cfgd.get("drop", True) else []) \
                + (["GCrash"] if cfgd.get("crash") else []) \
                + (["MonStep"] if cfgd.get("monitors") else []) \
                + (["CStateStep", "CAcqStep", "CDropStep"] if cfgd.get("cleaners") else []) \
                + (["CRefuseStep"] if len(cfgd.get("cleaners", [])) > 1 and not cfgd.get("monitors") else []) \
                + (["CCrash"] if cfgd.get("ccrash") else [])
            if not cfgd.get("simulate"):
                vp.check_action_coverage(res, need, name)
            break
        return out

    with concurrent.futures.ThreadPoolExecutor(max_workers=3) as ex:
        futs = [(cname, cfgd, ex.submit(one, cname, cfgd)) for cname, cfgd in configs]
        for cname, cfgd, f in futs:
            out = f.result()
            for nm, res in out["runs"]:
                vp.record_tlc(ctx, nm, res)
            for w in out["wit"]:
                s = tuple(w[0])
                if not cfgd.get("priv", True):
                    # schedules of an unprivileged observer cannot be replayed by this (root) harness
                    unpriv_only.setdefault(s, cname)
                    continue
                if s not in witnesses or len(w[1]) < len(witnesses[s][0]):
                    witnesses[s] = (w[1], cname, cfgd)
            if out["reach"] is not None:
                reach[cname] = (out["reach"], cfgd)
            for inv in out["failed"]:
                failed.append((cname, inv))
    for s, cname in unpriv_only.items():
        if s not in witnesses:
            ctx.note(f"signature {sig_str(s)} is reachable only for an unprivileged observer (configuration {cname}); it "
                     f"cannot be replayed by this harness, which runs as root, and is not reported")
    return witnesses, reach, failed


def run(ctx):
    vp.cargo_build(["drv-procstate"])
    if not os.path.exists(shimctl.SHIM):
        subprocess.run(["make", "-s", "-C", os.path.dirname(shimctl.SHIM)], check=True)
    quick = ctx.quick
    rng = random.Random(ctx.seed)
    ctx.assumptions += [
        "POSIX advisory record locks as modelled: released on process death and on close of any descriptor of the "
        "file by the holder, F_GETLK does not report the caller's own lock, locks work on unlinked inodes",
        "one guard incarnation per path in every run that is validated against ProcessState.tla (inode identity = "
        "file name); later-incarnation runs are validated by the property layer only",
        "a fault-injected call (sysshim FAIL_AT) is not performed and returns -1 with the chosen errno",
        "system calls are atomic steps; only calls on the three token files are steps",
        "processes run as root (observers may open a read-only file for writing); the unprivileged variant is "
        "model-checked only",
    ]
    # ---- 1. extraction ----------------------------------------------------------------------
    ext, drift = extract(ctx)
    vp.log(f"C07: extraction done at {ctx.elapsed():.0f}s")
    drift_any = bool(drift)
    for dmsg in drift:
        print(f"DRIFT: {dmsg}")
        ctx.note("drift: " + dmsg)
    def fmt_ops(v):
        return [f"{o['op']}({o['f']}{',' + o['perm'] if o['perm'] != 'none' else ''})" for o in v]
    ctx.coverage["extracted"] = {k: (fmt_ops(v) if isinstance(v, list) else v) for k, v in ext.items()
                                 if k not in ("CleanerRefuse", "CleanerRefuseGone", "AcquireCalls", "RefuseHow")}
    ctx.coverage["extracted"]["CleanerRefuse"] = [
        dict({"after_failed": fmt_ops([o])[0], "tail": fmt_ops(t), "how": h},
             **({"tail_when_the_file_is_unlinked": fmt_ops(g)} if o["op"] == "lock" else {}))
        for o, t, h, g in zip(ext["CleanerAcquire"], ext["CleanerRefuse"], ext["RefuseHow"], ext["CleanerRefuseGone"])]
    known = [tuple(s) for s in known_sigs(ctx)]
    if not ext["GuardCreate"] or not ext["GuardDrop"] or not ext["CleanerDrop"] or not ext["CleanerAcquire"]:
        print("DRIFT: step sequences could not be extracted; model checking skipped")
        ctx.note("no model checking: extraction failed")
        witnesses, reach, failed = {}, {}, []
        ctx.states = ctx.transitions = 1
    else:
        # ---- 2. TLC on the model instantiated with the extracted sequences --------------------
        witnesses, reach, failed = model_check(ctx, ext, known, quick)
    vp.log(f"C07: model checking done at {ctx.elapsed():.0f}s")
    ctx.coverage["model_signatures"] = sorted(sig_str(s) for s in witnesses)
    ctx.coverage["model_invariants_failed"] = sorted({f"{c}:{i}" for c, i in failed})

    # ---- 3. real processes: witnesses, one behaviour per reachable position, free runs ----------
    jobs = []
    for s, (sched, cname, cfgd) in sorted(witnesses.items()):
        lv = {m: ("cal" if s[0] in ("falsedead", "vanished") and s[1] in ("cal", "node") else "pm")
              for m in cfgd.get("monitors", [])}
        # the listing step of Node::list has no counterpart on the bare token files (see node_level)
        sched = [e for e in sched if e[1] not in ("scandir", "stat")]
        jobs.append(("w-" + sig_str(s).replace(":", "_"), sched, lv, "M",
                     tuple(cfgd.get("monitors", [])) + tuple(cfgd.get("cleaners", []))))
    npos = {}
    for cname, (recs_, cfgd) in reach.items():
        best = {}
        for (gpc, gcr, pcs, hist) in recs_:
            if any(e[1] in ("scandir", "stat") for e in hist):
                continue
            key = (gpc, gcr, tuple(sorted(pcs.items())))
            if key not in best or len(hist) < len(best[key]):
                best[key] = hist
        keys = sorted(best)
        npos[cname] = len(keys)
        variants = [("pm", "M"), ("pm", "G"), ("cal", "G")] if quick else [("pm", "M"), ("pm", "G"), ("cal", "M"), ("cal", "G")]
        if cfgd.get("cleaners"):
            cap = 4000 if cfgd.get("monitors") else 800
            if len(keys) > cap:
                keys = rng.sample(keys, cap)
            variants = [("pm", "M"), ("pm", "G")]
        for i, key in enumerate(keys):
            for (lvl, cont) in variants:
                jobs.append((f"{cname}-{i}-{lvl}-{cont}", best[key], {m: lvl for m in cfgd.get("monitors", [])}, cont))
    ctx.coverage["positions"] = npos
    grid, faults, reinc = refusal_jobs(ext, quick, rng) if ext["CleanerAcquire"] and ext["CleanerDrop"] else ([], [], [])
    runs, fruns = [], []
    with concurrent.futures.ThreadPoolExecutor(max_workers=10) as ex:
        futs = [ex.submit(replay_schedule, ctx, *j) for j in jobs] + [ex.submit(grid_run, ctx, *j) for j in grid]
        ffuts = [ex.submit(fault_run, ctx, *j) for j in faults] + [ex.submit(reinc_run, ctx, *j) for j in reinc]
        for f in futs:
            runs.append(f.result())
        for f in ffuts:
            fruns.append(f.result())
    vp.log(f"C07: {len(jobs)} schedule replays, {len(grid)} grid runs, {len(faults)} fault runs done at {ctx.elapsed():.0f}s")
    for k in range(30 if quick else 300):
        runs.append(free_run(ctx, f"free-{k}", rng))
    vp.log(f"C07: free runs done at {ctx.elapsed():.0f}s")
    nruns = node_level(ctx) + fruns      # judged by the property layer only (no counterpart in ProcessState.tla)
    vp.log(f"C07: node level runs done at {ctx.elapsed():.0f}s")
    ctx.evaluations += len(runs) + len(nruns)
    ctx.distinct += len({json.dumps(r["records"], sort_keys=True) for r in runs + nruns})
    vacuous = refusal_coverage(ctx, [r for r in runs if r.get("kind") == "grid"],
                               [r for r in fruns if r["kind"] == "fault"], [r for r in fruns if r["kind"] == "reinc"])
    for r in [r for r in runs + nruns if r["hang"]][:3]:
        ctx.report(vp.Violation(f"a real process hung during the stepped replay: {r['hang']}",
                                replay={"schedule": r["schedule"], "levels": r["levels"],
                                        "real_interleaving": describe(r)}, signature="hang"))

    # ---- 4. validation: property layer (V1) and implementation-shaped layer (drift) --------------
    CH = 700
    real = {}              # signature -> [run]
    allr = runs + nruns
    for c0 in range(0, len(allr), CH):
        chunk = allr[c0:c0 + CH]
        found, _ = validate_prop(ctx, chunk, f"real{c0 // CH}", list(witnesses) + known)
        for s, ks in found.items():
            real.setdefault(s, []).extend(chunk[k] for k in ks)
        ctx.traces_validated += len(chunk)
    vp.log(f"C07: property layer validated at {ctx.elapsed():.0f}s")
    ndiv = sum(1 for r in runs if r["diverged"])
    for c0 in range(0, len(runs), CH):
        chunk = runs[c0:c0 + CH]
        sv, run_of = validate_state(ctx, ext, chunk, f"state{c0 // CH}")
        if not sv.accepted:
            drift_any = True
            k = run_of(sv.pos) if sv.pos else 0
            print(f"DRIFT: real trace not explained by ProcessState.tla (run {chunk[k]['tag']}, record {sv.pos}: "
                  f"{sv.record}, invariant={sv.invariant})")
            ctx.note(f"state-level drift: run {chunk[k]['tag']} record {sv.record} invariant {sv.invariant}; "
                     f"interleaving tail {describe(chunk[k])[-14:]}")
            break
    ctx.coverage["replays"] = {"stepped_and_free_runs": len(runs), "node_level_runs": len(nruns) - len(fruns),
                               "two_cleaner_grid_runs": len(grid), "fault_injected_attempts": len(faults),
                               "later_incarnation_runs": len(reinc),
                               "diverged_from_model_schedule": ndiv}
    vp.log(f"C07: state layer validated at {ctx.elapsed():.0f}s")
    ctx.coverage["real_signatures"] = {sig_str(s): len(v) for s, v in sorted(real.items())}
    for r in runs[:2]:
        ctx.sample({"replayed_interleaving": describe(r)})

    # ---- 5. verdicts -----------------------------------------------------------------------------
    for s in sorted(set(witnesses) | set(real)):
        inv = INV_OF.get(s[0], s[0])
        in_model, in_real = s in witnesses, s in real
        if in_model and not in_real:
            sched, cname, cfgd = witnesses[s]
            rr = [r for r in runs if r["tag"] == "w-" + sig_str(s).replace(":", "_")][0]
            raise vp.ToolError(
                f"model counterexample {sig_str(s)} ({inv}, configuration {cname}) was NOT reproduced by the stepped "
                f"replay on real processes: the specification does not match the code (diverged={rr['diverged']}, "
                f"real interleaving {describe(rr)}); fix spec/process/ProcessState.tla")
        rr = real[s][0]
        if in_model:
            sched, cname, cfgd = witnesses[s]
            what = (f"{inv} is violated ({sig_str(s)}): TLC counterexample of ProcessState.tla (configuration {cname}, "
                    f"step order extracted from the code) reproduced on real processes by system-call stepping in "
                    f"{len(real[s])} replayed interleavings")
        else:
            sched = rr["schedule"]
            what = (f"{inv} is violated by real processes ({sig_str(s)}) in {len(real[s])} replayed interleavings "
                    f"(the implementation-shaped model did not predict it)")
        ctx.report(vp.Violation(what, replay={
            "signature": sig_str(s), "invariant": inv, "kind": rr.get("kind", "schedule"), "schedule": rr["schedule"],
            "levels": rr["levels"],
            "cont": rr["cont"], "real_interleaving": describe(rr) or rr.get("sys"),
            "real_answers": [[p, o] for p, o in rr["answers"]], "model_schedule": sched if in_model else None,
            "cmd": "bin/check C07 --replay <this file>"}, signature=sig_str(s)))
        if len(ctx.samples) < 6:
            ctx.sample({"finding": sig_str(s), "real_interleaving": (describe(rr) or rr.get("sys"))[-16:]})
    if drift_any:
        ctx.note("DRIFT: the implementation-shaped model does not match this build step by step; only the "
                 "property-layer verdicts on real traces are claimed")
    if vacuous:
        raise vp.ToolError(vacuous)
    if not quick:
        selftest(ctx, ext, runs)
        strace_check(ctx)
    ctx.coverage["rule"] = ("evaluations = stepped / free runs of real processes; distinct = distinct recorded traces; "
                            "states/transitions = TLC on ProcessState with extracted step sequences")


def run_result(r, kind, tag, sched, levels, hang, recs):
    return {"tag": tag, "kind": kind, "records": recs, "diverged": None, "hang": hang, "answers": r.answers,
            "schedule": sched, "cont": "-", "levels": levels}


BUSY = ("acquiring", "owner", "cdropping")


def grid_run(ctx, tag, a, b, variant):
    """Two real cleaners going for the same dead process: the (eventual) loser C2 performs a calls of its attempt,
    the winner C1 then b calls of its life (attempt, ownership, drop), then C2 runs to its result - a refusal
    wherever C1 was first - and monitors ask at both levels. variant "complete": C1 completes, the owner drops;
    "kill": the first cleaner that is busy (attempting / owning / dropping) is killed where it stands. A third
    cleaner then tries (it must recover what a dead cleaner left), monitors ask again."""
    levels = {"M1": "pm", "M2": "cal"}
    r = Run(ctx, tag, levels, stepped=True, free=("G", "M1", "M2"))     # only the cleaners are stopped
    hang = None
    try:
        r.run_cmd("G")
        r.crash("G")
        r.steps("C2", a)
        r.steps("C1", b)
        r.finish("C2")
        r.run_cmd("M1")
        r.run_cmd("M2")
        if variant == "kill":
            for p in ("C1", "C2"):
                if r.state.get(p) in BUSY:
                    r.crash(p)
                    break
        else:
            r.finish("C1")
            for p in ("C1", "C2"):
                if r.state.get(p) == "owner":
                    r.finish(p, whole_life=True)
        r.proc("C3")
        r.finish("C3")
        r.run_cmd("M1")
        r.run_cmd("M2")
        for p in ("C3", "C1", "C2"):
            if r.state.get(p) in BUSY:
                r.finish(p, whole_life=True)
        r.run_cmd("M1")
        recs = r.records()
    except shimctl.Hang as e:
        hang = str(e)
        recs = r.records()
    finally:
        r.close()
    shutil.rmtree(r.dir, ignore_errors=True)
    return run_result(r, "grid", tag, [a, b, variant], levels, hang, recs)


def fault_run(ctx, tag, k, errno, owner_first):
    """An attempt of cleaner C2 into which an operating-system failure is injected (the k-th tracked call of
    ProcessCleaner::new fails with errno; sysshim FAIL_AT armed by the driver): whatever error it returns, it must
    have changed nothing - monitors ask, then (after the owner C1, if any, has been killed) a third cleaner must
    obtain the files."""
    levels = {"M1": "pm", "M2": "cal"}
    r = Run(ctx, tag, levels, stepped=False)
    hang = None
    try:
        r.run_cmd("G")
        r.crash("G")
        if owner_first:
            r.run_cmd("C1")
        r.proc("C2")
        r.faults["C2"] = (k, errno)
        r.run_cmd("C2")
        r.run_cmd("M1")
        r.run_cmd("M2")
        if owner_first and r.state.get("C1") in BUSY:
            r.crash("C1")
        r.run_cmd("C3")
        r.run_cmd("M1")
        for p in ("C3", "C2"):
            if r.state.get(p) == "owner":
                r.run_cmd(p)
        r.run_cmd("M1")
        recs = r.records()
    except shimctl.Hang as e:
        hang = str(e)
        recs = r.records()
    finally:
        r.close()
    shutil.rmtree(r.dir, ignore_errors=True)
    return run_result(r, "fault", tag, [k, errno, owner_first], levels, hang, recs)


def reinc_run(ctx, tag, a, early):
    """A later incarnation: the first guard process is dead, the stale cleaner C2 has performed a calls of its
    attempt (it may hold descriptors of the old files), C1 cleans up completely, ANOTHER process G2 creates a guard
    for the same path and runs; then C2 continues. early: G2 tries first while C1 still owns the old files (its
    creation is refused). Property layer only: ProcessState.tla assumes one incarnation per path."""
    levels = {"M1": "pm", "M2": "cal"}
    r = Run(ctx, tag, levels, stepped=True, free=("G", "G2", "M1", "M2"))
    hang = None
    try:
        r.run_cmd("G")
        r.crash("G")
        r.steps("C2", a)
        r.proc("C1")
        r.finish("C1")
        if early:
            r.run_cmd("G2")                 # AlreadyExists: the old files are still there
            r.run_cmd("M1")
        for p in ("C1",):
            if r.state.get(p) == "owner":
                r.finish(p, whole_life=True)
        if not early:
            r.run_cmd("G2")
        r.run_cmd("M1")
        r.run_cmd("M2")
        r.finish("C2")
        r.run_cmd("M1")
        r.run_cmd("M2")
        if r.state.get("C2") == "owner":
            r.finish("C2", whole_life=True)
        r.run_cmd("M1")
        r.run_cmd("M2")
        if r.state.get("G2") == "created":
            r.run_cmd("G2")                 # orderly drop of the new incarnation
        r.run_cmd("M1")
        recs = r.records()
    except shimctl.Hang as e:
        hang = str(e)
        recs = r.records()
    finally:
        r.close()
    shutil.rmtree(r.dir, ignore_errors=True)
    return run_result(r, "reinc", tag, [a, early], levels, hang, recs)


def refusal_jobs(ext, quick, rng):
    """(grid jobs, fault jobs) derived from the extracted call sequences."""
    nstate, nacq, ndrop = ext["NState"], len(ext["CleanerAcquire"]), len(ext["CleanerDrop"])
    total = nstate + nacq
    if quick:
        # the loser has passed its own state() check / has opened some files / stands before its lock attempt
        avals = sorted({nstate, nstate + max(nacq - 3, 0), total - 1})
    else:
        avals = list(range(0, total + 1))
    # the two continuations alternate over the grid; thorough: both wherever the loser has passed its state() check
    grid = [(f"grid-{a}-{b}-{v}", a, b, v) for a in avals for b in range(0, total + ndrop + 1)
            for v in ("complete", "kill") if (not quick and a >= nstate) or (v == "kill") == ((a + b) % 2 == 1)]
    fails = [i + 1 for i, x in enumerate(ext["AcquireCalls"]) if x["op"] in ("open", "lock", "lockw")]
    faults = []
    for k in fails:
        is_open = ext["AcquireCalls"][k - 1]["op"] == "open"
        errs = ([2, 13] if is_open else [11, 4, 37]) if quick else ([2, 13, 4, 24, 12] if is_open else [11, 13, 4, 37, 35])
        for en in errs:
            for owner_first in (False, True):
                faults.append((f"fault-{k}-{en}-{int(owner_first)}", k, en, owner_first))
    reinc = [(f"reinc-{a}-{int(e)}", a, e) for a in (range(nstate, total) if quick else range(0, total + 1))
             for e in (False, True) if not e or a in (nstate, total - 1)]
    return grid, faults, reinc


def refusal_coverage(ctx, gruns, fruns, iruns=()):
    """Vacuity of the refused-cleaner clauses: the real runs must contain refusals of every documented kind, losers
    that ran their refusal tail, attempts with an injected failure, and verdicts asked while a cleaner was busy."""
    res, tails, injected, asked = {}, 0, 0, 0
    for r in list(gruns) + list(fruns) + list(iruns):
        trying, busy = set(), set()
        for x in r["records"]:
            if x["k"] == "ev" and x["ev"] == "cstart":
                trying.add(x["p"]); busy.add(x["p"])
            elif x["k"] == "ev" and x["ev"] == "cresult":
                trying.discard(x["p"])
                if x["v"] != "Ok":
                    busy.discard(x["p"])
                    res[x["v"]] = res.get(x["v"], 0) + 1
            elif x["k"] == "ev" and x["ev"] == "cdropped" or x["k"] == "crash":
                busy.discard(x["p"]); trying.discard(x["p"])
            elif x["k"] == "ev" and x["ev"] == "fault":
                injected += 1
            elif x["k"] == "ev" and x["ev"] == "verdict" and busy:
                asked += 1
            elif x["k"] == "sys" and x["p"] in trying and x["op"] == "lock" and x["obs"] == "fail":
                tails += 1
    ctx.coverage["refusals"] = {"results_of_refused_attempts": res, "lost_lock_races": tails,
                                "injected_failures": injected, "verdicts_while_a_cleaner_was_busy": asked}
    if gruns:
        for v in ("OwnedByAnother", "BeingCleanedUp", "DoesNotExist"):
            if not res.get(v):
                return f"vacuous: no real cleaner was refused with {v} in the two-cleaner grid"
        if not tails or not asked:
            return "vacuous: no lost lock race / no verdict while a cleaner was busy in the two-cleaner grid"
    if fruns and not injected:
        return "vacuous: no failure was injected into any cleaner attempt"
    if iruns and not res.get("StillAlive"):
        return "vacuous: no stale cleaner was refused with StillAlive by a later incarnation of the guard"
    return None


def free_run(ctx, tag, rng):
    """Complete commands, one process at a time, in seeded random order (incl. kills)."""
    levels = {"M1": "pm", "M2": "cal"}
    r = Run(ctx, tag, levels, stepped=False)
    hang = None
    sched = []
    try:
        acts = ["G", "M1", "M2", "C1", "C2", "killG", "killC1", "M1", "M2"]
        for _ in range(rng.randint(4, 12)):
            a = rng.choice(acts)
            sched.append(a)
            if a.startswith("kill"):
                p = a[4:]
                if p in r.procs and r.state[p] not in ("dead", "new", "gone", "cdone", "cfailed"):
                    r.crash(p)
            else:
                r.proc(a)
                if r.state[a] != "dead":
                    r.run_cmd(a)
        recs = r.records()
    except shimctl.Hang as e:
        hang = str(e)
        recs = r.records()
    finally:
        r.close()
    shutil.rmtree(r.dir, ignore_errors=True)
    return {"tag": tag, "records": recs, "diverged": None, "hang": hang, "answers": r.answers, "schedule": sched,
            "cont": "-", "levels": levels}


# ---------------------------------------------------------------------------------------------
# Node::list level on real nodes

def node_level(ctx):
    """A real node (NodeBuilder::create / drop) in one process, Node::list in another, both stepped over their
    calls on the monitoring token files: the node is stopped before every step of its start-up / shutdown, the
    observer before every step of its query; then the node completes its command and the observer completes its
    listing. The NodeState the observer prints is judged by ProcessPropTrace (level "node")."""
    root = ctx.path("nodes", "x")[:-2]
    pfx0 = f"c7{os.getpid() % 100000}"

    def one(tag, when, gstop, mstop):
        d = os.path.join(root, tag)
        os.makedirs(d, exist_ok=True)
        prefix = pfx0 + tag.replace("-", "") + "_"
        roots = [d + "/", "/dev/shm/" + prefix]
        log = os.path.join(d, "sys.ndjson")
        open(log, "w").close()
        logf = os.open(log, os.O_WRONLY | os.O_APPEND)
        args = ["--root", d, "--prefix", prefix, "--no-auto-cleanup"]
        res = {"tag": "node-" + tag, "hang": None, "diverged": None, "levels": {"M1": "node"},
               "schedule": [when, gstop, mstop], "cont": "-", "answers": []}

        def ev(p, e, **kw):
            r = blank("ev", p)
            r["ev"] = e
            r.update(kw)
            os.write(logf, (json.dumps(r) + "\n").encode())

        def advance(P, n):
            """P runs until it stands before its n-th (0-based) call on a token file; or answers / exits"""
            done = 0
            while True:
                e = P.wait()
                if e[0] != "step":
                    return e
                if ".node_monitor" in e[1]["path"]:
                    if done == n:
                        return e
                    done += 1
                P.token("g")
        G = shimctl.Proc([BIN, "node"] + args, roots, "G", log, "so", step_dir=os.path.join(d, "fifo"))
        M = shimctl.Proc([BIN, "nodes"] + args, roots, "M1", log, "so", step_dir=os.path.join(d, "fifo"))
        gdone_ev = "created" if when == "startup" else "dropped"
        try:
            ev("G", "create_begin")
            G.send("create")
            if when == "shutdown":
                G.wait_out()
                ev("G", "created")
                ev("G", "drop_begin")
                G.send("drop")
            e = advance(G, gstop)
            gdone = e[0] != "step"
            if gdone:
                ev("G", gdone_ev)
            ev("M1", "qstart", lv="node")
            M.send("list")
            e2 = advance(M, mstop)

            def verdicts(o2):
                res["answers"].append(("M1", o2))
                for n in o2.get("nodes", []):
                    ev("M1", "verdict", lv="node", v=n["s"] if n["s"] in ("Alive", "Dead") else "Undefined")
                    ev("M1", "qstart", lv="node")
                ev("M1", "verdict", lv="node", v="DoesNotExist")   # nothing (more) is listed
            if e2[0] == "out":
                verdicts(e2[1])        # the observer finished while the node was still stopped
            if not gdone:
                G.token("g")
                G.wait_out()
                ev("G", gdone_ev)
            if e2[0] == "step":
                M.token("g")
                o2 = M.wait_out()
                if o2 is not None:
                    verdicts(o2)
        except shimctl.Hang as h:
            res["hang"] = str(h)
        finally:
            G.close()
            M.close()
            os.close(logf)
        allrecs = shimctl.read_syslog(log)
        res["records"] = [r for r in allrecs if r["k"] == "ev"]
        res["sys"] = [f"{r['p']}:{r['call']}({r['path'].rsplit('.', 1)[-1]})"
                      + (f"={r['rt']}" if r["cmd"] == "F_GETLK" else "") + (f"=errno{r['errno']}" if r["errno"] else "")
                      for r in allrecs if r["k"] == "sys" and ".node_monitor" in r["path"]] \
            + [f"M1 listed: {[(n['s']) for n in o.get('nodes', [])]}" for _, o in res["answers"]]
        shutil.rmtree(d, ignore_errors=True)
        for f in os.listdir("/dev/shm"):
            if f.startswith(prefix):
                try:
                    os.unlink(os.path.join("/dev/shm", f))
                except OSError:
                    pass
        return res

    jobs = []
    for when, gmax in (("shutdown", 10), ("startup", 12)):
        for g in range(0, gmax):
            for m in range(0, 17):      # 3 listing stats + 12 calls of state(): up to "the observer ran to completion"
                jobs.append((f"{when[:2]}-{g}-{m}", when, g, m))
    runs = []
    with concurrent.futures.ThreadPoolExecutor(max_workers=10) as ex:
        for f in [ex.submit(one, *j) for j in jobs]:
            runs.append(f.result())
    shutil.rmtree(root, ignore_errors=True)
    return runs


def selftest(ctx, ext, runs):
    """Binding demonstration: a corrupted verdict / a dropped system call must be rejected."""
    import copy
    base = [r for r in runs if not r["diverged"] and not r["hang"] and r["tag"].startswith("monitor")
            and any(a["k"] == "ev" and a["ev"] == "verdict" and a["v"] == "Alive" for a in r["records"])]
    if not base:
        ctx.note("selftest skipped: no run with an Alive verdict")
        return
    r1 = copy.deepcopy(base[0])
    for a in r1["records"]:
        if a["k"] == "ev" and a["ev"] == "verdict" and a["v"] == "Alive":
            a["v"] = "Dead"
            break
    found, failed = validate_prop(ctx, [r1], "selftest_verdict", [])
    sv, _ = validate_state(ctx, ext, [r1], "selftest_verdict")
    r2 = copy.deepcopy(base[0])
    idx = [i for i, a in enumerate(r2["records"]) if a["k"] == "sys" and a["p"] == "G"]
    del r2["records"][idx[len(idx) // 2]]
    sv2, _ = validate_state(ctx, ext, [r2], "selftest_drop")
    st = {"corrupted_verdict_fails_property_invariant": bool(failed),
          "corrupted_verdict_rejected_by_state_layer": not sv.accepted,
          "dropped_call_rejected_by_state_layer": not sv2.accepted}
    # a refused cleaner that (allegedly) removed a file: one inserted unlink record before its result
    gbase = [r for r in runs if r.get("kind") == "grid" and not r["hang"]
             and any(a["k"] == "ev" and a["ev"] == "cresult" and a["v"] == "OwnedByAnother" for a in r["records"])]
    if gbase:
        r3 = copy.deepcopy(gbase[0])
        i = [i for i, a in enumerate(r3["records"]) if a["k"] == "ev" and a["ev"] == "cresult" and a["v"] == "OwnedByAnother"][0]
        fake = blank("sys", r3["records"][i]["p"])
        fake.update(op="unlink", f="state", obs="ok")
        r3["records"].insert(i, fake)
        _, failed3 = validate_prop(ctx, [r3], "selftest_refused", [])
        sv3, _ = validate_state(ctx, ext, [r3], "selftest_refused")
        st["inserted_unlink_of_refused_cleaner_fails_RefusedChangesNothing"] = \
            any(inv == "RefusedChangesNothing" for inv, _ in failed3)
        st["inserted_unlink_rejected_by_state_layer"] = not sv3.accepted
        # ... and a monitor that (allegedly) reported "absent" while the winner had not begun its drop
        r4 = copy.deepcopy(gbase[0])
        own = [i for i, a in enumerate(r4["records"]) if a["k"] == "ev" and a["ev"] == "cresult" and a["v"] == "Ok"]
        vi = [i for i, a in enumerate(r4["records"]) if a["k"] == "ev" and a["ev"] == "verdict" and a["lv"] == "pm"
              and own and i > own[0]]
        dropb = [i for i, a in enumerate(r4["records"]) if a["k"] == "ev" and a["ev"] == "cdrop_begin"]
        if vi and (not dropb or vi[0] < dropb[0]):
            r4["records"][vi[0]]["v"] = "DoesNotExist"
            _, failed4 = validate_prop(ctx, [r4], "selftest_vanished", [])
            st["corrupted_absent_verdict_fails_AbsentOnlyAfterCleanup"] = \
                any(inv == "AbsentOnlyAfterCleanup" for inv, _ in failed4)
    else:
        st["refused_cleaner_selftest"] = False
    ctx.coverage["selftest"] = st
    if not all(st.values()):
        raise vp.ToolError(f"binding self-test failed: {st}")


def strace_check(ctx):
    d = ctx.path("strace", "x")[:-2]
    tok = os.path.join(d, "tok")
    os.makedirs(tok, exist_ok=True)
    kern, shim, rc = shimctl.strace_state_calls([BIN, "guard", "--dir", tok, "--name", NAME], [tok + "/v_"],
                                                stdin_text="create\ndrop\n")
    ctx.coverage["strace_crosscheck"] = {"kernel_state_changing_calls": len(kern), "shim_logged": len(shim),
                                         "equal": kern == shim}
    if kern != shim:
        print(f"DRIFT: strace sees state-changing calls the shim does not: kernel={kern} shim={shim}")
        ctx.note("shim/strace mismatch")
    shutil.rmtree(d, ignore_errors=True)


def replay(ctx, path):
    body = json.load(open(path))
    print(json.dumps({k: body.get(k) for k in ("what", "signature", "schedule", "levels", "real_interleaving")}, indent=1))
    sched = body.get("model_schedule") or body.get("schedule")
    if body.get("kind") in ("grid", "fault", "reinc") and not body.get("model_schedule"):
        vp.cargo_build(["drv-procstate"])
        rr = {"grid": grid_run, "fault": fault_run, "reinc": reinc_run}[body["kind"]](ctx, "replay", *body["schedule"])
        print("re-executed on the current tree:")
        print(" ", " ".join(describe(rr)))
        print("  answers:", rr["answers"], "hang:", rr["hang"])
    elif sched and body.get("levels") is not None and isinstance(sched[0], list):
        vp.cargo_build(["drv-procstate"])
        lv = {m: (l if l != "node" else "cal") for m, l in body["levels"].items()}
        sched = [e for e in sched if e[1] not in ("scandir", "stat")]
        rr = replay_schedule(ctx, "replay", sched, lv, cont=body.get("cont", "M"))
        print("re-executed on the current tree:")
        print(" ", " ".join(describe(rr)))
        print("  answers:", rr["answers"], "diverged:", rr["diverged"])
    return 0
