"""C06 - Service creation is atomic and its lifetime follows its users."""
import concurrent.futures as cf
import hashlib
import json
import os
import shutil

import vp

META = {
    "level": "model_checking",
    "engine": "tla-roundtrip",
    "technique": "TLC model checking of an implementation-shaped TLA+ model of the create/open/open_or_create/drop "
                 "protocol against an atomic-object property layer (lock-step shadow), trace validation of real "
                 "sequential, multi-thread and multi-process histories as a linearizability problem, a "
                 "TLC-generated requirement matrix replayed against the real builders, and fault injection / kill "
                 "enumeration of real processes under an LD_PRELOAD shim (every state-changing libc call of create / "
                 "open / open_or_create fails once; the creator is killed before each of them) validated against "
                 "the same property layer",
    "text": "ServiceAbs.tla specifies a service name as an atomic object absent|exists(id, settings, users) with the "
            "clauses of the property as named invariants; TLC checks that ServiceLifecycle.tla (one action per step "
            "of builder/mod.rs and ServiceState::drop, 2-3 nodes, retry budget instead of time) is explained by it "
            "and terminates. Histories recorded from the real API for all four messaging patterns (one thread with "
            "several nodes; 2-4 threads; child processes; calls stamped from one SeqCst counter) are validated by "
            "TLC against ServiceAbsTrace.tla with silent linearization steps; transient documented errors are "
            "accepted only when a justifying call of another thread overlaps. ServiceCompat.tla is the requirement "
            "matrix of verify_service_configuration; TLC enumerates creator/opener pairs and the driver compares "
            "every real outcome, the settings every handle shows and that the service is left untouched (including "
            "the service tag of the opener's node). Failing environment: the shim makes the k-th libc call of an "
            "operation fail (all k); the call may end with a documented environment error WITHOUT effect (RetEnv) or "
            "succeed - the following quiescent observations (existence, listing, files, shm objects, service tags, "
            "node directories) and calls of other nodes are explained by the unchanged object only. Crashed creator: "
            "a real creator is killed before its N-th libc call (all N); open / open_or_create / create of another "
            "process with a small creation timeout must RETURN (a hang is declared only on proof from the process' "
            "own syscall log). ServiceLifecycle.tla has a failure alternative at every step and a crash action; the "
            "classic mistakes (static config released early, tag released at once, unbounded wait) must be refuted.",
    "note": "Trusted: TLC, the call/ret stamping (one SeqCst counter in shared memory, incremented immediately "
            "before the call and after the return), the rendering of static_config() by the driver. Concurrent "
            "histories are free-running (seeded yields), so rare interleavings are covered by the model, not "
            "guaranteed on the real code. Faults are injected into single-threaded histories only (the model covers "
            "faults under concurrency), never into releasing calls (close/unlink/...) and not into drop; after a "
            "crash only termination and the validity of returned handles are judged (leftovers: C04). A hang verdict "
            "needs: no result for >= 20 s (>= 30 x creation timeout) AND the same retry loop growing between two "
            "samples of the process' own syscall log by more calls than a bounded wait can make. Genuine defects found "
            "by the fault / crash enumeration are listed in known_findings.json (fault:* / crash:*). The blackboard open() that races "
            "with a creation or the last user's drop returns ServiceInCorruptedState for a healthy service: a known "
            "finding (known_findings.json); the trace specification steps over exactly this case (KnownDeviation) so "
            "that the remaining blackboard histories are still validated, and the check reports it as a violation "
            "with the narrow signature; occurrences are counted in the evidence.",
    "design_ref": "DESIGN.md 5 C06, 3.3, 3.4, 4",
    "replay": True,
}

PATS = ["ps", "ev", "rr", "bb"]
KNOWN_BB_SIGNATURE = "trace:bb:open:ServiceInCorruptedState:overlapping-create-or-last-drop"
ABS_INVS = ["AtMostOneCreator", "OpenSeesCreatorSettings", "NoHalfInitialised", "LifetimeFollowsUsers",
            "RecreatableAfterLast"]
IMPL_INVS = ["Explainable"] + ABS_INVS + ["ImplAtMostOneCreator", "ImplNoHalfInitialised",
                                          "ImplOpenSeesCreatorSettings", "ImplLifetimeFollowsUsers",
                                          "ImplQuiescentExact", "ImplTagsFollowHandles"]


# ---------------------------------------------------------------------------------------------
# helpers

def tla_value(v):
    if isinstance(v, str):
        return '"' + v + '"'
    return str(v)


def tla_record(d):
    return "[" + ", ".join(f"{k} |-> {tla_value(v)}" for k, v in d.items()) + "]"


TAG = format(os.getpid() % 46656, "x")      # keeps the /dev/shm names of concurrent check runs apart


_strace_ok = None
_strace_lock = __import__("threading").Lock()


def strace_works():
    """strace present AND allowed to trace (ptrace may be forbidden in a sandbox)."""
    global _strace_ok
    with _strace_lock:
        if _strace_ok is None:
            import subprocess
            ok = False
            if shutil.which("strace"):
                try:
                    r = subprocess.run(["strace", "-f", "-qq", "-o", "/dev/null", "-e", "trace=write", "-e",
                                        "inject=write:delay_enter=1", "/bin/true"], stdout=subprocess.PIPE,
                                       stderr=subprocess.PIPE, timeout=120)
                    ok = r.returncode == 0
                except Exception:
                    ok = False
            _strace_ok = ok
    return _strace_ok


class DriverAbort(Exception):
    """The driver process died while executing the code under test (panic / abort / signal): data."""

    def __init__(self, args, rc, stderr):
        super().__init__(f"drv-service {' '.join(map(str, args))} exited {rc}")
        self.args_, self.rc, self.stderr = [str(a) for a in args], rc, stderr


def drv(args, seed, timeout=1500):
    full = list(args) + ["--tag", TAG]
    rc, so, se = vp.run_driver("drv-service", full, timeout=timeout, env={"VERIF_SEED": seed, "RUST_BACKTRACE": "0"},
                               ok_codes=None)
    if rc == 2:
        raise vp.ToolError(f"driver reported a harness problem: {' '.join(map(str, full))}\n{se[-2000:]}")
    if rc == 3 and "sched" in full[:1]:
        return {"hung": vp.last_json_line(so)["hung_at"]}
    if rc != 0:
        raise DriverAbort(full, rc, se[-3000:])
    return vp.last_json_line(so)


def guarded(fn, what):
    """Runs one part of the check; a dying driver becomes a violation, not a tool error."""
    def wrapper(*a):
        try:
            return fn(*a)
        except DriverAbort as e:
            mode, pat = e.args_[0], (e.args_[e.args_.index("--pat") + 1] if "--pat" in e.args_ else "?")
            return [("violation", vp.Violation(
                f"{pat}/{mode}: the process executing the service operations died (exit {e.rc}) - a call did "
                f"not terminate with a service or a documented error: {e.stderr.strip().splitlines()[-1:] }",
                replay={"kind": "abort", "cmd": "harness/target/debug/drv-service " + " ".join(e.args_),
                        "exit": e.rc, "stderr": e.stderr},
                signature=f"abort:{mode}:{pat}"))]
    return wrapper


def lifecycle_instance(ctx, name, threads, maxops, budget, hasres, ooc, wbu=True, lol=True, rii=True, live=False,
                       rsl=True, tod=True, bdw=True, faults=0, crashes=0):
    d = ctx.path("lc", name, "x")[:-2]
    with open(os.path.join(d, f"{name}.tla"), "w") as f:
        f.write(f"---- MODULE {name} ----\nEXTENDS ServiceLifecycle\n====\n")
    b = lambda x: "TRUE" if x else "FALSE"
    with open(os.path.join(d, f"{name}.cfg"), "w") as f:
        f.write("SPECIFICATION LSpec\nCONSTANTS\n"
                f" NThreads = {threads}\n MaxOps = {maxops}\n Budget = {budget}\n MaxInc = {threads * maxops}\n"
                f" HasResources = {b(hasres)}\n UseOoc = {b(ooc)}\n WriteBeforeUnlock = {b(wbu)}\n"
                f" LockOnLast = {b(lol)}\n RegisterInInit = {b(rii)}\n ReleaseStaticLate = {b(rsl)}\n"
                f" TagOwnedUntilDone = {b(tod)}\n BoundedDynWait = {b(bdw)}\n MaxFaults = {faults}\n MaxCrashes = {crashes}\n"
                " Env <- LEnv\n"
                f"INVARIANTS {' '.join(IMPL_INVS)}\n" + ("PROPERTY Termination\n" if live else ""))
    return d


def cex_summary(res, keep=("pc", "sfile", "svc", "bad")):
    out = []
    for hdr, lines in res.cex[-40:]:
        txt = " ".join(l.strip() for l in lines)
        st = {}
        for k in keep:
            i = txt.find(f"/\\ {k} = ")
            if i >= 0:
                j = txt.find("/\\ ", i + 3)
                st[k] = txt[i + len(k) + 6: j if j > 0 else None].strip()[:300]
        out.append({"action": hdr.split(" line ")[0], "state": st})
    return out


def run_hash(run):
    h = hashlib.sha1()
    for e in run:
        if e.get("k") in ("call", "ret"):
            h.update(f"{e.get('t')}{e['a']}{e.get('c', '')}{e.get('r', '')}{e.get('id', '')}|".encode())
    return h.hexdigest()


def short_history(run, limit=60):
    out = []
    for e in run:
        k = e.get("k")
        if k == "call":
            out.append(f"t{e['t']}:call:{e['a']}(c={e['c']},h={e['h']})")
        elif k == "ret":
            out.append(f"t{e['t']}:ret:{e['a']}->{e['r']}" + (f"#id{e['id']}" if e.get("id") else "")
                       + (f"={e['v']}" if e["a"] in ("exist", "list") else ""))
        elif k in ("obs", "end"):
            out.append(f"{k}:exist={e['exist']},listed={e['listed']},files={e['files']},shm={e['shm']}")
    return out[:limit]


# ---------------------------------------------------------------------------------------------
# the parts of the check (each returns a list of (kind, payload) results; run in a thread pool)

def part_abs_model(ctx):
    """Design check of the property layer itself."""
    d = ctx.path("mc", "abs", "x")[:-2]
    calls = 3 if ctx.quick else 5
    shutil.copy(os.path.join(vp.SPEC, "service", "MC_ServiceAbs.tla"), d)
    with open(os.path.join(d, "MC_ServiceAbs.cfg"), "w") as f:
        f.write(f"SPECIFICATION MCSpec\nCONSTANTS\n NThreads = 2\n MaxCalls = {calls}\n Env <- MCEnv\n"
                f"INVARIANTS {' '.join(ABS_INVS)} UsersWellFormed\nCHECK_DEADLOCK FALSE\n")
    res = vp.tlc(d, "MC_ServiceAbs", workers=4, timeout=1200, libs=["service"])
    vp.tlc_require_ok(res, "MC_ServiceAbs (property layer)")
    vp.check_action_coverage(res, ["DoCall", "DoLin", "DoRet", "DoRetEnv", "DoCrash", "DoLinCrashed", "DoReap", "DoWithdraw"],
                             "MC_ServiceAbs")
    out = [("tlc", (f"ServiceAbs[2 threads, {calls} calls]", res, True))]
    if ctx.quick:
        return out
    # non-vacuity: re-creation with other settings must be reachable
    with open(os.path.join(d, "MC_ServiceAbs_nv.cfg"), "w") as f:
        f.write("SPECIFICATION MCSpec\nCONSTANTS\n NThreads = 2\n MaxCalls = 4\n Env <- MCEnv\n"
                "INVARIANTS NeverRecreated\nCHECK_DEADLOCK FALSE\n")
    res2 = vp.tlc(d, "MC_ServiceAbs", cfg="MC_ServiceAbs_nv.cfg", workers=2, timeout=600, libs=["service"], coverage=False)
    if res2.violated != "NeverRecreated":
        raise vp.ToolError("vacuous property layer: re-creation with different settings is unreachable")
    out.append(("tlc", ("ServiceAbs non-vacuity (re-creation reachable)", res2, False)))
    return out


import re

_re_sys = re.compile(r'^\d+\s+(\w+)\((.*)\)\s+=\s+(-?\d+)')


def extract_step_order(ctx, pat):
    """Parameter extraction (DESIGN.md 3.3): the order of the resource-creating / removing system calls of
    one create, one open and the two drops of the current build, read with strace and mapped to the
    abstract steps of ServiceLifecycle.tla by path suffix."""
    if not strace_works():
        return None
    log = ctx.path("order", f"steps-{pat}.strace")
    exe = os.path.join(vp.TARGET_BIN, "drv-service")
    import subprocess
    r = subprocess.run(["strace", "-f", "-y", "-s", "40", "-o", log, "-e",
                        "trace=openat,open,creat,write,pwrite64,fchmod,fchmodat,chmod,unlink,unlinkat,ftruncate",
                        exe, "steps", "--pat", pat, "--root", ctx.path("dom", "x")[:-2], "--tag", TAG],
                       stdout=subprocess.PIPE, stderr=subprocess.PIPE, text=True, timeout=600,
                       env=dict(os.environ, IOX2_LOG_LEVEL="fatal"))
    if r.returncode != 0 or '"results":["Ok","Ok"]' not in r.stdout.replace(" ", ""):
        return None
    kinds = [(".service_tag", "tag"), (".service", "static"), (".dynamic", "dyn"), (".blackboard_mgmt", "res"),
             (".blackboard_data", "res"), (".type_definition", "res")]
    phase, steps = "setup", {"create": [], "open": [], "opener-drop": [], "teardown": []}
    nxt = {"begin": "create", "created": "open", "opened": "opener-drop", "opener-dropped": "teardown",
           "creator-dropped": "done"}
    for line in open(log, errors="replace"):
        m = _re_sys.match(line)
        if not m:
            continue
        call, args, ret = m.group(1), m.group(2), int(m.group(3))
        if call == "write" and "C06-MARK" in args:
            mk = args.split("C06-MARK ")[1].split("\\n")[0].strip('" ')
            phase = nxt.get(mk, phase)
            continue
        if ret < 0 or phase not in steps:
            continue
        obj = next((k for suf, k in kinds if (suf + '"') in args or (suf + ">") in args), None)
        if obj is None:
            continue
        if call in ("openat", "open", "creat"):
            ev = f"{obj}_create" if "O_CREAT" in args else f"{obj}_open"
        elif call in ("write", "pwrite64"):
            if args.rstrip().endswith(", 0"):
                continue
            ev = f"{obj}_write"
        elif call in ("fchmod", "fchmodat", "chmod"):
            mode = args.rsplit(",", 1)[1].strip()
            ev = f"{obj}_chmod_{mode}"
        elif call in ("unlink", "unlinkat"):
            ev = f"{obj}_remove"
        else:
            continue
        if not steps[phase] or steps[phase][-1] != ev:
            steps[phase].append(ev)
    return steps


def order_parameters(ctx, steps, hasres):
    """Maps the extracted order to the structure parameters of the model; structural surprises are drift."""
    drift = []
    c = steps["create"]

    def pos(seq, ev):
        return seq.index(ev) if ev in seq else None
    w, u = pos(c, "static_write"), pos(c, "static_chmod_0400")
    if pos(c, "static_create") is None or w is None or u is None:
        drift.append(f"static config creation steps not recognised: {c}")
        wbu = True
    else:
        wbu = w < u
    dc = pos(c, "dyn_create")
    if dc is None or (u is not None and dc < u):
        drift.append(f"dynamic config is not created after the static config was unlocked: {c}")
    if hasres and (pos(c, "res_create") is None or (dc is not None and pos(c, "res_create") > dc)):
        drift.append(f"resources are not created before the dynamic config: {c}")
    o = [e for e in steps["open"] if e in ("tag_create", "res_open", "dyn_open")]
    if "tag_create" in o and "dyn_open" in o and o.index("tag_create") > len(o) - 1 - o[::-1].index("dyn_open"):
        drift.append(f"open: service tag after the dynamic config: {steps['open']}")
    t = [e for e in steps["teardown"] if e.endswith("_remove")]
    if not t or t[-1] != "static_remove":
        drift.append(f"teardown does not remove the static config last: {t}")
    return {"wbu": wbu}, drift


def part_lifecycle(ctx, name, threads, maxops, budget, hasres, ooc, live, faults=0, crashes=0):
    pat = "bb" if hasres else "ev"
    steps = extract_step_order(ctx, pat)
    params, drift, out0 = {}, [], []
    if steps is None:
        out0.append(("note", f"step order of the current build could not be extracted for {pat} (strace unavailable "
                             "or the run failed): the lifecycle model is checked with the order read from the source"))
    else:
        params, drift = order_parameters(ctx, steps, hasres)
        out0.append(("order", (pat, steps, params)))
        for dmsg in drift:
            print(f"DRIFT: {pat}: {dmsg}")
            out0.append(("note", f"DRIFT {pat}: {dmsg}"))
    d = lifecycle_instance(ctx, name, threads, maxops, budget, hasres, ooc, live=live, faults=faults, crashes=crashes, **params)
    res = vp.tlc(d, name, workers=4 if ctx.quick else 8, timeout=3000, libs=["service"])
    label = (f"ServiceLifecycle[{threads} nodes x {maxops} calls, budget {budget}, resources={hasres}, ooc={ooc}"
             + (f", {faults} failing system call" if faults else "") + (f", {crashes} crash" if crashes else "")
             + (", Termination" if live else "") + (f", extracted {params}" if params else "") + "]")
    if res.timed_out:
        raise vp.ToolError(f"TLC timed out on {name}")
    if res.violated and params and not params.get("wbu", True):
        # V2: the model instantiated with the order EXTRACTED from the current build is refuted
        return out0 + [("tlc", (label, res, True)), ("violation", vp.Violation(
            f"{pat}: the static service config is unlocked before its content is written (system-call order of "
            f"the current build: {steps['create']}); TLC refutes {res.violated} for the lifecycle model with this order",
            replay={"kind": "model", "pat": pat, "extracted_order": steps, "parameters": params,
                    "invariant": res.violated, "counterexample": cex_summary(res)},
            signature=f"model:unlock-before-write:{res.violated}"))]
    if res.violated:
        # The rest of the structure of the model is fixed by reading the code, not extracted: a refutation
        # of the unmutated instance is a defect of the model (design check), not a verdict about /repo.
        raise vp.ToolError(f"ServiceLifecycle instance {name} violates {res.violated}:\n"
                           + json.dumps(cex_summary(res), indent=1)[-5000:])
    if not res.ok:
        raise vp.ToolError(f"TLC failed on {name}: {res.error}\n{res.output[-3000:]}")
    need = ["CAvail", "CLock", "CUnlock", "CDyn", "CReg", "CFin", "OAvail", "ODyn", "ORegister",
            "DDereg", "DDyn", "DStatic", "Return"]
    if faults:
        need += ["CTagFail", "CLockFail", "CUnlockFail", "CResFail", "CDynFail", "OAvailFail", "OTagFail", "OResFail",
                 "ODynFail"]
    if crashes:
        need += ["Crash_"]
    vp.check_action_coverage(res, need, name)
    return out0 + [("tlc", (label, res, True))]


def part_must_fail(ctx, name, kw, maxops=3, budget=1):
    d = lifecycle_instance(ctx, name, 2, maxops, budget, False, False, **kw)
    res = vp.tlc(d, name, workers=4, timeout=1800, libs=["service"], coverage=False)
    if not res.violated and res.error and "Temporal property" in res.error:
        res.violated = "Termination"
    return [("mustfail", (name, res))]


def part_matrix(ctx, dflts):
    """TLC emits the expected outcome table, the driver replays every pair on the real builders."""
    d = ctx.path("matrix", "x")[:-2]
    name = "MCC_all"
    is_type = lambda k: k.endswith("ty") or k.endswith("tv") or k.endswith("sz") or k.endswith("al")
    maxdevt = 1
    maxdev = {"ps": 1, "rr": 1, "ev": 2, "bb": 2} if ctx.quick else {"ps": 2, "rr": 2, "ev": 2, "bb": 3}
    with open(os.path.join(d, f"{name}.tla"), "w") as f:
        f.write(f"---- MODULE {name} ----\nEXTENDS MC_ServiceCompat\n")
        f.write("DfltVal(p) == CASE " + "\n  [] ".join(
            f'p = "{p}" -> ' + tla_record({k: v for k, v in dflts[p].items() if not is_type(k)}) for p in PATS) + "\n")
        f.write("MaxDevVal(p) == CASE " + " [] ".join(f'p = "{p}" -> {maxdev[p]}' for p in PATS) + "\n====\n")
    with open(os.path.join(d, f"{name}.cfg"), "w") as f:
        f.write("SPECIFICATION Spec\nCONSTANTS\n Pats = {" + ", ".join(f'"{p}"' for p in PATS) + "}\n"
                f" MaxDevOf <- MaxDevVal\n MaxDevT = {maxdevt}\n DfltOf <- DfltVal\n"
                "INVARIANTS CreatorsValid WellFormed Reflexive NoRequirement DropMonotone ErrorNamesField\n"
                "POSTCONDITION Emit\nCHECK_DEADLOCK FALSE\n")
    table = os.path.join(d, "table.ndjson")
    res = vp.tlc(d, name, workers=4, timeout=2400, libs=["service"], env={"OUT": table})
    vp.tlc_require_ok(res, "MC_ServiceCompat")
    allpairs = vp.read_ndjson(table)
    out = [("tlc", (f"ServiceCompat[4 patterns, requirements set <= {maxdev}]", res, True))]

    def one(pat):
        pairs = [p for p in allpairs if p["p"] == pat]
        if len(pairs) < 20:
            raise vp.ToolError(f"requirement matrix for {pat} is too small ({len(pairs)} pairs)")
        for i, p in enumerate(pairs):
            p["i"] = i + 1
        pin = os.path.join(d, f"pairs-{pat}.ndjson")
        vp.write_ndjson(pin, pairs)
        rout = os.path.join(d, f"results-{pat}.ndjson")
        summ = drv(["matrix", "--pat", pat, "--root", ctx.path("dom", "x")[:-2], "--pairs", pin, "--out", rout], ctx.seed)
        results = vp.read_ndjson(rout)
        if len(results) != len(pairs):
            raise vp.ToolError(f"matrix driver reported {len(results)} results for {len(pairs)} pairs")
        return pat, pairs, results, summ

    with cf.ThreadPoolExecutor(max_workers=4) as ex:
        done = list(ex.map(one, PATS))
    for pat, pairs, results, summ in done:
        viol = []
        outcomes = {}
        for p, r in zip(pairs, results):
            why = None
            if r["cr"] != "Ok":
                why = f"creation with valid settings failed: {r['cr']}"
            elif r["s0"] != p["s"]:
                why = f"creator's handle shows {r['s0']} instead of the requested complete settings {p['s']}"
            elif r["r"] not in p["exp"]:
                why = f"open returned {r['r']}, specified: {' or '.join(p['exp'])}"
            elif r["r"] == "Ok" and r["same"] != 1:
                why = f"successful open shows settings {r.get('s')} different from the creator's {r['s0']}"
            elif r["tag"] != (1 if r["r"] == "Ok" else 0):
                why = (f"service not left untouched by the attempt: the opener's node carries {'a' if r['tag'] else 'no'} service tag "
                       f"after open returned {r['r']}")
            elif r["again"] != "Ok" or r["untouched"] != 1:
                why = (f"service not left untouched by the attempt: a following compatible open returned {r['again']}"
                       f" (identical settings: {r['untouched']})")
            elif r["clean"] != 1:
                why = "service still exists after the last handle was dropped"
            elif r["tags_end"] != 0:
                why = f"{r['tags_end']} node(s) still carry a service tag after the last handle was dropped"
            outcomes[r["r"]] = outcomes.get(r["r"], 0) + 1
            if why:
                viol.append((p, r, why))
        if summ.get("leftovers", 0) != 0:
            viol.append(({}, {}, f"{summ['leftovers']} files / shm objects left after the matrix run"))
        out.append(("matrix", (pat, len(pairs), outcomes)))
        for p, r, why in viol[:3]:
            exp = "|".join(p.get("exp", []))
            out.append(("violation", vp.Violation(
                f"{pat}: compatibility matrix: {why} (creator {p.get('c')}, opener {p.get('o')})",
                replay={"kind": "matrix", "pat": pat, "pair": p, "result": r, "why": why, "dflt": dflts[pat]},
                signature=f"matrix:{pat}:{exp}->{r.get('r')}" + (":tag" if "service tag" in why else ""))))
        if len(viol) > 3:
            out.append(("note", f"{pat}: {len(viol)} matrix pairs deviate in total"))
        if pat == "ps":
            k = len(pairs) // 2
            out.append(("sample", {"matrix": pat, "creator": pairs[k]["c"], "opener": pairs[k]["o"],
                                   "specified": pairs[k]["exp"], "observed": results[k]["r"]}))
    return out


def validate_trace(ctx, tag, trace, mode):
    """V1: a recorded history must be explainable by the property layer."""
    recs = vp.read_ndjson(trace)
    runs = vp.split_runs(recs)
    v = vp.tlc_trace("service", "ServiceAbsTrace", trace, timeout=2400, heap="6g")
    out = [("tlc", (f"ServiceAbsTrace[{tag}]", v.res, False))]
    if v.accepted:
        out.append(("accepted", (len(runs), {run_hash(r) for r in runs}, sum(1 for e in recs if e.get("k") == "call"))))
        # Histories that were only explainable with the KnownDeviation rule of ServiceAbs.tla (blackboard open
        # -> ServiceInCorruptedState while a create or the last user's drop overlaps) are violations with
        # the narrow signature of known_findings.json; anything else of that kind was rejected by TLC.
        hits = [(r, i) for r in runs for i, e in enumerate(r)
                if e.get("k") == "ret" and e.get("a") == "open" and e.get("r") == "ServiceInCorruptedState"]
        if hits:
            run, i = hits[0]
            mode = run[0].get("mode", mode)
            out.append(("violation", vp.Violation(
                f"bb/{mode}: open() returned ServiceInCorruptedState for a healthy blackboard service that was being "
                f"created or torn down by an overlapping call ({len(hits)} occurrence(s) in the {mode} histories)",
                replay={"kind": "trace", "mode": mode, "pat": run[0].get("pat"), "first_unexplained": run[i],
                        "position_in_run": i, "invariant": None, "occurrences": len(hits),
                        "history_before": short_history(run[max(1, i - 30):i + 1]),
                        "run": run[:i + 3] if len(run) < 3000 else run[max(0, i - 1500):i + 3], "reset": run[0]},
                signature=KNOWN_BB_SIGNATURE)))
        return out, recs
    if v.pos:
        run, rel = vp.run_containing(recs, v.pos)
    else:
        run, rel = recs[:200], 0
    pat = run[0].get("pat", "?")
    mode = run[0].get("mode", mode)
    first = v.record if isinstance(v.record, dict) else {}
    what = (f"{pat}/{mode}: recorded history is not explainable by the atomic service object: event #{rel} of the run "
            f"({first.get('k')} t{first.get('t')} {first.get('a')} -> {first.get('r')}"
            f"{' exist=' + str(first.get('exist')) + ' files=' + str(first.get('files')) + ' shm=' + str(first.get('shm')) if first.get('k') in ('obs', 'end') else ''})"
            if v.invariant is None else f"{pat}/{mode}: invariant {v.invariant} fails on the explained history")
    out.append(("violation", vp.Violation(
        what,
        replay={"kind": "trace", "mode": mode, "pat": pat, "first_unexplained": v.record, "position_in_run": rel,
                "invariant": v.invariant, "history_before": short_history(run[max(1, rel - 60):rel]),
                "run": run[:rel + 5] if len(run) < 4000 else run[max(0, rel - 2000):rel + 5], "reset": run[0]},
        signature=f"trace:{mode}:{pat}:{first.get('a')}:{first.get('r')}")))
    return out, recs


def part_seq(ctx):
    runs, length = (40, 14) if ctx.quick else (300, 16)
    traces, summaries = [], []
    for pat in PATS:
        t = ctx.path("traces", f"seq-{pat}.ndjson")
        s = drv(["seq", "--pat", pat, "--root", ctx.path("dom", "x")[:-2], "--runs", runs, "--len", length,
                 "--nodes", 3, "--out", t], ctx.seed)
        summaries.append(s)
        traces.append(t)
        need = ["create:Ok", "create:AlreadyExists", "open:Ok", "open:DoesNotExist", "drop:Ok", "exist:Ok"]
        missing = [k for k in need if s["results"].get(k, 0) == 0]
        if missing:
            raise vp.ToolError(f"vacuous sequential histories for {pat}: never observed {missing}")
    allt = ctx.path("traces", "seq-all.ndjson")
    with open(allt, "w") as f:
        for t in traces:
            f.write(open(t).read())
    return [("trace", ("seq", "sequential, 4 patterns", allt)), ("calls", ("seq", summaries))]


def part_conc(ctx, procs, slow=False):
    """Free-running histories: threads, child processes, or child processes one of which (the only
    creator) runs in slow motion - strace injects a delay before and after each of its file / shm
    system calls, so that it is paused after every step of the protocol while its peers keep opening."""
    mode = "slow" if slow else ("procs" if procs else "conc")
    if slow and not strace_works():
        return [("note", "strace not available / not permitted: slow-motion multi-process histories skipped")]
    if ctx.quick:
        runs, iters, threads = (3, 90, "3,2,4") if not procs else ((2, 90, "3,2") if not slow else (1, 300, "3"))
    else:
        runs, iters, threads = (12, 250, "3,2,4,3") if not procs else ((8, 250, "3,2,4") if not slow else (6, 500, "3,4"))

    def one(pat):
        t = ctx.path("traces", f"{mode}-{pat}.ndjson")
        args = ["conc", "--pat", pat, "--root", ctx.path("dom", "x")[:-2], "--runs", runs, "--iters", iters,
                "--threads", threads, "--out", t]
        if procs:
            args.append("--procs")
        if slow:
            args += ["--slow", 1]
        s = drv(args, ctx.seed)
        res_ = s["results"]
        missing = [k for k in ["open:Ok", "drop:Ok"] if res_.get(k, 0) == 0 and not slow]
        if res_.get("create:Ok", 0) + res_.get("ooc:Ok", 0) == 0:
            missing.append("create:Ok|ooc:Ok")
        if missing:
            raise vp.ToolError(f"vacuous concurrent histories for {pat}/{mode}: never observed {missing}")
        return t, s

    # the four patterns are independent domains; two at a time keeps the threads of one run on the CPUs
    with cf.ThreadPoolExecutor(max_workers=2) as ex:
        done = list(ex.map(one, PATS))
    allt = ctx.path("traces", f"{mode}-all.ndjson")
    with open(allt, "w") as f:
        for t, _ in done:
            f.write(open(t).read())
    out = [("trace", (mode, f"{mode}, 4 patterns", allt)), ("calls", (mode, [s for _, s in done]))]
    for _, s in done:
        if s.get("panics", 0):
            out.append(("note", f"{s['pat']}/{mode}: {s['panics']} worker(s) panicked or exited abnormally"))
    return out


def part_sched(ctx):
    """Deterministic one-preemption interleavings of create / open / open_or_create vs the last drop in
    one process (scheduler of vlib, every instrumented atomic access is a yield point)."""
    if ctx.quick:
        pats = [PATS[ctx.seed % len(PATS)]]
        extra = ["--stride", 3]
        scen = ["lastdrop_vs_open", "create_vs_open"]
    else:
        pats = PATS
        extra = ["--stride", 3]
        scen = [None]

    def one(job):
        pat, sc = job
        parts, total, resume = [], None, None
        # (stalls are rare - none in a usual run of the unchanged tree; each costs the watchdog's 60 s)
        for attempt in range(8 if ctx.quick else 60):
            t = ctx.path("traces", f"sched-{pat}-{sc or 'all'}.{attempt}.ndjson")
            args = ["sched", "--pat", pat, "--root", ctx.path("dom", "x")[:-2], "--out", t] + extra
            if sc:
                args += ["--scenario", sc]
            if resume:
                args += ["--resume", resume]
            r = drv(args, ctx.seed, timeout=3000)
            parts.append(t)
            if "hung" not in r:
                total = r
                break
            # a worker paused inside a critical section of a REAL process-global mutex of the code under
            # test blocked its peer in the kernel: not schedulable by the harness, skip this schedule
            resume = r["hung"]
        if total is None:
            raise vp.ToolError(f"scheduler enumeration for {pat}/{sc} stalled too often")
        return parts, total, len(parts) - 1

    with cf.ThreadPoolExecutor(max_workers=4) as ex:
        done = list(ex.map(one, [(p, sc) for p in pats for sc in scen]))
    allt = ctx.path("traces", "sched-all.ndjson")
    with open(allt, "w") as f:
        for parts, _, _ in done:
            for t in parts:
                f.write(open(t).read())
    out = [("trace", ("sched", f"scheduler, {'/'.join(pats)}", allt))]
    summs, skipped = [], 0
    for _, s, nskip in done:
        skipped += nskip
        summs.append({"pat": s["pat"], "calls": s["calls"], "results": s["results"]})
        if s["executions"] < 5:
            raise vp.ToolError(f"vacuous scheduler enumeration: {s}")
        if s["anomalies"]:
            out.append(("note", f"{s['pat']}/sched: {s['anomalies']} execution(s) panicked or did not complete"))
    if skipped:
        out.append(("note", f"sched: {skipped} schedule(s) skipped (a thread was paused inside a process-global mutex "
                            "of the code under test and blocked its peer in the kernel)"))
    out.append(("calls", ("sched", summs)))
    out.append(("schedules", sum(s["executions"] for _, s, _ in done)))
    return out


def part_traces(ctx):
    """Produces all recorded histories (drivers in parallel) and validates them: quick = ONE TLC run over the
    concatenation (the `reset` records carry pattern and mode), thorough = one TLC run per mode."""
    producers = [guarded(part_sched, "sched"), lambda c: guarded(part_conc, "slow")(c, True, True),
                 guarded(part_seq, "seq"), lambda c: guarded(part_conc, "procs")(c, True),
                 lambda c: guarded(part_conc, "conc")(c, False)]
    with cf.ThreadPoolExecutor(max_workers=3 if ctx.quick else 5) as ex:
        produced = [r for rs in ex.map(lambda p: p(ctx), producers) for r in rs]
    out = [r for r in produced if r[0] != "trace"]
    traces = [r[1] for r in produced if r[0] == "trace"]
    if not traces:
        return out
    if ctx.quick:
        allt = ctx.path("traces", "all.ndjson")
        with open(allt, "w") as f:
            for _, _, t in traces:
                f.write(open(t).read())
        jobs = [("all", "all modes, 4 patterns", allt)]
    else:
        jobs = traces
    with cf.ThreadPoolExecutor(max_workers=5) as ex:
        results = list(ex.map(lambda j: validate_trace(ctx, j[1], j[2], j[0]), jobs))
    seen_modes = set()
    for o, recs in results:
        out.extend(o)
        for run in vp.split_runs(recs):
            m = run[0].get("mode")
            if m not in seen_modes and len(run) > 6:
                seen_modes.add(m)
                out.append(("sample", {"mode": m, "pattern": run[0].get("pat"), "history": short_history(run, 30)}))
    return out


# ---------------------------------------------------------------------------------------------
# failing environment (fault injection) and crashed creators: real processes under the LD_PRELOAD shim

import subprocess
import threading
import time

_shim_lock = threading.Lock()
_shim_path = None


def shim_so(ctx):
    """The shim compiled from the CURRENT source into the work directory (never races with another check
    that is using harness/sysshim/sysshim.so)."""
    global _shim_path
    with _shim_lock:
        if _shim_path is None:
            src = os.path.join(vp.HARNESS, "sysshim", "sysshim.c")
            out = ctx.path("shim", "sysshim.so")
            r = subprocess.run(["gcc", "-O2", "-g", "-fPIC", "-D_GNU_SOURCE", "-shared", "-o", out, src, "-ldl",
                                "-lpthread"], stdout=subprocess.PIPE, stderr=subprocess.STDOUT, text=True, timeout=600)
            if r.returncode != 0:
                raise vp.ToolError("cannot build the sysshim:\n" + r.stdout[-2000:])
            _shim_path = out
    return _shim_path


def shim_env(ctx, roots, seed, **kw):
    e = dict(os.environ)
    for k in list(e):
        if k.startswith("IOX2_VERIF_"):
            del e[k]
    e.update({"LD_PRELOAD": shim_so(ctx), "IOX2_VERIF_ROOT": ":".join(roots), "IOX2_LOG_LEVEL": "fatal",
              "VERIF_SEED": str(seed), "RUST_BACKTRACE": "0"})
    e.update({k: str(v) for k, v in kw.items()})
    return e


def obj_kind(name):
    """the kind of object a faulted libc call was about, from its file name"""
    if "." in name:
        k = name.rsplit(".", 1)[1]
        # the node registry of the service, the management and the data segment of the blackboard are POSIX shared
        # memory objects (bb-posix SharedMemoryBuilder); tags and the static config are files (bb-posix FileBuilder)
        return {"dynamic": "shm", "blackboard_mgmt": "shm", "blackboard_data": "shm", "service": "static_config"}.get(k, k)
    return "dir"


def manifest_of(first, before=None):
    """what the first unexplained record shows (for the signature of a fault / crash violation): for a quiescent
    observation what it shows MORE than the observation `before` the faulty call"""
    if not isinstance(first, dict):
        return "?"
    if first.get("hang"):
        return "does_exist/list->Hang"
    if first.get("k") in ("obs", "end"):
        b = before or {}
        parts = [n for n, k in (("exists", "exist"), ("listed", "listed"), ("files", "files"), ("shm", "shm"))
                 if first.get(k, 0) > b.get(k, 0)]
        if set(first.get("tg", [])) - set(b.get("tg", [])):
            parts.append("tag")
        if first.get("k") == "end" and first.get("dirs"):
            parts.append("nodedir")
        less = [n for n, k in (("exists", "exist"), ("files", "files"), ("shm", "shm")) if first.get(k, 0) < b.get(k, 0)]
        if set(b.get("tg", [])) - set(first.get("tg", [])):
            less.append("tag")
        return ("left:" + "+".join(parts) if parts else "") + ("lost:" + "+".join(less) if less else "") or "obs"
    return f"{first.get('a')}->{first.get('r')}"


def obs_before_fault(run):
    last = None
    for e in run:
        if e.get("k") == "obs":
            last = e
        if e.get("k") in ("fault", "crash"):
            return last
    return None


class RunVerdict:
    def __init__(self, pos, record, invariant, res):
        self.pos, self.record, self.invariant, self.res = pos, record, invariant, res


_re_run = re.compile(r'<<"RUN", (\d+), (\d+), (\d+)>>')


def validate_runs(ctx, label, runs, describe):
    """V1 for INDEPENDENT runs (one isolated domain each, sequential calls): ONE TLC invocation of ServiceAbsRuns.tla
    judges every run separately (a `reset` record = an initial state); every unexplainable run is reported
    (describe(run, rel, verdict) -> Violation) without hiding the others."""
    out, accepted, hashes, ncalls = [], 0, set(), 0
    rest = [r for r in runs if r]
    for attempt in range(50):
        if not rest:
            break
        f = ctx.path("traces", f"{label}.{attempt}.ndjson")
        recs = [r for run in rest for r in run]
        vp.write_ndjson(f, recs)
        res = vp.tlc("service", "ServiceAbsRuns", workers=1, timeout=2400, env={"TRACE": f}, coverage=False, heap="3g")
        out.append(("tlc", (f"ServiceAbsRuns[{label}: {len(rest)} runs]", res, False)))
        if res.timed_out:
            raise vp.ToolError(f"trace validation timed out: {label}")
        starts, acc = {}, 1
        for k, run in enumerate(rest):
            starts[acc] = k
            acc += len(run)
        if res.violated and res.violated != "POSTCONDITION":
            # an invariant of the property layer failed while explaining one run: report it, validate the others again
            txt = " ".join(l for _, lines in res.cex[-1:] for l in lines)
            m = re.search(r"run = (\d+)", txt)
            k = starts.get(int(m.group(1))) if m else None
            if k is None:
                raise vp.ToolError(f"{label}: invariant {res.violated} violated, run not identified:\n{res.output[-3000:]}")
            out.append(("violation", describe(rest[k], 0, RunVerdict(None, None, res.violated, res))))
            rest = rest[:k] + rest[k + 1:]
            continue
        verdicts = {}
        for line in res.prints:
            m = _re_run.search(line)
            if m:
                verdicts[int(m.group(1))] = (int(m.group(2)), int(m.group(3)))
        if res.error or len(verdicts) != len(rest) or set(verdicts) != set(starts):
            raise vp.ToolError(f"trace validation gave no verdict ({label}): {res.error}\n{res.output[-4000:]}")
        for first, (far, end) in sorted(verdicts.items()):
            run = rest[starts[first]]
            if far >= end:
                accepted += 1
                hashes.add(run_hash(run))
                ncalls += sum(1 for e in run if e.get("k") == "call")
            else:
                out.append(("violation", describe(run, far - first, RunVerdict(far, recs[far - 1], None, res))))
        rest = []
    else:
        raise vp.ToolError(f"{label}: too many invariant violations")
    out.append(("accepted", (accepted, hashes, ncalls)))
    return out


def fault_history(run, limit=80):
    out = []
    for e in run:
        k = e.get("k")
        if k == "reset":
            out.append(f"[{e.get('mode')} {e.get('pat')} {e.get('scenario', e.get('op', ''))} pos={e.get('pos', e.get('n'))} errno={e.get('errno', 0)}]")
        elif k == "call":
            out.append(f"n{e['nd']}:{e['a']}(c={e['c']})")
        elif k == "ret":
            out.append(f"-> {e['r']}" + (f" #id{e['id']}" if e.get("id") else "") + (f" ={e['v']}" if e["a"] == "exist" else "")
                       + (" [a libc call of this call failed]" if e.get("f") else ""))
        elif k == "fault":
            out.append(f"FAULT: {e['call']}() on <{e['obj'][-40:]}> fails with errno {e['errno']}")
        elif k == "crash":
            out.append(f"CRASH: the process of node {e['nd']} is killed before its {e.get('n')}-th state-changing libc call"
                       + (f" ({e.get('call')} <{e.get('obj', '')[-40:]}>)" if e.get("call") else ""))
        elif k in ("obs", "end"):
            out.append(f"{k}: exist={e['exist']} listed={e['listed']} files={e['files']} shm={e['shm']} tags@nodes={e['tg']}"
                       + (f" node-dirs={e['dirs']}" if k == "end" else ""))
        elif k == "note":
            out.append(f"({e.get('what')} {e.get('nd')})")
    return out[:limit]


def describe_fault(run, rel, v):
    h = run[0]
    flt = next((e for e in run if e.get("k") == "fault"), {})
    first = v.record if isinstance(v.record, dict) else {}
    op = h.get("scenario", "?")
    # the path taken: open_or_create of an absent service is a creation, of an existing one an open
    opk = {"create@absent": "create", "ooc@absent": "create", "create@exists": "create-existing", "open@absent": "open-absent"}.get(op, "open")
    where = f"{flt.get('call', 'no-fault')}@{obj_kind(flt.get('obj', ''))}" if flt else "no-fault"
    before = obs_before_fault(run)
    man = manifest_of(first, before) if v.invariant is None else f"inv:{v.invariant}"
    fr = next((e for e in run if e.get("k") == "ret" and e.get("f")), {})
    what = (f"{h.get('pat')}/fault: {op} - {flt.get('call')}() on the {obj_kind(flt.get('obj', ''))} object fails (errno "
            f"{flt.get('errno')}), the call returns {fr.get('r')}; afterwards the recorded history is not explainable by an "
            f"UNCHANGED service: event #{rel} ({man})"
            if flt else f"{h.get('pat')}/fault: {op} (no fault injected): history not explainable at event #{rel} ({man})")
    if v.invariant is not None:
        what = f"{h.get('pat')}/fault: {op}: invariant {v.invariant} fails on the explained history"
    if first.get("hang") or first.get("r") == "Hang":
        what += f" - a call does not terminate: {first.get('hang') or first.get('why')}"
    return vp.Violation(what, replay={"kind": "trace", "mode": "fault", "pat": h.get("pat"), "first_unexplained": v.record,
                                      "position_in_run": rel, "invariant": v.invariant, "history_before": fault_history(run),
                                      "run": run, "reset": h},
                        signature=f"fault:{opk}:{where}:{man}")


def part_fault(ctx):
    """Every state-changing libc call of create / open / open_or_create fails once (sysshim, re-armed in process):
    quick = all positions for publish-subscribe + a seeded sample for the other patterns."""
    root = ctx.path("dom", "x")[:-2]
    if ctx.quick:
        plan = {"ps": (0, "0"), "ev": (3, "0"), "rr": (3, "0"), "bb": (0, "0")}
    else:
        plan = {p: (0, "0,24,4") for p in PATS}         # default errno, EMFILE, EINTR

    def one(pat):
        sample, errnos = plan[pat]
        parts, summaries, resume, skip = [], [], None, []
        for attempt in range(60):
            t = ctx.path("traces", f"fault-{pat}.{attempt}.ndjson")
            args = ["fault", "--pat", pat, "--root", root, "--out", t, "--sample", sample, "--errnos", errnos,
                    "--timeout", FAULT_TIMEOUT_MS, "--tag", TAG]
            if resume:
                args += ["--resume", resume]
            if skip:
                args += ["--skip", ",".join(map(str, skip))]
            exe = os.path.join(vp.TARGET_BIN, "drv-service")
            slog, sout, serr = (ctx.path("fault", f"{pat}.{attempt}.{x}") for x in ("syslog", "stdout", "stderr"))
            with open(sout, "w") as fo, open(serr, "w") as fe:
                proc = subprocess.Popen([exe] + [str(a) for a in args], stdout=fo, stderr=fe,
                                        env=shim_env(ctx, [root + "/", "/dev/shm/c6" + TAG], ctx.seed,
                                                     IOX2_VERIF_SYSLOG=slog, IOX2_VERIF_SYSLOG_MAX=1 << 20))
                hang = watch_call(proc, slog, t, FAULT_TIMEOUT_MS)
                if hang:
                    proc.kill()
                proc.wait()

            class r:
                returncode, stdout, stderr = proc.returncode, open(sout).read(), open(serr, errors="replace").read()
            if os.path.exists(slog):
                os.remove(slog)
            if r.returncode == 2:
                raise vp.ToolError(f"fault driver reported a harness problem ({pat}):\n{r.stderr[-2000:]}")
            recs = vp.read_ndjson(t) if os.path.exists(t) else []
            parts.append(recs)
            if r.returncode == 0:
                summaries.append(vp.last_json_line(r.stdout))
                break
            if hang and recs and recs[-1].get("k") not in ("call", "fault"):
                # the quiescent observation (Service::does_exist / Service::list) after the last call never returned
                recs.append({"k": "obs", "exist": -2, "listed": -2, "files": 0, "shm": 0, "panics": 0, "tg": [], "dirs": 0,
                             "crashed": 0, "g": recs[-1].get("g", 0) + 1, "hang": hang})
            # the process died inside the code under test (panic: exit 4 with a summary; abort / signal: nothing):
            # the pending call gets the result the history shows - none - and the enumeration goes on behind it
            last_reset = next((e for e in reversed(recs) if e.get("k") == "reset"), None)
            if last_reset is None:
                raise vp.ToolError(f"fault driver died before its first run ({pat}, exit {r.returncode}):\n{r.stderr[-2000:]}")
            if r.returncode == 4:
                summaries.append(vp.last_json_line(r.stdout))
            if recs and recs[-1].get("k") in ("call", "fault"):
                c = next(e for e in reversed(recs) if e.get("k") == "call")
                recs.append({"k": "ret", "t": c["t"], "a": c["a"], "r": "Hang" if hang else "Abort", "id": 0, "s": {}, "v": 0,
                             "h": c["h"], "f": 1, "g": c.get("g", 0) + 1, "exit": r.returncode, "why": hang or ""})
            if last_reset["pos"] == 0:
                skip.append(last_reset["si"])
                resume = f"{last_reset['si'] + 1},0,-1"
            else:
                resume = f"{last_reset['si']},{last_reset['pos']},{last_reset['ei']}"
        else:
            raise vp.ToolError(f"fault enumeration for {pat} died too often")
        return pat, [r for p_ in parts for r in p_], summaries

    with cf.ThreadPoolExecutor(max_workers=2) as ex:
        done = list(ex.map(one, PATS))
    out, groups, summs = [], {}, []
    for pat, recs, summaries in done:
        # counted from the RECORDED histories (a driver part that died has no summary)
        tot = {"pat": pat, "calls": 0, "results": {}, "injected": 0, "runs": 0, "fault_results": {}, "positions": []}
        for s_ in summaries:
            for p_ in s_.get("positions", []):
                if p_ not in tot["positions"]:
                    tot["positions"].append(p_)
        for e in recs:
            k = e.get("k")
            if k == "reset":
                tot["runs"] += 1
            elif k == "fault":
                tot["injected"] += 1
            elif k == "ret":
                tot["calls"] += 1
                key = f"{e['a']}:{e['r']}"
                tot["results"][key] = tot["results"].get(key, 0) + 1
                if e.get("f"):
                    tot["fault_results"][key] = tot["fault_results"].get(key, 0) + 1
        fr = tot["fault_results"]
        # vacuity: faults were really injected, into creations and into opens, and some calls failed because of them
        # (strict for the fully enumerated patterns; a seeded sample may consist of few failable positions)
        full = plan[pat][0] == 0
        if tot["injected"] < (8 if full else 1) or (full and (
                not any(k.startswith("create:") and not k.endswith(":Ok") for k in fr)
                or not any(k.startswith("open:") and not k.endswith(":Ok") for k in fr))):
            out.append(("vacuity", f"vacuous fault injection for {pat}: {tot['injected']} faults, results {fr}"))
        summs.append(tot)
        for run in vp.split_runs(recs):
            groups.setdefault((pat, "all"), []).append(run)
    out.extend(validate_runs(ctx, "fault-all", [run for _, runs_ in sorted(groups.items()) for run in runs_], describe_fault))
    out.append(("calls", ("fault", [{"pat": s_["pat"], "calls": s_["calls"], "results": s_["results"]} for s_ in summs])))
    out.append(("fault", summs))
    shown = False
    for (pat, sc), runs in sorted(groups.items()):
        for run in runs:
            if not shown and any(e.get("k") == "fault" for e in run) and pat == "ps":
                out.append(("sample", {"mode": "fault", "pattern": pat, "history": fault_history(run, 30)}))
                shown = True
    return out


# ---- crashed creator --------------------------------------------------------------------------------------

MIN_TICK_MS = 1          # the shortest sleep of one iteration of a bounded wait in the code (AdaptiveWait FixedTicks(1 ms) in
                         # cal dynamic_storage; the builders use config::IO_TICK_TIME = 25 ms)
OPENER_TIMEOUT_MS = 100
FAULT_TIMEOUT_MS = 150
HANG_BOUND_S = max(20.0, 30 * OPENER_TIMEOUT_MS / 1000.0)
HANG_HARD_LIMIT_S = 400.0


def loop_sample(syslog):
    """(loop signature, highest record index) if the tail of the process' own syscall log is a retry loop over a
    few objects, else None."""
    try:
        with open(syslog, "rb") as f:
            f.seek(0, os.SEEK_END)
            size = f.tell()
            f.seek(max(0, size - 120000))
            tail = f.read().decode(errors="replace").splitlines()[1:]
    except OSError:
        return None
    recs = []
    for line in tail:
        try:
            recs.append(json.loads(line))
        except ValueError:
            pass
    recs = [r for r in recs if r.get("k") == "sys"][-300:]
    if len(recs) < 200:
        return None
    sig = frozenset((r["call"], os.path.basename(r["path"])) for r in recs)
    if len(sig) > 24:
        return None
    return sig, max(r["i"] for r in recs)


def watch_call(proc, syslog, progress, timeout_ms):
    """Waits for the process. A HANG is declared only on proof: the process is still running and has not recorded
    anything new in `progress` (its event file) for HANG_BOUND_S (>= 30 x the creation timeout, >= 20 s) AND samples
    of its own syscall log taken >= 2 s apart show the SAME retry loop still growing AND the loop made more
    iterations between the samples than a wait bounded by the creation timeout can make in total (it sleeps at
    least MIN_TICK_MS per iteration) - machine load cannot produce that.
    Returns None (finished) or the description of the loop."""
    bound = max(HANG_BOUND_S, 30 * timeout_ms / 1000.0)
    t0, first, last_size, last_change = time.time(), None, -1, time.time()
    while True:
        if proc.poll() is not None:
            return None
        now = time.time()
        time.sleep(0.05 if now - t0 < 3 else 0.5)
        try:
            size = os.path.getsize(progress)
        except OSError:
            size = 0
        if size != last_size:
            last_size, last_change, first = size, now, None
        quiet = now - last_change
        if quiet >= bound:
            sp = loop_sample(syslog)
            if sp is None or (first and first[0] != sp[0]):
                first = None
            if sp is not None:
                if first is None:
                    first = (sp[0], sp[1], now)
                elif now - first[2] >= 2.0 and sp[1] - first[1] >= 10 * len(sp[0]) * (timeout_ms // MIN_TICK_MS + 2):
                    objs = sorted({o for _, o in sp[0]})
                    return (f"no result for {quiet:.0f}s (creation timeout {timeout_ms} ms); the process' own syscall log shows the "
                            f"same retry loop over {objs[:4]} growing by {sp[1] - first[1]} calls in {now - first[2]:.1f}s")
        if quiet > HANG_HARD_LIMIT_S:
            raise vp.ToolError(f"a driver process neither made progress nor could be proven to hang within {HANG_HARD_LIMIT_S}s")


def map_uids(events):
    ids = []
    for e in events:
        if "uid" in e:
            u = e.pop("uid")
            if not u:
                e["id"] = 0
            else:
                if u not in ids:
                    ids.append(u)
                e["id"] = ids.index(u) + 1
    return events


def crash_scenario(ctx, pat, op, n):
    """Victim (node 0) killed before its n-th state-changing libc call (n = 0: not killed); then the opener process.
    Returns the composed run (list of records) and whether a hang was proven."""
    root = ctx.path("dom", "x")[:-2]
    name = f"k{pat}{op[0]}{n}"
    droot = os.path.join(root, name + TAG)
    prefix = f"c6{TAG}{name}_"
    roots = [droot, "/dev/shm/" + prefix]
    shared = ctx.path("crash", f"{name}.shared")
    vev, oev = ctx.path("crash", f"{name}.victim.ndjson"), ctx.path("crash", f"{name}.opener.ndjson")
    olog = ctx.path("crash", f"{name}.opener.syslog")
    vlog = ctx.path("crash", f"{name}.victim.syslog")
    exe = os.path.join(vp.TARGET_BIN, "drv-service")
    common = ["--pat", pat, "--root", droot, "--prefix", prefix, "--shared", shared, "--tag", TAG]
    kw = {"IOX2_VERIF_KILL_AT": n, "IOX2_VERIF_SYSLOG": vlog} if n else {}
    r = subprocess.run([exe, "victim", "--events", vev, "--op", op, "--n", str(n)] + common, stdout=subprocess.PIPE,
                       stderr=subprocess.PIPE, text=True, timeout=600, env=shim_env(ctx, roots, ctx.seed, **kw))
    if r.returncode == 2:
        raise vp.ToolError(f"victim reported a harness problem: {r.stderr[-1500:]}")
    killed = r.returncode == -9
    if n and not killed and r.returncode != 0:
        pass            # died on its own: shows as a call without return below
    events = vp.read_ndjson(vev) if os.path.exists(vev) else []
    if not events or events[0].get("k") != "reset":
        raise vp.ToolError(f"victim wrote no history ({pat} n={n}, exit {r.returncode}): {r.stderr[-800:]}")
    victim_info = [json.loads(l) for l in r.stdout.splitlines() if l.startswith("{")]
    if r.returncode != 0:
        kill = {}
        if os.path.exists(vlog):
            for line in open(vlog, errors="replace"):
                if line.startswith('{"k":"kill"'):
                    kill = json.loads(line)
        events.append({"k": "crash", "t": 0, "nd": 0, "n": n, "call": kill.get("call", ""),
                       "obj": os.path.basename(kill.get("path", "")), "exit": r.returncode, "g": 0})
    if os.path.exists(vlog):
        os.remove(vlog)
    dead = r.returncode != 0
    oerr = ctx.path("crash", f"{name}.opener.stderr")
    with open(oerr, "w") as ef:
        p = subprocess.Popen([exe, "opener", "--events", oev, "--timeout", str(OPENER_TIMEOUT_MS), "--crashed",
                              "1" if dead else "0"] + common, stdout=subprocess.DEVNULL, stderr=ef,
                             env=shim_env(ctx, roots, ctx.seed, IOX2_VERIF_SYSLOG=olog, IOX2_VERIF_SYSLOG_MAX=1 << 20))
        hang = watch_call(p, olog, oev, OPENER_TIMEOUT_MS)
        if hang:
            p.kill()
        p.wait()
    se = open(oerr, errors="replace").read()
    oevents = vp.read_ndjson(oev) if os.path.exists(oev) else []
    if p.returncode == 2:
        raise vp.ToolError(f"opener reported a harness problem: {se[-1500:]}")
    events += oevents
    pending = next((e for e in reversed(oevents) if e.get("k") in ("call", "ret")), None)
    if pending is not None and pending["k"] == "call":
        # the call never returned: proven hang, or the process died inside it
        events.append({"k": "ret", "t": pending["t"], "a": pending["a"], "r": "Hang" if hang else "Abort", "uid": "", "s": {},
                       "v": 0, "h": pending["h"], "f": 0, "g": 0, "why": hang or f"exit {p.returncode}"})
    elif not hang and p.returncode != 0:
        events.append({"k": "note", "what": f"opener-exit:{p.returncode}", "nd": 0, "g": 0})
    if not any(e.get("k") == "end" for e in oevents):
        events.append({"k": "end", "exist": 0, "listed": 0, "files": 0, "shm": 0, "panics": 0 if hang or p.returncode == 0 else 1,
                       "tg": [], "dirs": 0, "crashed": 1, "g": 0})
    for i, e in enumerate(events):
        if e.get("k") != "reset":
            e["g"] = i
    map_uids(events)
    shutil.rmtree(droot, ignore_errors=True)
    for fn in os.listdir("/dev/shm"):
        if fn.startswith(prefix):
            try:
                os.remove(os.path.join("/dev/shm", fn))
            except OSError:
                pass
    if os.path.exists(olog):
        os.remove(olog)
    return events, hang, victim_info


def describe_crash(run, rel, v):
    h = run[0]
    first = v.record if isinstance(v.record, dict) else {}
    cr = next((e for e in run if e.get("k") == "crash"), {})
    where = f"{cr.get('call', 'none')}@{obj_kind(cr.get('obj', ''))}" if cr else "no-crash"
    if first.get("r") == "Hang":
        what = (f"{h.get('pat')}/crash: the creator was killed before its {cr.get('n')}-th state-changing libc call "
                f"({cr.get('call')} on the {obj_kind(cr.get('obj', ''))} object); {first.get('a')}() of node {first.get('t')} in another "
                f"process does not terminate: {first.get('why')}")
        man = f"{first.get('a')}->Hang"
    else:
        man = manifest_of(first) if v.invariant is None else f"inv:{v.invariant}"
        what = (f"{h.get('pat')}/crash: creator killed before its {cr.get('n')}-th state-changing libc call ({where}): the history of the "
                f"surviving process is not explainable at event #{rel} ({man})")
    return vp.Violation(what, replay={"kind": "trace", "mode": "crash", "pat": h.get("pat"), "first_unexplained": v.record,
                                      "position_in_run": rel, "invariant": v.invariant, "history_before": fault_history(run),
                                      "run": run, "reset": h},
                        # (the victim's creating call is create() or open_or_create(): the same creation path)
                        signature=f"crash:create:{where}:{man}")


def part_crash(ctx):
    """A real creator is SIGKILLed before its N-th state-changing libc call, for every N of create() (quick: all N
    for publish-subscribe, a seeded sample for the others); then another process opens / open_or_creates with a
    small creation timeout, without and with the dead-node cleanup.  Every call must RETURN."""
    import random
    rnd = random.Random(ctx.seed * 7919 + 17)
    jobs, meta = [], {}
    for pat in PATS:
        ops = ["create"] if ctx.quick or pat == "bb" else ["create", "ooc"]
        for op in ops:
            dry, _, info = crash_scenario(ctx, pat, op, 0)
            vi = next((x for x in info if x.get("k") == "victim"), None)
            if vi is None or vi["r"] != "Ok":
                raise vp.ToolError(f"dry run of the victim failed ({pat}/{op}): {info}")
            ns = list(range(vi["n0"] + 1, vi["n1"] + 2))
            meta[(pat, op)] = {"n0": vi["n0"], "n1": vi["n1"], "dry": dry}
            if ctx.quick and pat in ("ev", "rr"):
                ns = sorted(rnd.sample(ns, min(4, len(ns))))
            jobs += [(pat, op, n) for n in ns]
    with cf.ThreadPoolExecutor(max_workers=4) as ex:
        done = list(ex.map(lambda j: (j, crash_scenario(ctx, *j)), jobs))
    runs, hangs, calls, results = [m["dry"] for m in meta.values()], 0, 0, {}
    killed = 0
    for (pat, op, n), (events, hang, _) in done:
        runs.append(events)
        hangs += 1 if hang else 0
        killed += 1 if any(e.get("k") == "crash" for e in events) else 0
    for run in runs:
        pat = run[0]["pat"]
        for e in run:
            if e.get("k") == "ret":
                calls += 1
                key = f"{pat}/crash/{e['a']}:{e['r']}"
                results[key] = results.get(key, 0) + 1
    vac = []
    if killed < len(jobs) * 0.8:
        vac.append(("vacuity", f"vacuous crash injection: only {killed} of {len(jobs)} victims were killed"))
    if not any(k.endswith("open:HangsInCreation") for k in results) and hangs == 0:
        vac.append(("vacuity", f"vacuous crash histories: no opener ever met a half-created service ({results})"))
    out = vac + validate_runs(ctx, "crash-all", runs, describe_crash)
    out.append(("crash", {"scenarios": len(jobs), "killed": killed, "proven_hangs": hangs, "calls": calls, "results": results,
                          "ranges": {f"{p}/{o}": [m["n0"], m["n1"]] for (p, o), m in meta.items()}}))
    smp = next((r for r in runs if r[0]["pat"] == "ps" and any(e.get("k") == "crash" for e in r)
                and any(e.get("r") == "HangsInCreation" for e in r)), None)
    if smp:
        out.append(("sample", {"mode": "crash", "pattern": "ps", "history": fault_history(smp, 30)}))
    return out



def selftest(ctx):
    """The binding is real: corrupting one recorded field makes the trace unexplainable."""
    src = ctx.path("traces", "seq-ps.ndjson")
    recs = vp.read_ndjson(src)
    done = []
    for what in ("id", "result", "leftover"):
        bad = [dict(r) for r in recs]
        for i, r in enumerate(bad):
            if what == "id" and r.get("k") == "ret" and r.get("a") == "open" and r.get("r") == "Ok":
                r["id"] = r["id"] + 1
                break
            if what == "result" and r.get("k") == "ret" and r.get("a") == "create" and r.get("r") == "AlreadyExists":
                r["r"] = "Ok"
                r["id"] = 99
                break
            if what == "leftover" and r.get("k") == "end":
                r["files"] = 1
                break
        p = ctx.path("traces", f"selftest-{what}.ndjson")
        vp.write_ndjson(p, bad)
        v = vp.tlc_trace("service", "ServiceAbsTrace", p, timeout=900)
        if v.accepted:
            raise vp.ToolError(f"selftest: a history with a corrupted {what} was accepted - the trace binding is vacuous")
        done.append(what)
    # fault / crash histories (validated run by run with ServiceAbsRuns.tla): one corrupted field -> that run is rejected
    def first_run(path, pred):
        return next((r for r in vp.split_runs(vp.read_ndjson(path)) if pred(r)), None)

    def must_reject(what, run):
        if run is None:
            raise vp.ToolError(f"selftest: no recorded history to corrupt for '{what}'")
        res = validate_runs(ctx, f"selftest-{what}", [run], lambda r, rel, v: vp.Violation("selftest", signature="selftest"))
        if not any(k == "violation" for k, _ in res):
            raise vp.ToolError(f"selftest: a history with a corrupted {what} was accepted - the trace binding is vacuous")
        done.append(what)

    fp, cp = ctx.path("traces", "fault-all.0.ndjson"), ctx.path("traces", "crash-all.0.ndjson")
    if os.path.exists(fp):
        good = lambda r: any(e.get("k") == "ret" and e.get("f") and e["r"] != "Ok" for e in r) and \
            not any(k == "violation" for k, _ in validate_runs(ctx, "selftest-probe", [r], lambda *_: vp.Violation("x")))
        run = first_run(fp, good)
        if run is not None:
            bad = [dict(e) for e in run]
            next(e for e in bad if e.get("k") == "ret" and e.get("f"))["f"] = 0       # the failure is not excused by a fault
            must_reject("fault-flag", bad)
            bad = [dict(e) for e in run]
            o = next(e for e in bad if e.get("k") == "obs")
            o["tg"] = sorted(set(o["tg"]) | {2})                                           # a tag nobody is entitled to
            must_reject("service-tag", bad)
            bad = [dict(e) for e in run]
            i = next(i for i, e in enumerate(bad) if e.get("k") == "ret" and e.get("f"))
            nxt = next(e for e in bad[i:] if e.get("k") == "obs")
            nxt["files"] = nxt["files"] + 1                                                # something left by the failed call
            must_reject("leftover-after-failed-call", bad)
        else:
            raise vp.ToolError("selftest: no accepted fault history with a failed call")
    if os.path.exists(cp):
        run = first_run(cp, lambda r: any(e.get("k") == "crash" for e in r) and any(e.get("r") == "HangsInCreation" for e in r)
                        and not any(e.get("r") in ("Hang", "Abort") for e in r))
        if run is not None:
            bad = [dict(e) for e in run]
            next(e for e in bad if e.get("r") == "HangsInCreation")["r"] = "Hang"          # a call that never returned
            must_reject("termination", bad)
            bad = [dict(e) for e in run if e.get("k") != "crash"]                          # without the crash nothing excuses the errors
            must_reject("crash-record", bad)
    ctx.note(f"selftest: corrupted histories rejected ({', '.join(done)})")


# ---------------------------------------------------------------------------------------------

def run(ctx):
    vp.cargo_build(["drv-service"])
    quick = ctx.quick
    ctx.assumptions += [
        "call/ret stamps from one SeqCst counter under-approximate the real-time order (sound for linearizability)",
        "transient documented errors (AlreadyExists/IsBeingCreatedByAnotherInstance for create, IsMarkedForDestruction/"
        "HangsInCreation for open, the open_or_create variants, 'not listed' for "
        "does_exist/list) are accepted only when a create/open_or_create/drop of another thread overlaps",
        "ServiceLifecycle: steps of builder/mod.rs and ServiceState::drop as read at the pinned revision, system "
        "calls atomic, time abstracted to a retry budget, no crashes",
        "isolated domains (own global.prefix, root path and default QoS values) under the work directory",
        "scheduler mode: one preemption per execution, yield points = instrumented atomic accesses; a thread "
        "waiting for a paused peer gives up after a short creation timeout (a justified transient error)",
        "fault injection: one failing libc call per operation (errno: the usual one of the call; thorough also EMFILE, "
        "EINTR), sequential histories, numbering of the LD_PRELOAD shim (state-changing calls on paths of the isolated domain)",
        "crash = SIGKILL immediately before a state-changing libc call of create()/open_or_create(); the surviving process "
        "starts after the victim is dead; bounded waits of the code sleep >= 1 ms per iteration (hang proof)",
    ]
    root = ctx.path("dom", "x")[:-2]
    strace_works()          # probe once, before the worker threads start
    dflts = {p: drv(["defaults", "--pat", p, "--root", os.path.join(root, "dflt")], ctx.seed) for p in PATS}

    jobs = []
    shim_so(ctx)
    with cf.ThreadPoolExecutor(max_workers=7 if quick else 8) as ex:
        jobs.append(ex.submit(part_traces, ctx))
        jobs.append(ex.submit(guarded(part_matrix, "matrix"), ctx, dflts))
        jobs.append(ex.submit(part_abs_model, ctx))
        jobs.append(ex.submit(guarded(part_fault, "fault"), ctx))
        jobs.append(ex.submit(guarded(part_crash, "crash"), ctx))
        if quick:
            jobs.append(ex.submit(part_lifecycle, ctx, "LC_2x2", 2, 2, 1, False, True, False))
            jobs.append(ex.submit(part_lifecycle, ctx, "LC_2x2_res_fault", 2, 2, 0, True, False, True, 1, 0))
            jobs.append(ex.submit(part_lifecycle, ctx, "LC_2x2_res_crash", 2, 2, 1, True, False, True, 0, 1))
        else:
            jobs.append(ex.submit(part_lifecycle, ctx, "LC_2x2_ooc_fault", 2, 2, 1, False, True, False, 1, 0))
            jobs.append(ex.submit(part_lifecycle, ctx, "LC_2x2_res_fault", 2, 2, 1, True, False, True, 1, 0))
            jobs.append(ex.submit(part_lifecycle, ctx, "LC_2x2_res_crash", 2, 2, 1, True, False, True, 0, 1))
            jobs.append(ex.submit(part_lifecycle, ctx, "LC_2x2_ooc_crash", 2, 2, 1, False, True, True, 0, 1))
            jobs.append(ex.submit(part_must_fail, ctx, "MF_static_released_early", {"rsl": False, "faults": 1}, 2, 0))
            jobs.append(ex.submit(part_must_fail, ctx, "MF_tag_released_at_once", {"tod": False, "faults": 1}, 2, 0))
            jobs.append(ex.submit(part_must_fail, ctx, "MF_unbounded_dyn_wait", {"bdw": False, "crashes": 1, "live": True}, 2, 1))
            jobs.append(ex.submit(part_lifecycle, ctx, "LC_2x3", 2, 3, 1, False, True, True))
            jobs.append(ex.submit(part_lifecycle, ctx, "LC_2x3_res", 2, 3, 2, True, False, False))
            jobs.append(ex.submit(part_lifecycle, ctx, "LC_3x2", 3, 2, 0, False, False, False))
            jobs.append(ex.submit(part_must_fail, ctx, "MF_unlock_before_write", {"wbu": False}))
            jobs.append(ex.submit(part_must_fail, ctx, "MF_no_lock_on_last", {"lol": False}))
            jobs.append(ex.submit(part_must_fail, ctx, "MF_register_after_finalise", {"rii": False}))
        results, tool_errors = [], []
        for j in jobs:
            try:
                results.extend(j.result())
            except vp.ToolError as e:        # raised again below, AFTER the violations of the other parts were reported
                tool_errors.append(e)

    hashes, calls, pairs_total = set(), 0, 0
    per_result, vacuous = {}, []
    for kind, payload in results:
        if kind == "tlc":
            name, res, count = payload
            vp.record_tlc(ctx, name, res, count=count)
        elif kind == "accepted":
            nruns, hs, ncalls = payload
            ctx.traces_validated += nruns
            hashes |= hs
        elif kind == "violation":
            ctx.report(payload)
        elif kind == "note":
            ctx.note(payload)
        elif kind == "sample":
            ctx.sample(payload)
        elif kind == "matrix":
            pat, n, outcomes = payload
            pairs_total += n
            ctx.coverage.setdefault("matrix_outcomes", {})[pat] = outcomes
        elif kind == "calls":
            mode, summs = payload
            for s in summs:
                calls += s["calls"]
                for k, v in s["results"].items():
                    per_result[f"{s['pat']}/{mode}/{k}"] = per_result.get(f"{s['pat']}/{mode}/{k}", 0) + v
        elif kind == "order":
            pat, steps, params = payload
            ctx.coverage.setdefault("extracted_step_order", {})[pat] = {"steps": steps, "parameters": params}
        elif kind == "schedules":
            ctx.coverage["scheduler_executions"] = payload
        elif kind == "vacuity":
            vacuous.append(payload)
        elif kind == "fault":
            ctx.coverage["fault_injection"] = [
                {"pat": f["pat"], "runs": f["runs"], "faults_injected": f["injected"], "results_of_faulted_calls": f["fault_results"],
                 "libc_calls_per_operation": {p_["scenario"]: p_["calls"] for p_ in f["positions"]}} for f in payload]
        elif kind == "crash":
            ctx.coverage["crashed_creator"] = payload
            calls += payload["calls"]
            for k, v in payload["results"].items():
                per_result[k] = per_result.get(k, 0) + v
        elif kind == "mustfail":
            name, res = payload
            vp.record_tlc(ctx, f"must-fail {name}", res, count=False)
            if not res.violated:
                raise vp.ToolError(f"must-fail instance {name} was not refuted: the lifecycle model is blind to it")
    if tool_errors:
        raise tool_errors[0]
    if vacuous:
        # reported AFTER the violations (bin/check prints recorded violations before a tool error)
        raise vp.ToolError("; ".join(vacuous))
    if not quick:
        selftest(ctx)

    transient = {k: v for k, v in per_result.items()
                 if any(x in k for x in ("IsMarkedForDestruction", "HangsInCreation", "ServiceInCorruptedState",
                                         "SystemInFlux", "IsBeingCreated"))}
    ctx.coverage["transient_errors_observed"] = transient
    ctx.coverage["results_by_pattern_mode"] = {k: per_result[k] for k in sorted(per_result)}
    ctx.coverage["matrix_pairs"] = pairs_total
    ctx.evaluations = calls + pairs_total
    ctx.distinct = len(hashes) + pairs_total
    ctx.coverage["rule"] = ("evaluations = API calls executed in recorded histories + creator/opener pairs replayed; "
                            "distinct = distinct histories (hash of the call/result sequence of a run) + distinct pairs; "
                            "states/transitions = TLC on ServiceAbs, ServiceLifecycle and ServiceCompat instances")
    shutil.rmtree(root, ignore_errors=True)
    for n in os.listdir("/dev/shm"):
        if n.startswith("c6" + TAG):
            try:
                os.remove(os.path.join("/dev/shm", n))
            except OSError:
                pass


def replay(ctx, path):
    body = json.load(open(path))
    print(json.dumps({k: body.get(k) for k in ("what", "kind", "mode", "pat", "first_unexplained", "invariant",
                                                 "why", "pair", "result")}, indent=1))
    if body.get("kind") == "trace":
        print("history before the first unexplained event:")
        for l in body.get("history_before", []):
            print("  ", l)
        p = ctx.path("replay.ndjson")
        run = body["run"]
        if run and run[0].get("k") != "reset":
            run = [body["reset"]] + run
        vp.write_ndjson(p, run)
        v = vp.tlc_trace("service", "ServiceAbsTrace", p)
        print("re-validation of the recorded run:", "accepted" if v.accepted else
              f"rejected at record {v.pos}: {v.record} {v.invariant or ''}")
        return 0 if v.accepted else 1
    if body.get("kind") == "matrix":
        vp.cargo_build(["drv-service"])
        pin = ctx.path("pair.ndjson")
        pr = dict(body["pair"], i=1)
        vp.write_ndjson(pin, [pr])
        rout = ctx.path("pair-result.ndjson")
        drv(["matrix", "--pat", body["pat"], "--root", ctx.path("dom", "x")[:-2], "--pairs", pin, "--out", rout], ctx.seed)
        r = vp.read_ndjson(rout)[0]
        print("re-execution against the current tree:", json.dumps(r))
        return 0 if r["r"] in pr["exp"] and r["untouched"] == 1 else 1
    return 0
