"""C14 - Shared-memory data structures are position independent."""
import importlib.util
import json
import os

import vp

_spec = importlib.util.spec_from_file_location("check_C16_lib", os.path.join(os.path.dirname(os.path.abspath(__file__)), "C16.py"))
c16 = importlib.util.module_from_spec(_spec)
_spec.loader.exec_module(c16)

META = {
    "level": "model_checking",
    "engine": "tla-graph-lockstep",
    "technique": "TLC model checking of the TLA+ reference models of the relocatable structures extended with a "
                 "Relocate action that leaves the abstract state unchanged; the state graph dumped by TLC is walked in "
                 "graph lock-step with the real structures while the backing memory block is copied byte for byte to a "
                 "fresh, differently aligned address (old block poisoned and mprotect(PROT_NONE)) at arbitrary points; "
                 "recorded walks with relocations are validated by TLC trace specifications; in addition the complete memory image "
                 "is handed to a SECOND PROCESS (fresh exec of the driver, all addresses differ under ASLR) which adopts "
                 "it byte for byte, must observe the same model state and continues the lock-step walk",
    "text": "TLC checks CVec/CQueue/CSlotMap/CFlatMap/CString/CIndexSet/CBitSet.tla with the action Relocate and the "
            "action property PositionIndependent (Relocate changes nothing observable, so every later result equals the "
            "result without it). The bounded graphs are then walked on RelocatableVec/Queue/SlotMap/FlatMap/String, the "
            "inline Static*/FixedSize* variants, and the lock-free RelocatableIndexQueue, "
            "RelocatableSafelyOverflowingIndexQueue, UniqueIndexSet and RelocatableBitSet (plus their FixedSize forms), "
            "each placed behind its header in a driver-owned page-granular block and initialised through a "
            "BumpAllocator: edge cover with a relocation after every edge, all paths up to the reported depth with a "
            "relocation optionally before every operation (all subsets of positions), seeded random walks with "
            "relocations. After every step and every relocation the result and the full observable state are compared "
            "with the automaton; a fault on the poisoned block is caught in a child process and reported. Also driven: "
            "the cal shm_allocator PoolAllocator (management data + payload in one block, seen as an index set: bucket "
            "index = offset / bucket size) and the cal zero-copy-connection UsedChunkList (relocatable and fixed-size, "
            "seen as a bit set: insert = set, remove_all = reset_all). Hand-over: every structure / flavour / capacity is "
            "walked for a few steps, its image written to a file and adopted by a freshly executed second process that "
            "continues the walk (an address of the first process that survived in the image - block pointer, function "
            "pointer, address of a static - faults or diverges there).",
    "note": "Trusted: TLC, the JSON edge dump, the driver's adapters and its relocation (memcpy of header + payload as "
            "allocated by RelocatableContainer::init from the bump allocator; in-slot offsets vary in multiples of 16 so "
            "that element alignment is preserved). A divergence is attributed to C14 only if the same history without "
            "the relocations does not diverge (otherwise it is C16's). Not covered: mpmc::Container (no "
            "sequential reference model built; its position independence is exercised by every multi-process run of "
            "C04/C06); dual mapping of a real POSIX shm object (the byte copy and the hand-over to a second process subsume "
            "it for structures that are self-contained in their block). The hand-over relies on ASLR (kernel."
            "randomize_va_space); without it the second process has the same layout and the step loses power, never soundness.",
    "design_ref": "DESIGN.md 5 C14, 3.5",
    "replay": True,
}

EXTRA = {
    "indexqueue": {"module": "CQueue", "consts": {}, "invs": ["TypeOK", "LenBounded"], "trace": "CIdxQueueTrace",
                   "need": [("push", "true"), ("push", "false"), ("pop", "some"), ("pop", "none"), ("relocate", "ok")]},
    "oindexqueue": {"module": "CQueue", "consts": {}, "invs": ["TypeOK", "LenBounded"], "trace": "CIdxQueueTrace",
                    "need": [("push_with_overflow", "none"), ("push_with_overflow", "some"), ("pop", "some"),
                             ("pop", "none"), ("relocate", "ok")]},
    "indexset": {"module": "CIndexSet", "consts": {}, "invs": ["TypeOK", "LenBounded", "LockedIsEmpty"], "trace": "CIndexSetTrace",
                 "need": [("acquire", "ok"), ("acquire", "out_of_indices"), ("acquire", "locked"), ("release", "locked"),
                          ("release", "unlocked"), ("relocate", "ok")]},
    "bitset": {"module": "CBitSet", "consts": {}, "invs": ["TypeOK"], "trace": "CBitSetTrace",
               "need": [("set", "true"), ("set", "false"), ("reset_next", "some"), ("reset_next", "none"),
                        ("reset_all", "ok"), ("relocate", "ok")]},
}


def kinds():
    k = dict(c16.KINDS)
    k.update(EXTRA)
    return k


def caps_of(kind, quick):
    if kind == "bitset":
        return [1, 2, 3, 9] if quick else [1, 2, 3, 4, 9]
    if kind in ("indexqueue", "oindexqueue", "indexset"):
        return [1, 2, 3] if quick else [1, 2, 3, 4]
    return [1, 2] if quick else [1, 2, 3, 4]


def confirm_metamorphic(ctx, cls, ex, s):
    """True if the history diverges WITH the relocations and does not diverge WITHOUT them."""
    if not ex.get("path"):
        return True
    base = ["--blocks", "--protect", "--path", ",".join(map(str, ex["path"]))]
    without = c16.run_walk(ctx, s["automaton"], ex["kind"], ex["flavour"], ex["cap"], "replay", base + ["--strip-relocate"])
    if "crash" in without or without.get("detail", {}).get("diverged"):
        return False
    return True


def run(ctx):
    vp.cargo_build([c16.DRIVER])
    quick = ctx.quick
    budget = 400_000 if quick else 2_000_000
    ctx.assumptions += [
        "relocation = byte copy of header + payload to a fresh slot at a different in-slot offset (multiples of 16), old "
        "slot filled with 0xA5 and mprotect(PROT_NONE); a child process per (structure, flavour, capacity, mode)",
        "paths: every operation is optionally preceded by a relocation (all subsets of positions) for all label paths up "
        "to the reported depth (<= 5) within the node budget; core alphabet beyond",
        "lock-free structures are exercised sequentially (their concurrent behaviour is C03/C09)",
    ]
    K = kinds()
    stats = c16.new_stats()
    # ---- 1. TLC: models with Relocate / PositionIndependent, graphs
    margs = []
    for kind, k in K.items():
        margs.append((ctx, k["module"], caps_of(kind, quick), k["consts"], k["invs"], f"c14-{kind}"))
    graphs = c16.parallel(c16.mc_graph, margs, workers=5)
    automata = {}
    for (kind, k), (edges, res) in zip(K.items(), graphs):
        c16.check_vacuity(kind, edges, [n for n in k["need"]])
        reloc_edges = [e for e in edges if e["l"]["a"] == "relocate"]
        if any(e["f"] != e["t"] for e in reloc_edges):
            raise vp.ToolError(f"{kind}: Relocate changes the abstract state in the model")
        aut, ns, ne = c16.build_automaton(ctx, kind, edges, "c14")
        automata[kind] = aut
        ctx.coverage.setdefault("graphs", {})[kind] = {"states": ns, "edges": ne, "relocate_edges": len(reloc_edges)}
    # ---- 2. lock-step with relocations
    jobs, trace_jobs = [], {}
    for kind in K:
        # indexset/shmpool: the cal shm_allocator::PoolAllocator (management data + payload in one block), its
        # allocations are offsets: bucket index = offset / bucket size
        # bitset/ucl, uclinline: the cal zero_copy_connection UsedChunkList (insert = set, remove_all = reset_all)
        flavours = ["reloc", "inline"] + (["shmpool"] if kind == "indexset" else []) + (["ucl", "uclinline"] if kind == "bitset" else [])
        for fl in flavours:
            for cap in caps_of(kind, quick):
                # exhaustive enumeration: old block poisoned (0xA5); cover and random walks: poisoned and PROT_NONE
                # (mprotect costs ~0.3 ms per call on this host)
                base = ["--blocks", "--relocate", "--avoid-known"]
                common = base + ["--protect"]
                jobs.append(((automata[kind], kind, fl, cap, "cover", common), {}))
                jobs.append(((automata[kind], kind, fl, cap, "paths", base + ["--depth", 5, "--budget", budget]), {}))
                variants = ([],)
                for n, excl in enumerate(variants):
                    walks, steps = (4, 400) if quick else (6, 10000)
                    o = common + ["--walks", walks, "--steps", steps] + (["--exclude", ",".join(excl)] if excl else [])
                    jobs.append(((automata[kind], kind, fl, cap, "random", o), {"salt": 200 + n}))
                # hand-over to a second PROCESS (fresh exec of the driver: other code / stack / heap / mapping addresses):
                # the image taken here is adopted there, must show the same abstract state and the walk continues there
                hf = ctx.path("handoff", f"{kind}-{fl}-{cap}.json")
                jobs.append(((automata[kind], kind, fl, cap, "handoff",
                              common + ["--walks", 6 if quick else 60, "--steps", 24, "--handoff-file", hf]), {"salt": 300}))
                tf = ctx.path("traces", f"{kind}-{fl}-{cap}.ndjson")
                walks, steps = (2, 60) if quick else (3, 150)
                o = common + ["--walks", walks, "--steps", steps, "--trace-out", tf]
                jobs.append(((automata[kind], kind, fl, cap, "random", o), {"salt": 9}))
                trace_jobs.setdefault(kind, []).append((tf, walks))
    t0 = ctx.elapsed()
    summaries = c16.run_jobs(ctx, jobs, workers=8)
    slow = sorted((s for s in summaries if "wall" in s), key=lambda s: -s["wall"])[:6]
    vp.log(f"{len(jobs)} driver runs in {ctx.elapsed() - t0:.0f}s; slowest: " + "; ".join(
        f"{s['kind']}/{s['flavour']}/{s['cap']} {s['mode']} {s['wall']}s" for s in slow))
    relocations = 0
    handed = second_steps = 0
    xproc = []
    clean_traces = set()
    not_constructible = set()
    crashed = []
    other = {}
    for s in summaries:
        key = f"{s['kind']}/{s['flavour']}/{s['cap']}"
        if "crash" in s:
            crashed.append(s)
            continue
        relocations += s["relocations"]
        stats["steps"] += s["steps"]
        stats["paths"] += s["paths"]
        stats["edges"] += s["distinct_edges"]
        for a, n in s["per_action"].items():
            stats["per_action"][a] = stats["per_action"].get(a, 0) + n
        det = s.get("detail", {})
        if det.get("constructible") is False:
            not_constructible.add(key)
            continue
        if s["mode"] == "paths":
            stats["depths"][key] = {"full_alphabet_depth": det.get("depth_full"), "paths_full": det.get("paths_full", 0),
                                    "core_alphabet_depth": det.get("depth_core"), "paths_core": det.get("paths_core", 0)}
        if "--trace-out" in s["opts"] and all(d["class"].startswith("string:nul-terminator") for d in s["divergences"]):
            clean_traces.add(s["opts"][s["opts"].index("--trace-out") + 1])
        if s.get("sample") and any(x.startswith("relocate") for x in s["sample"]):
            ctx.sample({"structure": key, "mode": s["mode"], "history": s["sample"]})
        if s["mode"] == "handoff":
            handed += det.get("handed_over", 0)
            second_steps += det.get("steps_in_second_process", 0)
        for d in s["divergences"]:
            cls = d["class"]
            if cls.endswith(":other-process"):
                xproc.append((cls, d, s))
                continue
            if not cls.endswith(":relocated"):
                other[cls] = other.get(cls, 0) + d["count"]
                continue
            ex = d["example"]
            if not confirm_metamorphic(ctx, cls, ex, s):
                other[cls + " (also without relocation)"] = other.get(cls, 0) + d["count"]
                continue
            what = (f"{ex['kind']}/{ex['flavour']} cap={ex['cap']}: after {ex.get('history', [])[:-1]} (with relocations of the "
                    f"backing block) the step {ex.get('failing_step')} gives {json.dumps(ex.get('observed'))}, the model "
                    f"allows {json.dumps(ex.get('expected_one_of'))}; the same history without relocations conforms "
                    f"[{cls}, {d['count']} paths]")
            ctx.report(vp.Violation(what, replay={"class": cls, "example": ex, "automaton": s["automaton"], "opts": s["opts"]},
                                    signature=cls))
    for cls, d, s in xproc:
        base = cls[:-len(":other-process")]
        if base in other or (base + " (also without relocation)") in other:
            other[cls + " (same class without hand-over)"] = d["count"]
            continue
        ex = d["example"]
        what = (f"{s['kind']}/{s['flavour']} cap={s['cap']}: after {ex.get('history_in_first_process')} the memory image of the "
                f"structure was handed to a second process (fresh exec, other addresses) which adopted it byte for byte; there: "
                f"{json.dumps(ex.get('in_second_process') or {k: ex.get(k) for k in ('second_process_exit', 'second_process')})[:700]} "
                f"[{cls}, {d['count']} walks] - the structure is not position independent across processes")
        ctx.report(vp.Violation(what, replay={"class": cls, "example": ex, "automaton": s["automaton"], "opts": s["opts"]},
                                signature=cls))
    ctx.coverage["cross_process_handover"] = {"images_handed_to_a_second_process": handed, "steps_executed_there": second_steps}
    if not ctx.violations and handed == 0:
        raise vp.ToolError("vacuous: no image was handed to a second process")
    for s in crashed:
        what = (f"{s['kind']}/{s['flavour']} cap={s['cap']} ({s['mode']}): the child process died with signal "
                f"{s['crash']['signal']} while walking with relocations (access to the poisoned old block); "
                f"{len(s['crash']['path'])} steps of the path recorded")
        ctx.report(vp.Violation(what, replay={"class": f"{s['kind']}:crash", "example": {
            "kind": s["kind"], "flavour": s["flavour"], "cap": s["cap"], "path": s["crash"]["path"]},
            "automaton": s["automaton"], "opts": s["opts"]}, signature=f"{s['kind']}:crash:relocated"))
    # ---- 3. vacuity
    if not ctx.violations:
        if relocations == 0:
            raise vp.ToolError("vacuous: no relocation was performed")
        for kind, k in K.items():
            pass
        for a in ("push", "pop", "push_with_overflow", "insert", "insert_at", "remove", "extend_from_slice", "push_bytes",
                  "acquire", "release", "set", "reset_next", "reset_all", "relocate"):
            if stats["per_action"].get(a, 0) == 0:
                raise vp.ToolError(f"vacuous execution: action {a} was never executed")
    # ---- 4. impl -> spec: recorded walks (with relocate records) validated by TLC
    targs = []
    for kind, files in trace_jobs.items():
        files = [(f, w) for f, w in files if f in clean_traces]
        targs.append((ctx, f"c14-{kind}", K[kind]["trace"], [f for f, _ in files],
                      sum(w for f, w in files if os.path.exists(f) and os.path.getsize(f) > 0)))
    tres = c16.parallel(c16.validate_trace, targs)
    # ---- 5. selftest: a relocation that the model does not know must be noticed (corrupt one relocate edge)
    if not ctx.violations:
        a = json.load(open(automata["queue"]))
        full = next(n for n, st in enumerate(a["states"]) if st["o"]["cap"] == 2 and len(st["o"]["c"]) == 2)
        other_state = next(n for n, st in enumerate(a["states"]) if st["o"]["cap"] == 2 and len(st["o"]["c"]) == 1)
        for e in a["edges"]:
            if e[2] == "relocate" and e[0] == full:
                e[1] = other_state
        bad = ctx.path("selftest", "queue-corrupt.json")
        json.dump(a, open(bad, "w"))
        s = c16.run_walk(ctx, bad, "queue", "reloc", 2, "cover", ["--blocks", "--relocate", "--protect", "--avoid-known"])
        classes = [d["class"] for d in s.get("divergences", [])]
        if not any(c.startswith("queue:relocate:state") for c in classes):
            raise vp.ToolError(f"selftest failed: corrupted relocate edge was not detected ({classes})")
        ctx.coverage["selftest"] = {"corrupted_relocate_edge_detected_as": [c for c in classes if "relocate" in c][:1]}
    ctx.evaluations = stats["paths"]
    ctx.distinct = stats["edges"]
    ctx.coverage["lockstep"] = {"steps_executed": stats["steps"], "relocations": relocations, "paths_and_walks": stats["paths"],
                                "per_action": stats["per_action"], "enumeration_depths": stats["depths"],
                                "divergences_not_due_to_relocation": other,
                                "not_constructible": sorted(not_constructible)}
    ctx.coverage["exhaustive"] = False
    ctx.coverage["rule"] = ("evaluations = label paths with relocations executed on real structures; distinct_nontrivial = distinct "
                            "(automaton state, operation+arguments) pairs executed, summed over structure x flavour x capacity; "
                            "states/transitions = TLC on the models with Relocate")
    if other:
        ctx.note("divergences that also occur without relocation (C16's business, not reported here): " + json.dumps(other))


def replay(ctx, path):
    body = json.load(open(path))
    ex = body.get("example", {})
    print(json.dumps({k: body.get(k) for k in ("what", "class")}, indent=1))
    if not ex.get("path"):
        return 0
    vp.cargo_build([c16.DRIVER])
    quick = body.get("tier") == "quick"
    kind = ex["kind"]
    k = kinds()[kind]
    edges, _ = c16.mc_graph(ctx, k["module"], caps_of(kind, quick), k["consts"], k["invs"], f"replay-{kind}")
    aut, _, _ = c16.build_automaton(ctx, kind, edges, "replay")
    s = c16.run_walk(ctx, aut, kind, ex["flavour"], ex["cap"], "replay",
                     ["--blocks", "--relocate", "--protect", "--path", ",".join(map(str, ex["path"]))])
    print(json.dumps(s.get("detail", s), indent=1))
    return 1 if s.get("detail", {}).get("diverged") or "crash" in s else 0
