"""Event and blackboard portions of C08 (QoS limits suffice and are enforced) - plugged into
checks/C08.py as `c08_event_blackboard(ctx)`.

For every limit of the event pattern (max_notifiers, max_listeners, max_nodes, event_id_max_value, the
opener's requirements) and of the blackboard pattern (max_readers, max_writers = 1, max_nodes, the set
of keys, one write handle per key, the opener's requirements) spec/api/EventLimits.tla and
spec/api/Blackboard.tla state an INSIDE clause (InsideSucceeds, NotifyReachesAll, Delivered) and a
BEYOND clause (BeyondRejected: the specific documented error; RefusalHasNoSideEffect / NoPhantomEvent:
nothing changed; the same call succeeds once one unit is freed: the ordinary semantics of the next
call).  TLC model-checks both specifications, generates random walks, and validates what
harness/drivers/blackboard records from REAL ports for limit values 0..4 (directed triples
*reach the limit -> one more -> free one -> retry*) - TLC is the only judge.
"""
import importlib.util
import json
import os
import random

import vp


def _bp():
    p = os.path.join(vp.VERIF, "checks", "blackboard_part.py")
    spec = importlib.util.spec_from_file_location("blackboard_part", p)
    mod = importlib.util.module_from_spec(spec)
    spec.loader.exec_module(mod)
    return mod


EV_ACTIONS = ["MCOpenOk", "MCOpenRefused", "MCClose", "MCCreateNotifierOk", "MCCreateNotifierRefused",
              "MCDropNotifier", "MCCreateListenerOk", "MCCreateListenerRefused", "MCDropListener", "MCNotifyOk",
              "MCNotifyRefused", "MCWait"]
BB_LIMIT_ACTIONS = ["MCOpenOk", "MCOpenRefused", "MCClose", "MCCreateWriterOk", "MCCreateWriterRefused",
                    "MCDropWriter", "MCWEntryOk", "MCWEntryRefused", "MCCreateReaderOk", "MCCreateReaderRefused",
                    "MCDropReader", "MCREntryOk", "MCREntryRefused", "MCGet"]
EV_FAULTS = {"notifier_gt": ("NotifiersBounded", "BeyondRejected"), "wrong_variant": ("BeyondRejected",),
             "listener_extra": ("ListenersBounded", "BeyondRejected"), "id_ge": ("InsideSucceeds",),
             "leftover": ("RefusalHasNoSideEffect", "CountsExact"), "phantom": ("NoPhantomEvent",)}
EV_CONSTS = {"FIds": "{1, 2, 3, 4, 5, 6}", "LIds": "{1, 2, 3, 4, 5, 6}", "NIds": "{1, 2, 3, 4, 5, 6}"}


def eff(x):
    return x if x else 1


# ---------------------------------------------------------------------------------------------
# directed programs: reach the limit -> one more (twice) -> free one -> retry -> one more

def node_triple(S, neff, reqs, rng):
    """reqs: list of keyword dicts, each a requirement one above what the service supports; returns live nodes"""
    P = [S("open", n=n) for n in range(2, neff + 1)]
    extra = neff + 1
    P += [S("open", n=extra), S("open", n=extra)] + [S("open", n=extra, **r) for r in reqs]
    live = list(range(1, neff + 1))
    if neff >= 2:
        victim = rng.randint(2, neff)
        P += [S("close", n=victim)] + [S("open", n=extra, **r) for r in reqs]      # now ONLY the requirement is in the way
        P += [S("open", n=extra), S("open", n=victim)]
        live = [n for n in live if n != victim] + [extra]
    return P, live


def bb_limits(bp, nkeys, rreq, nreq, rng):
    B = bp.B
    reff, neff = eff(rreq), eff(nreq)
    P, live = node_triple(B, neff, [{"x": reff + 1}, {"y": neff + 1}, {"x": reff + 1, "y": neff + 1}], rng)
    if neff >= 2:
        # requirements exactly at the limit are inside
        P += [B("close", n=live[-1]), B("open", n=live[-1], x=reff, y=neff)]
    # readers
    for r in range(1, reff + 1):
        P += [B("cr", o=r, n=live[r % len(live)]), B("re", o=r, key=1)]
    P += [B("cr", o=reff + 1, n=1), B("cr", o=reff + 1, n=live[-1])] + [B("get", o=r, key=1) for r in range(1, reff + 1)]
    victim = rng.randint(1, reff)
    P += [B("dr", o=victim), B("cr", o=reff + 1, n=live[-1]), B("cr", o=reff + 2, n=1), B("get", o=victim, key=1),
          B("re", o=reff + 1, key=1)]
    # writers (max_writers is always 1)
    P += [B("cw", o=1, n=live[0]), B("cw", o=2, n=live[-1]), B("cw", o=2, n=1), B("dw", o=1), B("cw", o=2, n=live[-1]),
          B("cw", o=1, n=1)]
    # keys: every key that was added can be written and read, one more cannot; one write handle per key
    r0 = reff + 1
    for k in range(1, nkeys + 1):
        P += [B("we", o=2, key=k), B("we", o=2, key=k), B("upd", o=2, key=k)]
        if k > 1:
            P += [B("re", o=r0, key=k)]
        P += [B("get", o=r0, key=k)]
    P += [B("we", o=2, key=nkeys + 1), B("re", o=r0, key=nkeys + 1), B("we", o=2, key=1, x=1), B("re", o=r0, key=nkeys + 1, x=1)]
    P += [B("wd", o=2, key=1), B("we", o=2, key=1), B("upd", o=2, key=1), B("get", o=r0, key=1), B("get", o=victim, key=1)]
    return P


def ev_limits(bp, fq, lq, nq, idmax, rng):
    def E(a, **kw):
        return bp.step(a, bp.EV_FIELDS, **kw)

    feff, leff, neff = eff(fq), eff(lq), eff(nq)
    reqs = [{"x": feff + 1}, {"y": leff + 1}, {"x3": neff + 1}, {"x4": idmax + 1},
            {"x": feff + 1, "y": leff + 1, "x3": neff + 1, "x4": idmax + 1}]
    P, live = node_triple(E, neff, reqs, rng)
    if neff >= 2:
        P += [E("close", n=live[-1]), E("open", n=live[-1], x=feff, y=leff, x3=neff, x4=idmax)]
    ls = list(range(1, leff + 1))
    waits = lambda who: [E("wt", o=j) for j in who]
    for j in ls:
        P += [E("cl", o=j, n=live[j % len(live)])]
    P += [E("cl", o=leff + 1, n=1), E("cl", o=leff + 1, n=live[-1])]
    for i in range(1, feff + 1):
        P += [E("cn", o=i, n=live[i % len(live)], x=i % (idmax + 1))]
    P += [E("cn", o=feff + 1, n=1, x=0), E("cn", o=feff + 1, n=live[-1], x=0)]
    P += [E("nt", o=1)] + waits(ls)
    # event ids: everything up to and including the maximum, then one above (nobody may receive it)
    for ident in range(0, idmax + 2):
        P += [E("nt", o=rng.randint(1, feff), x=ident, y=1)]
        if ident >= idmax or rng.random() < 0.4:
            P += waits(ls)
    # free one notifier / listener, retry, one more
    fv, lv = rng.randint(1, feff), rng.randint(1, leff)
    P += [E("dn", o=fv), E("cn", o=feff + 1, n=live[-1], x=idmax), E("cn", o=feff + 2, n=1, x=0)]
    P += [E("dl", o=lv), E("cl", o=leff + 1, n=live[0]), E("cl", o=leff + 2, n=1)]
    ls = [j for j in ls if j != lv] + [leff + 1]
    P += [E("nt", o=feff + 1)] + waits(ls)
    # a default id above the maximum is refused when it is used
    P += [E("dn", o=feff + 1), E("cn", o=fv, n=1, x=idmax + 1), E("nt", o=fv), E("nt", o=fv, x=idmax, y=1)] + waits(ls)
    P += [E("wt", o=ls[0])]
    return P


def latin(seed, i, k):
    """limit value 0..4 for dimension k of job i: every dimension sees every value once per 5 jobs"""
    return (i * (1, 2, 3, 4, 1, 2)[k] + seed * (k + 1) + k * k) % 5


# ---------------------------------------------------------------------------------------------
# vacuity guard in the trace direction: completed triples per limit and limit value

def triples(recs, create, drop, refusal):
    """limit states for which *refused -> one unit freed -> same call succeeds* was recorded"""
    n, state = 0, 0
    for r in recs:
        if r.get("k") != "op":
            state = 0
            continue
        if r["a"] == create and r["res"] == refusal:
            state = 1
        elif state == 1 and r["a"] == drop and r["res"] == "ok":
            state = 2
        elif state == 2 and r["a"] == create:
            if r["res"] == "ok":
                n += 1
            state = 0
    return n


def c08_event_blackboard(ctx):
    bp = _bp()
    quick = ctx.quick
    seed = int(ctx.seed)
    rng = random.Random(2000 + seed)
    vp.cargo_build([bp.DRIVER])
    bp.cleanup_shm()
    ctx.assumptions += ["event / blackboard limits: sequential API histories, ipc and local services, limit values "
                        "0..4; deadline and automatic notifier events switched off"]
    # 1. the specifications
    bp.model_check(ctx, "MC_EventLimits", "MC_EventLimits" if quick else "MC_EventLimits_deep", EV_ACTIONS,
                   "EventLimits.tla [inside / beyond clauses]")
    bp.model_check(ctx, "MC_Blackboard", "MC_Blackboard_limits" if quick else "MC_Blackboard_deep", BB_LIMIT_ACTIONS,
                   "Blackboard.tla [limit layer]")
    if not quick:       # vacuity guard of the invariants: planted defects must be refuted
        bp.must_fail(ctx, "MC_EventLimits", "MF_EventLimits_", EV_FAULTS, sorted(EV_FAULTS))
        bp.must_fail(ctx, "MC_Blackboard", "MF_Blackboard_", bp.BB_FAULTS, ["reader_gt", "wrong_variant", "leftover"])
    # 2. programs
    variants = ["ipc", "local"]
    jobs = []
    for i in range(5 if quick else 25):
        v = [latin(seed, i, k) if i < 5 else rng.randint(0, 4) for k in range(6)]
        jobs.append({"pat": "ev", "variant": variants[i % 2], "src": "directed",
                     "cfg": {"fq": v[0], "lq": v[1], "nq": v[2], "idmax": v[3]},
                     "program": ev_limits(bp, v[0], v[1], v[2], v[3], rng)})
        nk = 1 + (i + seed) % 3
        jobs.append({"pat": "bb", "variant": variants[(i + 1) % 2], "src": "directed",
                     "cfg": {"nkeys": nk, "rreq": v[4], "nreq": v[5]},
                     "program": bb_limits(bp, nk, v[4], v[5], rng)})
    cfgs = [(rng.randint(0, 3), rng.randint(0, 3), rng.randint(0, 3), rng.randint(0, 2)) for _ in range(4)]
    ctla = bp.tla_set(f"[fq |-> {f}, lq |-> {l}, nq |-> {n}, idmax |-> {d}, feff |-> {eff(f)}, leff |-> {eff(l)}, "
                      f"neff |-> {eff(n)}, ideff |-> {d}]" for f, l, n, d in cfgs)
    univ = ("[F |-> 1..(c.feff + 1), L |-> 1..(c.leff + 1), N |-> 1..(IF c.neff > 2 THEN 3 ELSE c.neff + 1), "
            "Q |-> {<<0, 0, 0, 0>>, <<c.feff + 1, 0, 0, 0>>, <<0, c.leff + 1, 0, 0>>, <<0, 0, c.neff + 1, 0>>, "
            "<<0, 0, 0, c.idmax + 1>>, <<c.feff, c.leff, c.neff, c.idmax>>}, D |-> 0..(c.idmax + 1)]")
    progs = bp.simulate(ctx, "EventLimits", "SIMEV", EV_CONSTS, ctla, univ, num=10 if quick else 150,
                        depth=60 if quick else 100, seed=seed)
    for i, p in enumerate(progs):
        c = p["cfg"]
        jobs.append({"pat": "ev", "variant": variants[i % 2], "src": "simulated",
                     "cfg": {k: c[k] for k in ("fq", "lq", "nq", "idmax")},
                     "program": bp.normalise(p["steps"], bp.EV_FIELDS)})
    if not quick:
        bcfgs = [(rng.randint(1, 3), rng.randint(0, 4), rng.randint(0, 4)) for _ in range(5)]
        buniv = ("[W |-> {1, 2}, R |-> 1..(c.reff + 1), N |-> 1..(IF c.neff > 2 THEN 3 ELSE c.neff + 1), "
                 "K |-> 1..(c.nkeys + 1), Q |-> {0, c.reff + 1, c.neff + 1}, maxv |-> 1000]")
        bprogs = bp.simulate(ctx, "Blackboard", "SIMBBL", bp.BB_CONSTS, bp.tla_set(bp.bb_cfg_tla(*c) for c in bcfgs),
                             buniv, num=100, depth=100, seed=seed + 7)
        jobs += bp.bb_jobs_from(bprogs, variants, "simulated")
    # 3. execution on real ports, validation by TLC
    trace, summ = bp.execute(ctx, jobs, "c08eb")
    ctx.evaluations += summ["jobs"]
    ctx.distinct += len({json.dumps([j["cfg"], j["program"]]) for j in jobs})
    evt, bbt = ctx.path("traces", "c08-ev.ndjson"), ctx.path("traces", "c08-bb.ndjson")
    evr = bp.split_pattern(trace, "ev", evt)
    bbr = bp.split_pattern(trace, "bb", bbt)
    tri = {"notifiers": triples(evr, "cn", "dn", "ExceedsMaxSupportedNotifiers"),
           "listeners": triples(evr, "cl", "dl", "ExceedsMaxSupportedListeners"),
           "event nodes": triples(evr, "open", "close", "ExceedsMaxNumberOfNodes"),
           "readers": triples(bbr, "cr", "dr", "ExceedsMaxSupportedReaders"),
           "writers": triples(bbr, "cw", "dw", "ExceedsMaxSupportedWriters") + triples(bbr, "cw", "wd", "ExceedsMaxSupportedWriters"),
           "write handles": triples(bbr, "we", "wd", "HandleAlreadyExists"),
           "blackboard nodes": triples(bbr, "open", "close", "ExceedsMaxNumberOfNodes")}
    limits_seen = {"ev": sorted({(r["fq"], r["lq"], r["nq"], r["idmax"]) for r in evr if r.get("k") == "reset"}),
                   "bb": sorted({(r["nkeys"], r["rreq"], r["nreq"]) for r in bbr if r.get("k") == "reset"})}
    ev_jobs = [j for j in jobs if j["pat"] == "ev"]
    bb_jobs = [j for j in jobs if j["pat"] == "bb"]
    ok1 = bp.validate(ctx, "ev", "EventLimitsTrace", evt, ev_jobs, "event limits")
    ok2 = bp.validate(ctx, "bb", "BlackboardTrace", bbt, bb_jobs, "blackboard limits")
    if ok1 and ok2 and not summ.get("aborted"):     # vacuity guards of the trace direction
        bp.check_truncation(summ, True, "event / blackboard limits")
        bp.require_events(summ, [
            "cn:ok", "cn:ExceedsMaxSupportedNotifiers", "cl:ok", "cl:ExceedsMaxSupportedListeners", "nt:ok",
            "nt:EventIdOutOfBounds", "wt:ok", "open:ok", "open:ExceedsMaxNumberOfNodes",
            "open:DoesNotSupportRequestedAmountOfNotifiers", "open:DoesNotSupportRequestedAmountOfListeners",
            "open:DoesNotSupportRequestedAmountOfNodes", "open:DoesNotSupportRequestedMaxEventId",
            "open:DoesNotSupportRequestedAmountOfReaders", "cr:ok", "cr:ExceedsMaxSupportedReaders", "cw:ok",
            "cw:ExceedsMaxSupportedWriters", "we:ok", "we:HandleAlreadyExists", "we:EntryDoesNotExist",
            "re:EntryDoesNotExist", "get:ok"], "event / blackboard limits")
        missing = [k for k, n in tri.items() if n == 0]
        if missing:
            raise vp.ToolError(f"vacuous run: no *limit -> one more -> free one -> retry* triple recorded for {missing}")
        for dim, name in enumerate(("max_notifiers", "max_listeners", "max_nodes", "event_id_max_value")):
            vals = {c[dim] for c in limits_seen["ev"]}
            if not set(range(5)) <= vals:
                raise vp.ToolError(f"limit values 0..4 of {name} not all exercised: {sorted(vals)}")
        for dim, name in ((1, "max_readers"), (2, "blackboard max_nodes")):
            vals = {c[dim] for c in limits_seen["bb"]}
            if not set(range(5)) <= vals:
                raise vp.ToolError(f"limit values 0..4 of {name} not all exercised: {sorted(vals)}")
    ctx.coverage["event_blackboard_limits"] = {"programs": len(jobs), "calls": summ["ops"], "events": summ["events"],
                                               "triples_refused_freed_retried": tri,
                                               "configurations": {k: len(v) for k, v in limits_seen.items()}}
    run0 = next(run for run in vp.split_runs(evr) if len(run) > 20)
    ctx.sample({"event_limits": {k: run0[0][k] for k in ("fq", "lq", "nq", "idmax", "variant")},
                "calls": [f"{r['a']}({r['o'] or r['n']},{r['x']})={r['res']}" + (f":{r['ids']}" if r["a"] == "wt" else "")
                          for r in run0 if r.get("k") == "op"][:40]})
    if ok1 and ok2 and not quick:
        bp.selftest(ctx, "EventLimitsTrace", evt, lambda r: r.get("a") == "cn" and r.get("res") == "ExceedsMaxSupportedNotifiers",
                    lambda r: r.update(res="ExceedsMaxSupportedListeners"), "wrong_error_variant", ("BeyondRejected",))
        bp.selftest(ctx, "EventLimitsTrace", evt, lambda r: r.get("a") == "nt" and r.get("res") == "EventIdOutOfBounds",
                    lambda r: r.update(res="ok"), "out_of_bounds_id_accepted", ("BeyondRejected", "NotifyReachesAll", "Delivered"))
        bp.selftest(ctx, "EventLimitsTrace", evt, lambda r: r.get("a") == "cl" and r.get("res") != "ok",
                    lambda r: r.update(nl=r["nl"] + 1), "registry_leftover", ("RefusalHasNoSideEffect", "CountsExact"))
        bp.selftest(ctx, "EventLimitsTrace", evt, lambda r: r.get("a") == "dn", None, "dropped_free_event")
        bp.selftest(ctx, "BlackboardTrace", bbt, lambda r: r.get("a") == "cr" and r.get("res") == "ExceedsMaxSupportedReaders",
                    lambda r: r.update(res="ok", nr=r["nr"] + 1), "reader_beyond_limit_granted", ("ReadersBounded", "BeyondRejected"))
    bp.cleanup_shm()
