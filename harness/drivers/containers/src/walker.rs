//! Graph lock-step (DESIGN.md 3.5): walks the automaton dumped by TLC in lock-step with the real
//! container. After every step the result, the net drops per token value and the projected abstract
//! state of the real object are compared with the automaton's; the successor is selected by what
//! was observed (the property layer may be nondeterministic). Any difference ends the path and is
//! recorded as a divergence with a class (see `classify`).

use crate::automaton::{Automaton, Edge, Group};
use crate::block;
use crate::real::{self, Outcome, Real};
use crate::tok::{self, Snapshot};
use std::collections::{BTreeMap, HashSet, VecDeque};
use std::panic::{AssertUnwindSafe, catch_unwind};
use vlib::rng::Rng;
use vlib::trace::TraceWriter;
use vlib::{Value, json};

pub struct Cfg {
    pub kind: String,
    pub flavour: String,
    pub cap: usize,
    pub in_block: bool,
    pub relocate: bool,
    pub avoid_known: bool,
    pub exclude: Vec<String>,
}

/// one executed step: (state, group index in aut.out[state])
pub type PStep = (usize, usize);

pub struct Live {
    obj: Box<dyn Real>,
    state: usize,
}

#[derive(Default)]
pub struct Div {
    pub count: u64,
    pub example: Value,
    pub example_len: usize,
}

#[derive(Default)]
pub struct Stats {
    pub steps: u64,
    pub paths: u64,
    pub relocations: u64,
    pub drop_checks: u64,
    pub per_action: BTreeMap<String, u64>,
}

pub struct Walker<'a> {
    pub aut: &'a Automaton,
    pub cfg: Cfg,
    pub stats: Stats,
    pub divs: BTreeMap<String, Div>,
    pub covered: HashSet<PStep>,
    pub trace: Option<TraceWriter>,
    pub quiet: bool,
    pub sample: Vec<String>,
    pub construct_failed: Option<String>,
    /// (automaton state, memory image) -> largest remaining depth already explored from there
    pub memo: std::collections::HashMap<(usize, u64), usize>,
    pub merged: u64,
    pub use_memo: bool,
}

/// what the real object did in one step
struct Observed {
    r: String,
    v: Vec<i64>,
    d: Vec<i64>,
    ov: Option<Vec<i64>>,
    problem: Option<String>, // panic / inconsistent observers / bad drops
}

pub fn label_text(e: &Edge) -> String {
    let mut args: Vec<String> = e.i.iter().map(|x| x.to_string()).collect();
    if !e.s.is_empty() || e.a.contains("bytes") || e.a.contains("slice") || e.a.starts_with("strip") || e.a.ends_with("find") {
        args.push(format!("{:?}", e.s));
    }
    format!("{}({})", e.a, args.join(","))
}

/// Edges whose execution is known to hit a reported defect of /repo, decidable from the label and
/// the state alone. With `avoid_known` they are executed in the edge cover only (so that the finding
/// is re-confirmed) and left out of the long walks, which would otherwise all end there.
pub fn known_trigger(kind: &str, flavour: &str, cap: usize, ov: &[i64], e: &Edge) -> Option<&'static str> {
    // no deterministic trigger of an unrepaired defect is known at present (the full StaticString x
    // zero-length range panic was repaired by 4fe07aa); the hook stays for future findings
    let _ = (kind, flavour, cap, ov, e);
    None
}

impl<'a> Walker<'a> {
    pub fn new(aut: &'a Automaton, cfg: Cfg) -> Self {
        Walker { aut, cfg, stats: Stats::default(), divs: BTreeMap::new(), covered: HashSet::new(), trace: None, quiet: false, sample: vec![], construct_failed: None, memo: Default::default(), merged: 0, use_memo: false }
    }

    fn allowed(&self, state: usize, g: &Group, core_only: bool, for_walk: bool, obj: &dyn Real) -> bool {
        let e = self.aut.label(g);
        if e.a == "relocate" {
            return false; // relocation is inserted by the walker itself
        }
        if e.a != "destroy" && (!obj.supports(&e.a) || !obj.supports_edge(&e.a, &e.i)) {
            return false;
        }
        if self.cfg.exclude.iter().any(|x| *x == e.a) {
            return false;
        }
        if core_only && !g.core {
            return false;
        }
        if for_walk && self.cfg.avoid_known
            && known_trigger(&self.cfg.kind, &self.cfg.flavour, self.cfg.cap, &self.aut.states[state].ov, e).is_some()
        {
            return false;
        }
        true
    }

    // -------------------------------------------------------------------------------------------
    // construction / destruction

    /// None = flavour not constructible with this capacity, or the fresh object is not in an
    /// initial state of the automaton (recorded)
    pub fn fresh(&mut self, path: &[PStep]) -> Option<Live> {
        let mut obj = match real::make(&self.cfg.kind, &self.cfg.flavour, self.cfg.cap, self.cfg.in_block) {
            Ok(o) => o,
            Err(e) => {
                block::POOL.with(|p| p.borrow_mut().reclaim_all());
                self.construct_failed = Some(e);
                return None;
            }
        };
        let ov = catch_unwind(AssertUnwindSafe(|| obj.observe()));
        let inits = self.aut.init.get(&(self.cfg.cap as i64)).cloned().unwrap_or_default();
        self.take_soft(path, None, "init");
        match ov {
            Ok(Ok(ov)) => {
                if let Some(s) = inits.iter().find(|s| self.aut.states[**s].ov == ov) {
                    return Some(Live { obj, state: *s });
                }
                let exp: Vec<Value> = inits.iter().map(|s| json!({"ov": self.aut.states[*s].ov})).collect();
                self.diverge(path, None, "init", exp, json!({"ov": ov}), "state");
            }
            Ok(Err(msg)) => self.diverge(path, None, "init", vec![], json!({"problem": msg}), "obs"),
            Err(p) => self.diverge(path, None, "init", vec![], json!({"problem": crate::panic_text(&p)}), "panic"),
        }
        self.discard(obj);
        None
    }

    /// the object may be in an inconsistent state: leak it
    fn discard(&mut self, obj: Box<dyn Real>) {
        std::mem::forget(obj);
        block::POOL.with(|p| p.borrow_mut().reclaim_all());
    }

    /// drops the container and compares the drops with the content of the automaton state
    pub fn drop_check(&mut self, live: Live, path: &[PStep]) -> bool {
        self.drop_check_net(live, path).0
    }

    fn drop_check_net(&mut self, live: Live, path: &[PStep]) -> (bool, Vec<i64>) {
        let Live { obj, state } = live;
        let g = self.aut.out[state].iter().position(|g| self.aut.label(g).a == "destroy");
        let Some(g) = g else {
            drop(obj);
            return (true, vec![0; tok::NV]);
        };
        let before = tok::snapshot();
        let r = catch_unwind(AssertUnwindSafe(move || drop(obj)));
        let delta = tok::snapshot().since(&before);
        self.stats.drop_checks += 1;
        let group = &self.aut.out[state][g];
        let e = self.aut.label(group);
        let mut problem = None;
        if let Err(p) = r {
            problem = Some(format!("panic: {}", crate::panic_text(&p)));
            block::POOL.with(|p| p.borrow_mut().reclaim_all());
        } else if delta.bad_drops != 0 {
            problem = Some(format!("{} drops of dead or uninitialised elements", delta.bad_drops));
        }
        if problem.is_some() || (self.tokens() && delta.net.to_vec() != e.d) {
            let what = if problem.is_some() { "panic" } else { "drops" };
            self.diverge(path, Some((state, g)), "destroy", vec![json!({"d": e.d})],
                         json!({"d": delta.net, "problem": problem}), what);
            return (false, delta.net.to_vec());
        }
        (true, delta.net.to_vec())
    }

    // -------------------------------------------------------------------------------------------
    // one step

    fn execute(&mut self, obj: &mut Box<dyn Real>, e: &Edge) -> Observed {
        let before = tok::snapshot();
        let res = catch_unwind(AssertUnwindSafe(|| obj.apply(&e.a, &e.i, &e.s)));
        let after = tok::snapshot();
        let delta: Snapshot = after.since(&before);
        let mut ob = Observed { r: String::new(), v: vec![], d: delta.net.to_vec(), ov: None, problem: None };
        match res {
            Err(p) => {
                ob.r = "panic".into();
                ob.problem = Some(format!("panic: {}", crate::panic_text(&p)));
                return ob;
            }
            Ok(Outcome { r, v, keep }) => {
                ob.r = r.to_string();
                ob.v = v;
                drop(keep);
            }
        }
        if delta.bad_drops != 0 {
            ob.problem = Some(format!("{} drops of dead or uninitialised elements (double drop)", delta.bad_drops));
        } else if delta.dead_reads != 0 {
            ob.problem = Some("a dropped element was returned".to_string());
        }
        let b2 = tok::snapshot();
        match catch_unwind(AssertUnwindSafe(|| obj.observe())) {
            Ok(Ok(ov)) => ob.ov = Some(ov),
            Ok(Err(msg)) => ob.problem = ob.problem.or(Some(format!("observers inconsistent: {msg}"))),
            Err(p) => ob.problem = ob.problem.or(Some(format!("panic in observer: {}", crate::panic_text(&p)))),
        }
        if tok::snapshot().since(&b2).dead_reads != 0 {
            ob.problem = ob.problem.or(Some("a dropped element is still visible (use after drop)".to_string()));
        }
        ob
    }

    fn take_soft(&mut self, path: &[PStep], at: Option<PStep>, a: &str) {
        if let Some(msg) = real::SOFT.with(|s| s.borrow_mut().take()) {
            self.diverge(path, at, a, vec![], json!({"problem": msg}), "nul-terminator");
        }
    }

    /// executes group g of live.state; true = matched an edge (live.state advanced)
    pub fn step(&mut self, live: &mut Live, g: usize, path: &[PStep]) -> bool {
        let state = live.state;
        let aut = self.aut;
        let group = &aut.out[state][g];
        let e = aut.label(group);
        crate::crash::push(state, g);
        if !self.quiet {
            self.stats.steps += 1;
            *self.stats.per_action.entry(e.a.clone()).or_insert(0) += 1;
            self.covered.insert((state, g));
        }
        if e.a == "destroy" {
            // drop + fresh object of the same capacity
            let dummy = Live { obj: Box::new(Dead), state };
            let old = std::mem::replace(live, dummy);
            let (ok, net) = self.drop_check_net(old, path);
            if !ok {
                self.record_trace(e, "ok", &[], &net, None);
                return false;
            }
            let mut p2 = path.to_vec();
            p2.push((state, g));
            match self.fresh(&p2) {
                Some(l) => {
                    let ok = group.edges.iter().any(|n| aut.edges[*n].to == l.state);
                    *live = l;
                    if !ok {
                        self.diverge(path, Some((state, g)), "destroy", vec![], json!({"problem": "fresh object is not a successor of destroy"}), "state");
                    }
                    self.record_trace(e, "ok", &[], &net, Some(&aut.states[live.state].ov));
                    return ok;
                }
                None => return false,
            }
        }
        let ob = self.execute(&mut live.obj, e);
        self.take_soft(path, Some((state, g)), &e.a);
        let net = if self.tokens() { ob.d.clone() } else { vec![0; tok::NV] };
        self.record_trace(e, &ob.r, &ob.v, &net, ob.ov.as_ref());
        if ob.problem.is_none() {
            if let Some(ov) = &ob.ov {
                for n in &group.edges {
                    let c = &aut.edges[*n];
                    if c.r == ob.r && c.v == ob.v && (!self.tokens() || c.d == net) && aut.states[c.to].ov == *ov {
                        live.state = c.to;
                        return true;
                    }
                }
            }
        }
        // divergence
        let what = if ob.r == "panic" {
            "panic"
        } else if ob.problem.is_some() {
            "obs"
        } else if !group.edges.iter().any(|n| aut.edges[*n].r == ob.r && aut.edges[*n].v == ob.v) {
            "result"
        } else if self.tokens() && !group.edges.iter().any(|n| aut.edges[*n].r == ob.r && aut.edges[*n].v == ob.v && aut.edges[*n].d == net) {
            "drops"
        } else {
            "state"
        };
        let exp: Vec<Value> = group.edges.iter().map(|n| {
            let c = &aut.edges[*n];
            json!({"r": c.r, "v": c.v, "d": c.d, "ov": aut.states[c.to].ov})
        }).collect();
        let obs = json!({"r": ob.r, "v": ob.v, "d": net, "ov": ob.ov, "problem": ob.problem});
        let a = e.a.clone();
        self.diverge(path, Some((state, g)), &a, exp, obs, what);
        false
    }

    fn tokens(&self) -> bool {
        matches!(self.cfg.kind.as_str(), "vec" | "queue" | "slotmap" | "flatmap")
    }

    /// relocation of the backing block followed by a full observation (C14)
    pub fn relocate(&mut self, live: &mut Live, path: &[PStep]) -> Option<PStep> {
        let state = live.state;
        let g = self.aut.out[state].iter().position(|g| self.aut.label(g).a == "relocate")?;
        crate::crash::push(state, g);
        let e = self.aut.label(&self.aut.out[state][g]);
        if !live.obj.relocate() {
            return None;
        }
        self.stats.relocations += 1;
        *self.stats.per_action.entry("relocate".into()).or_insert(0) += 1;
        let r = catch_unwind(AssertUnwindSafe(|| live.obj.observe()));
        let (ov, problem) = match r {
            Ok(Ok(ov)) => (Some(ov), None),
            Ok(Err(m)) => (None, Some(format!("observers inconsistent: {m}"))),
            Err(p) => (None, Some(format!("panic in observer: {}", crate::panic_text(&p)))),
        };
        self.take_soft(path, Some((state, g)), "relocate");
        self.record_trace(e, "ok", &[], &vec![0; tok::NV], ov.as_ref());
        // the model's Relocate edge (a self-loop: PositionIndependent) names the state to be observed
        let targets: Vec<usize> = self.aut.out[state][g].edges.iter().map(|n| self.aut.edges[*n].to).collect();
        if let Some(t) = targets.iter().find(|t| ov.as_ref() == Some(&self.aut.states[**t].ov)) {
            live.state = *t;
            return Some((state, g));
        }
        let what = if problem.is_some() { "obs" } else { "state" };
        self.diverge(path, Some((state, g)), "relocate", vec![json!({"ov": self.aut.states[targets[0]].ov})],
                     json!({"ov": ov, "problem": problem}), what);
        None
    }

    // -------------------------------------------------------------------------------------------
    // divergences

    fn render_path(&self, path: &[PStep]) -> Vec<String> {
        path.iter().map(|(s, g)| label_text(self.aut.label(&self.aut.out[*s][*g]))).collect()
    }

    fn classify(&self, path: &[PStep], at: Option<PStep>, a: &str, what: &str) -> String {
        let kind = self.cfg.kind.as_str();
        if let Some((s, g)) = at {
            let e = self.aut.label(&self.aut.out[s][g]);
            if let Some(c) = known_trigger(kind, &self.cfg.flavour, self.cfg.cap, &self.aut.states[s].ov, e) {
                return format!("{c}:{what}");
            }
        }
        if (kind == "slotmap" || kind == "flatmap") && self.cfg.cap == 0 {
            return format!("slotmap:cap0:{kind}:{a}:{what}");
        }
        if kind == "slotmap" {
            // a successful insert_at precedes the failing step (free-list defect of claim_index)
            let tainted = path.iter().chain(at.iter()).any(|(s, g)| {
                let e = self.aut.label(&self.aut.out[*s][*g]);
                e.a == "insert_at" && e.i[0] < self.cfg.cap as i64
            });
            if tainted {
                return format!("slotmap:after-insert_at:{a}:{what}");
            }
        }
        let reloc = path.iter().any(|(s, g)| self.aut.label(&self.aut.out[*s][*g]).a == "relocate") || a == "relocate";
        format!("{kind}:{a}:{what}{}", if reloc { ":relocated" } else { "" })
    }

    fn diverge(&mut self, path: &[PStep], at: Option<PStep>, a: &str, expected: Vec<Value>, observed: Value, what: &str) {
        let class = if what == "nul-terminator" { format!("string:nul-terminator:{a}") } else { self.classify(path, at, a, what) };
        let len = path.len();
        let mut hist = self.render_path(path);
        let packed: Vec<u32> = path.iter().chain(at.iter()).map(|(s, g)| crate::crash::pack(*s, *g)).collect();
        if let Some((s, g)) = at {
            hist.push(label_text(self.aut.label(&self.aut.out[s][g])));
        }
        let cfg = &self.cfg;
        let d = self.divs.entry(class).or_default();
        d.count += 1;
        if d.count == 1 || len < d.example_len {
            d.example_len = len;
            d.example = json!({"kind": cfg.kind, "flavour": cfg.flavour, "cap": cfg.cap, "in_block": cfg.in_block,
                               "history": hist, "failing_step": hist.last(), "expected_one_of": expected,
                               "observed": observed, "path": packed});
        }
    }

    // -------------------------------------------------------------------------------------------
    // trace recording (impl -> spec direction)

    fn obs_json(&self, ov: Option<&Vec<i64>>) -> Value {
        let Some(ov) = ov else { return json!({"bad": 1}) };
        match self.cfg.kind.as_str() {
            "vec" | "queue" | "string" => json!({"cap": ov[0], "c": ov[2..]}),
            "slotmap" => json!({"cap": ov[0], "nxt": ov[1], "m": ov[2..]}),
            "flatmap" => json!({"cap": ov[0], "m": ov[1..]}),
            "indexqueue" | "oindexqueue" => json!({"cap": ov[0], "n": ov[1]}),
            "indexset" => json!({"cap": ov[0], "locked": ov[1], "n": ov[2]}),
            _ => json!({"cap": ov[0]}),
        }
    }

    fn record_trace(&mut self, e: &Edge, r: &str, v: &[i64], d: &[i64], ov: Option<&Vec<i64>>) {
        if self.trace.is_none() {
            return;
        }
        let o = self.obs_json(ov);
        let rec = json!({"k": "op", "a": e.a, "i": e.i, "s": e.s, "r": r, "v": v, "d": d, "o": o});
        self.trace.as_mut().unwrap().emit(&rec);
    }

    fn record_reset(&mut self, live: &Live) {
        if self.trace.is_none() {
            return;
        }
        let o = self.obs_json(Some(&self.aut.states[live.state].ov));
        let rec = json!({"k": "reset", "kind": self.cfg.kind, "flavour": self.cfg.flavour, "cap": self.cfg.cap, "o": o});
        self.trace.as_mut().unwrap().emit(&rec);
    }

    // -------------------------------------------------------------------------------------------
    // (a) edge cover

    /// BFS tree over the automaton (label paths); edges that taint or trigger known defects are used
    /// only for states that cannot be reached otherwise
    fn bfs_tree(&self, obj: &dyn Real) -> Vec<Option<Vec<PStep>>> {
        let n = self.aut.states.len();
        let mut paths: Vec<Option<Vec<PStep>>> = vec![None; n];
        let inits = self.aut.init.get(&(self.cfg.cap as i64)).cloned().unwrap_or_default();
        for pass in 0..2 {
            let mut q: VecDeque<usize> = VecDeque::new();
            for s in 0..n {
                if paths[s].is_some() {
                    q.push_back(s);
                }
            }
            for s in &inits {
                if paths[*s].is_none() {
                    paths[*s] = Some(vec![]);
                    q.push_back(*s);
                }
            }
            while let Some(s) = q.pop_front() {
                for (gi, g) in self.aut.out[s].iter().enumerate() {
                    let e = self.aut.label(g);
                    if e.a == "destroy" || !self.allowed(s, g, false, true, obj) {
                        continue;
                    }
                    if pass == 0 && self.cfg.kind == "slotmap" && e.a == "insert_at" {
                        continue;
                    }
                    for n2 in &g.edges {
                        let t = self.aut.edges[*n2].to;
                        if paths[t].is_none() {
                            let mut p = paths[s].clone().unwrap();
                            p.push((s, gi));
                            paths[t] = Some(p);
                            q.push_back(t);
                        }
                    }
                }
            }
        }
        paths
    }

    pub fn cover(&mut self) -> Value {
        let Some(probe) = self.fresh(&[]) else { return json!({"constructible": self.construct_failed.is_none()}) };
        let tree = self.bfs_tree(probe.obj.as_ref());
        let mut todo: Vec<PStep> = vec![];
        for s in 0..self.aut.states.len() {
            if tree[s].is_none() {
                continue;
            }
            for (gi, g) in self.aut.out[s].iter().enumerate() {
                if self.allowed(s, g, false, false, probe.obj.as_ref()) {
                    todo.push((s, gi));
                }
            }
        }
        self.drop_check(probe, &[]);
        let total = todo.len();
        let mut unreached = 0u64;
        for (s, gi) in todo {
            if self.covered.contains(&(s, gi)) {
                continue;
            }
            crate::crash::reset();
            let Some(mut live) = self.fresh(&[]) else { break };
            let mut path: Vec<PStep> = vec![];
            let mut ok = true;
            for (ps, pg) in tree[s].clone().unwrap() {
                if live.state != ps {
                    break; // nondeterministic spec: the implementation chose another successor
                }
                if !self.step(&mut live, pg, &path) {
                    ok = false;
                    break;
                }
                path.push((ps, pg));
            }
            if !ok {
                self.discard(live.obj);
                continue;
            }
            // wherever we arrived: take the wanted group, or any group of this state not yet covered
            let target = if live.state == s {
                Some(gi)
            } else {
                unreached += 1;
                let st = live.state;
                (0..self.aut.out[st].len()).find(|g| {
                    !self.covered.contains(&(st, *g)) && self.allowed(st, &self.aut.out[st][*g], false, false, live.obj.as_ref())
                })
            };
            if let Some(g) = target {
                let st = live.state;
                if self.step(&mut live, g, &path) {
                    path.push((st, g));
                    if self.cfg.relocate {
                        if self.relocate(&mut live, &path).is_none() {
                            self.discard(live.obj);
                            continue;
                        }
                    }
                    self.drop_check(live, &path);
                } else {
                    self.discard(live.obj);
                }
            } else {
                self.drop_check(live, &path);
            }
            self.stats.paths += 1;
        }
        json!({"constructible": true, "edges_total": total, "edges_covered": self.covered.len(), "targets_not_reached": unreached})
    }

    // -------------------------------------------------------------------------------------------
    // (b) all paths up to a depth

    fn rebuild(&mut self, path: &[PStep]) -> Option<Live> {
        crate::crash::reset();
        let mut live = self.fresh(&[])?;
        let was = self.quiet;
        self.quiet = true;
        let saved = self.trace.take();
        let mut done: Vec<PStep> = vec![];
        for (s, g) in path {
            let ok = if live.state != *s {
                false
            } else if self.aut.label(&self.aut.out[*s][*g]).a == "relocate" {
                self.relocate(&mut live, &done).is_some()
            } else {
                self.step(&mut live, *g, &done)
            };
            if !ok {
                // the same prefix was explained before: the implementation is not deterministic
                self.quiet = was;
                self.trace = saved;
                self.diverge(&done, Some((*s, *g)), "replay", vec![], json!({"problem": "prefix replay took another course"}), "nondeterministic");
                self.discard(live.obj);
                return None;
            }
            done.push((*s, *g));
        }
        self.quiet = was;
        self.trace = saved;
        Some(live)
    }

    fn explore(&mut self, path: &mut Vec<PStep>, live: Live, depth_left: usize, core_only: bool, budget: &mut i64) {
        if depth_left == 0 || *budget <= 0 {
            self.stats.paths += 1;
            if self.stats.paths % 1009 == 1 {
                self.sample = self.render_path(path);
            }
            self.drop_check(live, path);
            return;
        }
        let s = live.state;
        let mut variants: Vec<(usize, bool)> = vec![];
        for (gi, g) in self.aut.out[s].iter().enumerate() {
            if self.allowed(s, g, core_only, true, live.obj.as_ref()) {
                variants.push((gi, false));
                if self.cfg.relocate && self.aut.label(g).a != "destroy" {
                    variants.push((gi, true));
                }
            }
        }
        if variants.is_empty() {
            self.stats.paths += 1;
            self.drop_check(live, path);
            return;
        }
        let mut cur = Some(live);
        let n = variants.len();
        for (k, (g, reloc)) in variants.into_iter().enumerate() {
            let mut l = match cur.take() {
                Some(l) => l,
                None => match self.rebuild(path) {
                    Some(l) => l,
                    None => return,
                },
            };
            let _ = (k, n);
            let base = path.len();
            if reloc {
                match self.relocate(&mut l, path) {
                    Some(ps) => path.push(ps),
                    None => {
                        self.discard(l.obj);
                        continue;
                    }
                }
            }
            *budget -= 1;
            if self.step(&mut l, g, path) {
                path.push((s, g));
                let mut known = false;
                if self.use_memo && depth_left > 1 {
                    if let Some(fp) = l.obj.fingerprint() {
                        let e = self.memo.entry((l.state, fp)).or_insert(0);
                        if *e >= depth_left - 1 {
                            known = true;
                        } else {
                            *e = depth_left - 1;
                        }
                    }
                }
                if known {
                    // byte-identical object in the same model state, explored at least this deep before
                    self.merged += 1;
                    self.drop_check(l, path);
                } else {
                    self.explore(path, l, depth_left - 1, core_only, budget);
                }
            } else {
                self.stats.paths += 1;
                self.discard(l.obj);
            }
            path.truncate(base);
        }
    }

    /// upper bound of the number of DFS nodes down to `depth` (label paths from the initial states)
    fn count_paths(&self, depth: usize, core_only: bool, obj: &dyn Real) -> f64 {
        let n = self.aut.states.len();
        let mut cnt = vec![1f64; n];
        for _ in 0..depth {
            let mut next = vec![1f64; n];
            for s in 0..n {
                let mut c = 1f64;
                for g in &self.aut.out[s] {
                    if self.allowed(s, g, core_only, true, obj) {
                        let m = g.edges.iter().map(|e| cnt[self.aut.edges[*e].to]).fold(0f64, f64::max);
                        c += m * if self.cfg.relocate { 2.0 } else { 1.0 };
                    }
                }
                next[s] = c;
            }
            cnt = next;
        }
        let inits = self.aut.init.get(&(self.cfg.cap as i64)).cloned().unwrap_or_default();
        inits.iter().map(|s| cnt[*s]).fold(0f64, f64::max)
    }

    pub fn paths(&mut self, max_depth: usize, budget: u64) -> Value {
        let Some(probe) = self.fresh(&[]) else { return json!({"constructible": self.construct_failed.is_none()}) };
        let mut pick = |core: bool, w: &Walker| -> (usize, f64) {
            let mut best = (0usize, 1f64);
            for d in 1..=max_depth {
                let c = w.count_paths(d, core, probe.obj.as_ref());
                if c <= budget as f64 {
                    best = (d, c);
                } else {
                    break;
                }
            }
            best
        };
        let (d_full, est_full) = pick(false, self);
        let (d_core, est_core) = pick(true, self);
        let mut probe = probe;
        let memo_ok = self.use_memo && probe.obj.fingerprint().is_some();
        self.drop_check(probe, &[]);
        let mut out = json!({"constructible": true, "depth_full": d_full, "estimate_full": est_full,
                             "depth_core": d_core, "estimate_core": est_core, "exhaustive_by_merging": false});
        // 1. full alphabet to the maximal depth, merging byte-identical objects (inline / relocatable flavours)
        if memo_ok {
            let before = self.stats.paths;
            crate::crash::reset();
            self.memo.clear();
            if let Some(live) = self.fresh(&[]) {
                let mut b = (budget as i64) * 15;
                let mut path = vec![];
                self.explore(&mut path, live, max_depth, false, &mut b);
                out["paths_merging"] = json!(self.stats.paths - before);
                out["merged_by_memory_image"] = json!(self.merged);
                out["memory_images"] = json!(self.memo.len());
                if b > 0 {
                    out["exhaustive_by_merging"] = json!(true);
                    out["depth_full"] = json!(max_depth);
                    out["paths_full"] = out["paths_merging"].clone();
                    return out;
                }
                out["truncated"] = json!(true);
            }
            self.memo.clear();
        }
        // 2. otherwise (heap flavours, or the merging run exceeded its budget: depth-first order would leave the
        // later operations unexplored): plain enumeration, full alphabet to the depth that fits, core alphabet beyond
        self.use_memo = false;
        for (core, depth) in [(false, d_full), (true, d_core)] {
            if depth == 0 || (core && d_core <= d_full) {
                continue;
            }
            let before = self.stats.paths;
            crate::crash::reset();
            if let Some(live) = self.fresh(&[]) {
                let mut b = (budget as i64) * 2;
                let mut path = vec![];
                self.explore(&mut path, live, depth, core, &mut b);
            }
            out[if core { "paths_core" } else { "paths_full" }] = json!(self.stats.paths - before);
        }
        out
    }

    // -------------------------------------------------------------------------------------------
    // (c) seeded random walks

    pub fn random(&mut self, walks: u64, steps: u64, seed: u64) -> Value {
        let mut rng = Rng::new(seed);
        let mut completed = 0u64;
        let mut longest = 0u64;
        for _ in 0..walks {
            crate::crash::reset();
            let Some(mut live) = self.fresh(&[]) else { return json!({"constructible": self.construct_failed.is_none()}) };
            self.record_reset(&live);
            let mut path: Vec<PStep> = vec![];
            let mut alive = true;
            let mut n = 0u64;
            while n < steps {
                let s = live.state;
                if self.cfg.relocate && rng.chance(1, 5) {
                    match self.relocate(&mut live, &path) {
                        Some(ps) => path.push(ps),
                        None => {
                            alive = false;
                            break;
                        }
                    }
                }
                let cands: Vec<usize> = (0..self.aut.out[s].len())
                    .filter(|g| self.allowed(s, &self.aut.out[s][*g], false, true, live.obj.as_ref()))
                    .collect();
                if cands.is_empty() {
                    break;
                }
                // destroy restarts the history: keep it rare
                let mut g = *rng.pick(&cands);
                if self.aut.label(&self.aut.out[s][g]).a == "destroy" && !rng.chance(1, 20) {
                    g = *rng.pick(&cands);
                }
                if !self.step(&mut live, g, &path) {
                    alive = false;
                    break;
                }
                path.push((s, g));
                n += 1;
            }
            longest = longest.max(n);
            self.stats.paths += 1;
            self.sample = self.render_path(&path[..path.len().min(14)]);
            if alive {
                completed += 1;
                self.drop_check(live, &path);
            } else {
                self.discard(live.obj);
            }
        }
        json!({"constructible": true, "walks": walks, "completed": completed, "longest": longest})
    }

    // -------------------------------------------------------------------------------------------
    // (d) hand-over to ANOTHER PROCESS (C14): a random walk is started here, then the complete memory image of the
    // object is handed to a freshly executed copy of this driver (different code, stack, heap and mapping addresses
    // under ASLR), which adopts the bytes at whatever address its own block has, must observe the same abstract state
    // and continues the walk. An absolute address of THIS process that survived in the image (pointer into the block,
    // function pointer, address of a static) is followed in the other process: divergence or fault there.

    /// one random walk of `steps` steps from `live`; returns false when the walk ended in a divergence
    fn walk_from(&mut self, live: &mut Live, path: &mut Vec<PStep>, steps: u64, rng: &mut Rng) -> bool {
        let mut n = 0u64;
        while n < steps {
            let s = live.state;
            if self.cfg.relocate && rng.chance(1, 6) {
                match self.relocate(live, path) {
                    Some(ps) => path.push(ps),
                    None => return false,
                }
            }
            let cands: Vec<usize> = (0..self.aut.out[s].len())
                .filter(|g| self.aut.label(&self.aut.out[s][*g]).a != "destroy"
                    && self.allowed(s, &self.aut.out[s][*g], false, true, live.obj.as_ref()))
                .collect();
            if cands.is_empty() {
                break;
            }
            let g = *rng.pick(&cands);
            if !self.step(live, g, path) {
                return false;
            }
            path.push((s, g));
            n += 1;
        }
        true
    }

    pub fn handoff(&mut self, walks: u64, steps: u64, seed: u64, file: &str, child_args: &[String]) -> Value {
        let mut rng = Rng::new(seed);
        let (mut handed, mut child_steps, mut child_crashes) = (0u64, 0u64, 0u64);
        for w in 0..walks {
            crate::crash::reset();
            let Some(mut live) = self.fresh(&[]) else { return json!({"constructible": self.construct_failed.is_none()}) };
            let mut path: Vec<PStep> = vec![];
            let first = 1 + rng.below(steps.max(2) / 2 + 1);
            if !self.walk_from(&mut live, &mut path, first, &mut rng) {
                self.discard(live.obj);
                continue;
            }
            self.stats.paths += 1;
            let Some(images) = live.obj.image() else {
                self.discard(live.obj);
                return json!({"constructible": true, "handoff": "unsupported"});
            };
            let packed: Vec<u32> = path.iter().map(|(s, g)| crate::crash::pack(*s, *g)).collect();
            std::fs::write(file, serde_json::to_vec(&json!({"state": live.state, "images": images, "path": packed})).unwrap()).unwrap();
            // the elements now belong to the other process
            self.discard(live.obj);
            let out = std::process::Command::new(std::env::current_exe().unwrap())
                .args(child_args)
                .args(["--mode", "resume", "--resume-file", file, "--steps", &steps.to_string(), "--salt", &(seed ^ w).to_string()])
                .output()
                .expect("spawn of the second process failed");
            handed += 1;
            let rendered = self.render_path(&path);
            let code = out.status.code();
            let so = String::from_utf8_lossy(&out.stdout);
            let se = String::from_utf8_lossy(&out.stderr);
            if code == Some(0) {
                let line = so.lines().rev().find(|l| l.starts_with('{')).unwrap_or("{}");
                let v: Value = serde_json::from_str(line).unwrap_or(json!({}));
                child_steps += v["steps"].as_u64().unwrap_or(0);
                for d in v["divergences"].as_array().cloned().unwrap_or_default() {
                    let class = format!("{}:other-process", d["class"].as_str().unwrap_or("?"));
                    let e = self.divs.entry(class).or_default();
                    e.count += d["count"].as_u64().unwrap_or(1);
                    if e.example.is_null() {
                        e.example = json!({"history_in_first_process": rendered, "in_second_process": d["example"]});
                    }
                }
            } else {
                // a fault (or abort) of the code under test in the second process is data
                child_crashes += 1;
                let crash = se.lines().find(|l| l.starts_with("CRASH")).unwrap_or("").to_string();
                let class = format!("{}:crash:other-process", self.cfg.kind);
                let e = self.divs.entry(class).or_default();
                e.count += 1;
                if e.example.is_null() {
                    e.example = json!({"history_in_first_process": rendered, "packed": packed,
                                       "second_process_exit": code, "second_process": crash,
                                       "stderr_tail": se.chars().rev().take(300).collect::<String>().chars().rev().collect::<String>()});
                }
            }
        }
        let _ = std::fs::remove_file(file);
        json!({"constructible": true, "walks": walks, "handed_over": handed, "steps_in_second_process": child_steps,
               "faults_in_second_process": child_crashes})
    }

    /// second process: adopt the image, compare the observation with the model state, continue the walk
    pub fn resume(&mut self, file: &str, steps: u64, seed: u64) -> Value {
        let v: Value = serde_json::from_slice(&std::fs::read(file).expect("resume file")).expect("resume file json");
        let state = v["state"].as_u64().unwrap() as usize;
        let images: Vec<Vec<u8>> = v["images"].as_array().unwrap().iter()
            .map(|a| a.as_array().unwrap().iter().map(|b| b.as_u64().unwrap() as u8).collect()).collect();
        let mut path: Vec<PStep> = v["path"].as_array().unwrap().iter().map(|p| crate::crash::unpack(p.as_u64().unwrap() as u32)).collect();
        crate::crash::reset();
        for (s, g) in &path {
            crate::crash::push(*s, *g);
        }
        let Some(mut live) = self.fresh(&[]) else { return json!({"constructible": false}) };
        if !live.obj.adopt(&images) {
            panic!("image does not fit the freshly constructed object (driver error)");
        }
        live.state = state;
        let ov = catch_unwind(AssertUnwindSafe(|| live.obj.observe()));
        match ov {
            Ok(Ok(ov)) if ov == self.aut.states[state].ov => {}
            Ok(Ok(ov)) => {
                self.diverge(&path, None, "adopt", vec![json!({"ov": self.aut.states[state].ov})], json!({"ov": ov}), "state");
                self.discard(live.obj);
                return json!({"adopted": false});
            }
            Ok(Err(m)) => {
                self.diverge(&path, None, "adopt", vec![], json!({"problem": m}), "obs");
                self.discard(live.obj);
                return json!({"adopted": false});
            }
            Err(p) => {
                self.diverge(&path, None, "adopt", vec![], json!({"problem": crate::panic_text(&p)}), "panic");
                self.discard(live.obj);
                return json!({"adopted": false});
            }
        }
        let mut rng = Rng::new(seed);
        if self.walk_from(&mut live, &mut path, steps, &mut rng) {
            self.drop_check(live, &path);
        } else {
            self.discard(live.obj);
        }
        json!({"adopted": true})
    }

    /// re-executes a packed path (replay of a reported divergence or crash), printing every step
    pub fn replay(&mut self, packed: &[u32], strip_relocate: bool) -> Value {
        let mut log = vec![];
        let Some(mut live) = self.fresh(&[]) else { return json!({"constructible": false}) };
        let mut path: Vec<PStep> = vec![];
        for p in packed {
            let (s, g) = crate::crash::unpack(*p);
            if s >= self.aut.out.len() || g >= self.aut.out[s].len() {
                log.push(format!("bad step {p}"));
                break;
            }
            let text = label_text(self.aut.label(&self.aut.out[s][g]));
            if strip_relocate && self.aut.label(&self.aut.out[s][g]).a == "relocate" {
                continue;
            }
            eprintln!("step {}: {text}", path.len());
            if live.state != s {
                log.push(format!("{text}: object is in state {:?}, the path expects {:?}", self.aut.states[live.state].ov, self.aut.states[s].ov));
                break;
            }
            let ok = if self.aut.label(&self.aut.out[s][g]).a == "relocate" {
                self.relocate(&mut live, &path).is_some()
            } else {
                self.step(&mut live, g, &path)
            };
            log.push(format!("{text} -> {}", if ok { format!("{:?}", self.aut.states[live.state].ov) } else { "DIVERGED".into() }));
            if !ok {
                std::mem::forget(live);
                return json!({"log": log, "diverged": true});
            }
            path.push((s, g));
        }
        let ok = self.drop_check(live, &path);
        json!({"log": log, "diverged": !ok})
    }
}

/// placeholder while the real object is being destroyed
struct Dead;
impl Real for Dead {
    fn supports(&self, _a: &str) -> bool { false }
    fn apply(&mut self, _a: &str, _i: &[i64], _s: &[i64]) -> Outcome { unreachable!() }
    fn observe(&mut self) -> Result<Vec<i64>, String> { Err("dead".into()) }
    fn relocate(&mut self) -> bool { false }
}
