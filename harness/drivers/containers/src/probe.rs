use iceoryx2_bb_container::queue::*;
use iceoryx2_bb_container::slotmap::*;
use iceoryx2_bb_container::string::*;
use iceoryx2_bb_container::vector::*;
use iceoryx2_bb_memory::heap_allocator::HeapAllocator;
use std::panic::catch_unwind;

fn t<R: std::fmt::Debug>(name: &str, f: impl FnOnce() -> R + std::panic::UnwindSafe) {
    match catch_unwind(f) {
        Ok(r) => println!("{name}: {r:?}"),
        Err(e) => println!("{name}: PANIC {:?}", e.downcast_ref::<std::string::String>().cloned().or(e.downcast_ref::<&str>().map(|s| s.to_string()))),
    }
}

pub fn main(_a: &vlib::Args) {
    t("SemanticString(FileName) rfind vs find", || {
        use iceoryx2_bb_container::semantic_string::SemanticString;
        let f = iceoryx2_bb_system_types::file_name::FileName::new(b"a_b_c").unwrap();
        (f.find(b"_"), f.rfind(b"_"))
    });
    t("slotmap insert_at(head) then insert", || {
        let mut m = SlotMap::<u32>::new(2);
        let a = m.insert_at(SlotMapKey::new(0), 10);
        let nfk = m.next_free_key();
        let k = m.insert(20);
        let k2 = m.insert(30);
        (a, nfk, k, k2, m.len(), m.iter().map(|(k, v)| (k.value(), *v)).collect::<Vec<_>>())
    });
    t("slotmap insert_at(cap)", || { let mut m = SlotMap::<u32>::new(2); m.insert_at(SlotMapKey::new(2), 1) });
    t("slotmap insert_at(cap+1)", || { let mut m = SlotMap::<u32>::new(2); m.insert_at(SlotMapKey::new(3), 1) });
    t("slotmap remove(cap)", || { let mut m = SlotMap::<u32>::new(2); m.remove(SlotMapKey::new(2)) });
    t("slotmap remove(cap+1)", || { let mut m = SlotMap::<u32>::new(2); m.remove(SlotMapKey::new(3)) });
    t("slotmap get(cap)", || { let m = SlotMap::<u32>::new(2); m.get(SlotMapKey::new(2)).copied() });
    t("slotmap contains(cap)", || { let m = SlotMap::<u32>::new(2); m.contains(SlotMapKey::new(2)) });
    t("slotmap stale next: 3", || {
        let mut m = SlotMap::<u32>::new(3);
        let mut log = vec![];
        log.push(format!("{:?}", m.insert(1)));
        log.push(format!("{:?}", m.insert(2)));
        log.push(format!("{:?}", m.remove(SlotMapKey::new(0))));
        log.push(format!("{:?}", m.insert_at(SlotMapKey::new(1), 3)));
        log.push(format!("{:?}", m.insert_at(SlotMapKey::new(2), 4)));
        log.push(format!("{:?}", m.insert(5)));
        log.push(format!("full={} {:?}", m.is_full(), m.insert(6)));
        (log, m.len(), m.iter().map(|(k, v)| (k.value(), *v)).collect::<Vec<_>>())
    });
    t("slotmap cap0", || { let mut m = SlotMap::<u32>::new(0); (m.insert(1), m.next_free_key(), m.len()) });
    t("fixedslotmap cap0", || { let mut m = FixedSizeSlotMap::<u32, 0>::new(); (m.insert(1), m.len()) });
    t("queue cap0 pwo", || { let mut q = Queue::<u32>::new(0); q.push_with_overflow(1) });
    t("queue cap0 push/pop/peek", || { let mut q = Queue::<u32>::new(0); (q.push(1), q.pop(), q.peek().copied()) });
    t("fixedqueue cap0", || { let mut q = FixedSizeQueue::<u32, 0>::new(); q.push(1) });
    t("staticvec cap0", || { let mut q = StaticVec::<u32, 0>::new(); (q.push(1), q.pop(), q.insert(0, 1), q.remove(0)) });
    t("polyvec cap0", || { let a = HeapAllocator::new(); let q = PolymorphicVec::<u32, _>::new(&a, 0); q.map(|mut v| (v.push(1), v.pop())) });
    t("staticstring cap0", || { let s = StaticString::<0>::new(); s.len() });
    t("polystring cap0", || { let a = HeapAllocator::new(); let s = PolymorphicString::new(&a, 0); s.map(|mut s| (s.push(b'a'), s.len(), {s.clear(); s.len()})) });
    t("string remove(len)", || { let mut s = StaticString::<4>::from_bytes(b"ab").unwrap(); (s.remove(2), s.len()) });
    t("string remove(len==cap)", || { let mut s = StaticString::<2>::from_bytes(b"ab").unwrap(); (s.remove(2), s.len()) });
    t("string full strip_prefix(empty)", || { let mut s = StaticString::<2>::from_bytes(b"ab").unwrap(); s.strip_prefix(b"") });
    t("string full strip_suffix(empty)", || { let mut s = StaticString::<2>::from_bytes(b"ab").unwrap(); s.strip_suffix(b"") });
    t("string full remove_range(0,0)", || { let mut s = StaticString::<2>::from_bytes(b"ab").unwrap(); s.remove_range(0, 0) });
    t("string notfull strip_prefix(empty)", || { let mut s = StaticString::<3>::from_bytes(b"ab").unwrap(); s.strip_prefix(b"") });
    t("polystring full strip_prefix(empty)", || { let a = HeapAllocator::new(); let mut s = PolymorphicString::new(&a, 2).unwrap(); s.push_bytes(b"ab").unwrap(); (s.strip_prefix(b""), s.remove(2), s.len()) });
    t("string push full+invalid", || { let mut s = StaticString::<1>::from_bytes(b"a").unwrap(); (s.push(0), s.push(0x80), s.push(b'b')) });
    t("string insert idx>len", || { let mut s = StaticString::<4>::from_bytes(b"a").unwrap(); s.insert(3, b'b') });
    t("string remove_range(idx>len,0)", || { let mut s = StaticString::<4>::from_bytes(b"a").unwrap(); (s.remove_range(2, 0), s.remove_range(1, 0), s.remove_range(0, 2)) });
    t("string truncate > len", || { let mut s = StaticString::<4>::from_bytes(b"a").unwrap(); s.truncate(3); s.len() });
}

/// Parameter extraction for CSlotMapImpl.tla (DESIGN.md 3.3): two details of the free-list code are
/// read off the behaviour of the real SlotMap.
pub fn slotprobe() {
    // FixHead: does claim_index move the list head when it unlinks the head?
    let fix_head = catch_unwind(|| {
        let mut m = SlotMap::<u32>::new(2);
        m.insert_at(SlotMapKey::new(0), 1);
        m.next_free_key().map(|k| k.value()) != Some(0)
    });
    // ClearLinks: are the links of a key that was handed out reset? (the stale `next` of key 1 would cut
    // key 2 out of the list bookkeeping and let a full map hand out key 2 again)
    let clear_links = catch_unwind(|| {
        let mut m = SlotMap::<u32>::new(3);
        m.insert(1);
        m.insert(2);
        m.remove(SlotMapKey::new(0));
        m.insert_at(SlotMapKey::new(1), 3);
        m.insert_at(SlotMapKey::new(2), 4);
        m.insert(5);
        m.insert(6).is_none()
    });
    println!("{}", vlib::json!({"fix_head": fix_head.unwrap_or(false), "clear_links": clear_links.unwrap_or(false)}));
}
