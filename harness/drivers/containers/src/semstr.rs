//! SemanticString wrappers (semantic_string! macro of /repo) without content restrictions, one per
//! capacity: what remains is the wrapper logic itself (find/rfind delegation, error mapping, the
//! copy-modify-validate pattern of remove/strip/truncate) over a StaticString.

extern crate alloc;

macro_rules! sem {
    ($m:ident, $cap:literal) => {
        pub mod $m {
            use iceoryx2_bb_container::semantic_string;
            pub use iceoryx2_bb_container::semantic_string::SemanticString;
            use iceoryx2_bb_derive_macros::ZeroCopySend;
            use iceoryx2_bb_elementary_traits::zero_copy_send::ZeroCopySend;
            extern crate alloc;
            fn no(_v: &[u8]) -> bool {
                false
            }
            fn same(t: &Sem) -> Sem {
                *t
            }
            semantic_string! {
              /// unrestricted semantic string
              name: Sem,
              capacity: $cap,
              invalid_content: no,
              invalid_characters: no,
              normalize: same
            }
        }
    };
}
sem!(c1, 1);
sem!(c2, 2);
sem!(c3, 3);
sem!(c4, 4);
