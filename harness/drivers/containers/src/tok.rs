//! Drop-counting element type. The ids are the spec's tokens (1..=NV).
//!
//! The lock-step walker measures, per completed container operation, the NET number of drops
//! (drops minus clones) per token value and compares it with the `d` vector of the spec edge.
//! A drop of something that is not a live token (double drop, drop of uninitialised memory) and a
//! read of a dead token (use after drop) are counted separately and are always a violation.

use std::cell::Cell;

pub const NV: usize = 3;
const LIVE: u32 = 0x70C0_A11F;
const DEAD: u32 = 0xDEAD_D0A5;

thread_local! {
    static DROPPED: [Cell<i64>; NV + 1] = const { [Cell::new(0), Cell::new(0), Cell::new(0), Cell::new(0)] };
    static CLONED: [Cell<i64>; NV + 1] = const { [Cell::new(0), Cell::new(0), Cell::new(0), Cell::new(0)] };
    static BAD_DROPS: Cell<i64> = const { Cell::new(0) };
    static DEAD_READS: Cell<i64> = const { Cell::new(0) };
}

#[repr(C)]
#[derive(Debug)]
pub struct Tok {
    val: u32,
    magic: u32,
}

impl Tok {
    pub fn new(v: i64) -> Tok {
        Tok { val: v as u32, magic: LIVE ^ (v as u32) }
    }
    fn is_live(&self) -> bool {
        self.val >= 1 && self.val as usize <= NV && self.magic == LIVE ^ self.val
    }
    /// value of a token that is supposed to be alive (counts a dead read otherwise)
    pub fn read(&self) -> i64 {
        if !self.is_live() {
            DEAD_READS.with(|c| c.set(c.get() + 1));
            return -77;
        }
        self.val as i64
    }
}

impl Clone for Tok {
    fn clone(&self) -> Self {
        let v = self.read();
        if v > 0 {
            CLONED.with(|c| c[v as usize].set(c[v as usize].get() + 1));
        }
        Tok { val: self.val, magic: self.magic }
    }
}

impl PartialEq for Tok {
    fn eq(&self, o: &Self) -> bool {
        self.read() == o.read()
    }
}

impl Drop for Tok {
    fn drop(&mut self) {
        if self.is_live() {
            let v = self.val as usize;
            DROPPED.with(|c| c[v].set(c[v].get() + 1));
            self.magic = DEAD;
        } else {
            BAD_DROPS.with(|c| c.set(c.get() + 1));
        }
    }
}

#[derive(Clone, Copy, PartialEq, Eq, Debug, Default)]
pub struct Snapshot {
    pub net: [i64; NV],
    pub bad_drops: i64,
    pub dead_reads: i64,
}

pub fn snapshot() -> Snapshot {
    let mut s = Snapshot::default();
    for v in 1..=NV {
        s.net[v - 1] = DROPPED.with(|c| c[v].get()) - CLONED.with(|c| c[v].get());
    }
    s.bad_drops = BAD_DROPS.with(|c| c.get());
    s.dead_reads = DEAD_READS.with(|c| c.get());
    s
}

impl Snapshot {
    pub fn since(&self, earlier: &Snapshot) -> Snapshot {
        let mut s = Snapshot::default();
        for v in 0..NV {
            s.net[v] = self.net[v] - earlier.net[v];
        }
        s.bad_drops = self.bad_drops - earlier.bad_drops;
        s.dead_reads = self.dead_reads - earlier.dead_reads;
        s
    }
}
