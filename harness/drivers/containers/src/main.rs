//! Lock-step conformance driver for the fixed-capacity containers (C16) and for position
//! independence of the relocatable structures (C14).
//!
//!   drv-containers walk --automaton A.json --kind K --flavour F --cap N --mode cover|paths|random|replay
//!        [--relocate [--protect]] [--blocks] [--avoid-known] [--exclude a,b] [--depth 6] [--budget N]
//!        [--walks N --steps N] [--trace-out t.ndjson] [--path p1,p2,...]
//! prints one JSON summary line. Exit code 0 also when divergences were found (they are data);
//! a fault (SIGSEGV/SIGBUS, e.g. an access to the poisoned old block after a relocation) ends the
//! process with exit code 86 after printing `CRASH sig=<n> path=<packed steps>` on stderr.

extern crate iceoryx2_bb_loggers;

mod automaton;
mod block;
mod probe;
mod real;
mod semstr;
mod tok;
mod walker;

use vlib::{Value, json};

pub fn panic_text(e: &Box<dyn std::any::Any + Send>) -> String {
    e.downcast_ref::<String>().cloned().or_else(|| e.downcast_ref::<&str>().map(|s| s.to_string())).unwrap_or_else(|| "<non-string panic>".into())
}

/// the path currently being executed, readable from a signal handler
pub mod crash {
    use std::sync::atomic::{AtomicUsize, Ordering};
    const MAX: usize = 1 << 16;
    static mut PATH: [u32; MAX] = [0; MAX];
    static LEN: AtomicUsize = AtomicUsize::new(0);

    pub fn pack(s: usize, g: usize) -> u32 {
        assert!(s < (1 << 20) && g < (1 << 12));
        ((s as u32) << 12) | g as u32
    }
    pub fn unpack(p: u32) -> (usize, usize) {
        ((p >> 12) as usize, (p & 0xfff) as usize)
    }
    pub fn reset() {
        LEN.store(0, Ordering::Relaxed);
    }
    pub fn push(s: usize, g: usize) {
        let n = LEN.load(Ordering::Relaxed);
        if n < MAX {
            unsafe { (*(&raw mut PATH))[n] = pack(s, g) };
            LEN.store(n + 1, Ordering::Relaxed);
        }
    }

    fn put(buf: &mut [u8], pos: &mut usize, bytes: &[u8]) {
        for b in bytes {
            if *pos < buf.len() {
                buf[*pos] = *b;
                *pos += 1;
            }
        }
    }
    fn put_num(buf: &mut [u8], pos: &mut usize, mut n: u64) {
        let mut tmp = [0u8; 20];
        let mut k = 0;
        loop {
            tmp[k] = b'0' + (n % 10) as u8;
            n /= 10;
            k += 1;
            if n == 0 { break; }
        }
        while k > 0 {
            k -= 1;
            put(buf, pos, &tmp[k..k + 1]);
        }
    }

    extern "C" fn handler(sig: libc::c_int) {
        // async-signal-safe: formats into a static buffer, write(2), _exit
        static mut BUF: [u8; 16 * 4096] = [0; 16 * 4096];
        unsafe {
            let buf = &mut *(&raw mut BUF);
            let mut pos = 0;
            put(buf, &mut pos, b"\nCRASH sig=");
            put_num(buf, &mut pos, sig as u64);
            put(buf, &mut pos, b" path=");
            let n = LEN.load(Ordering::Relaxed);
            let start = n.saturating_sub(6000);
            for k in start..n {
                if k > start { put(buf, &mut pos, b","); }
                put_num(buf, &mut pos, (*(&raw const PATH))[k] as u64);
            }
            put(buf, &mut pos, b" truncated=");
            put_num(buf, &mut pos, start as u64);
            put(buf, &mut pos, b"\n");
            libc::write(2, buf.as_ptr() as *const _, pos);
            libc::_exit(86);
        }
    }

    pub fn install() {
        unsafe {
            // alternate stack: a fault may be a stack overflow
            let size = 1 << 16;
            let stack = libc::mmap(core::ptr::null_mut(), size, libc::PROT_READ | libc::PROT_WRITE,
                                   libc::MAP_PRIVATE | libc::MAP_ANONYMOUS, -1, 0);
            let ss = libc::stack_t { ss_sp: stack, ss_flags: 0, ss_size: size };
            libc::sigaltstack(&ss, core::ptr::null_mut());
            let mut sa: libc::sigaction = core::mem::zeroed();
            sa.sa_sigaction = handler as *const () as usize;
            sa.sa_flags = libc::SA_ONSTACK;
            libc::sigemptyset(&mut sa.sa_mask);
            for sig in [libc::SIGSEGV, libc::SIGBUS, libc::SIGILL, libc::SIGFPE, libc::SIGABRT] {
                libc::sigaction(sig, &sa, core::ptr::null_mut());
            }
        }
    }
}

fn walk(args: &vlib::Args) {
    crash::install();
    // panics of the code under test are data; keep stderr quiet
    std::panic::set_hook(Box::new(|_| {}));
    let aut = automaton::Automaton::load(&args.get("automaton").expect("--automaton"));
    let cfg = walker::Cfg {
        kind: args.get_or("kind", &aut.kind),
        flavour: args.get_or("flavour", "heap"),
        cap: args.num("cap", 1) as usize,
        in_block: args.flag("blocks"),
        relocate: args.flag("relocate"),
        avoid_known: args.flag("avoid-known"),
        exclude: args.get_or("exclude", "").split(',').filter(|s| !s.is_empty()).map(|s| s.to_string()).collect(),
    };
    block::POOL.with(|p| p.borrow_mut().set_protect(args.flag("protect")));
    let seed = vlib::seed_from_env();
    let mode = args.get_or("mode", "cover");
    let mut w = walker::Walker::new(&aut, cfg);
    w.use_memo = args.flag("merge") && !w.cfg.relocate;
    if let Some(p) = args.get("trace-out") {
        w.trace = Some(vlib::trace::TraceWriter::create(&p));
    }
    let detail: Value = match mode.as_str() {
        "cover" => w.cover(),
        "paths" => w.paths(args.num("depth", 6) as usize, args.num("budget", 1_000_000)),
        "random" => w.random(args.num("walks", 10), args.num("steps", 1000), seed ^ args.num("salt", 0)),
        "handoff" => {
            // arguments for the second process: everything except the mode / walk parameters
            let mut child: Vec<String> = vec!["walk".into()];
            for k in ["automaton", "kind", "flavour", "cap"] {
                if let Some(v) = args.get(k) {
                    child.push(format!("--{k}"));
                    child.push(v);
                }
            }
            for f in ["blocks", "relocate", "protect", "avoid-known"] {
                if args.flag(f) {
                    child.push(format!("--{f}"));
                }
            }
            w.handoff(args.num("walks", 10), args.num("steps", 30), seed ^ args.num("salt", 0),
                      &args.get("handoff-file").expect("--handoff-file"), &child)
        }
        "resume" => w.resume(&args.get("resume-file").expect("--resume-file"), args.num("steps", 30), args.num("salt", 1)),
        "replay" => {
            let p: Vec<u32> = args.get_or("path", "").split(',').filter(|s| !s.is_empty()).map(|s| s.parse().unwrap()).collect();
            w.replay(&p, args.flag("strip-relocate"))
        }
        m => panic!("unknown mode {m}"),
    };
    if let Some(t) = w.trace.as_mut() {
        t.flush();
    }
    let divs: Vec<Value> = w.divs.iter().map(|(c, d)| json!({"class": c, "count": d.count, "example": d.example})).collect();
    println!("{}", json!({
        "kind": w.cfg.kind, "flavour": w.cfg.flavour, "cap": w.cfg.cap, "mode": mode, "seed": seed,
        "relocate": w.cfg.relocate, "steps": w.stats.steps, "paths": w.stats.paths,
        "relocations": w.stats.relocations, "drop_checks": w.stats.drop_checks,
        "per_action": w.stats.per_action, "distinct_edges": w.covered.len(),
        "detail": detail, "divergences": divs, "construct_failed": w.construct_failed, "sample": w.sample,
    }));
}

fn main() {
    let args = vlib::Args::from_env();
    match args.positional(0).as_deref() {
        Some("walk") => walk(&args),
        Some("probe") => probe::main(&args),
        Some("slotprobe") => {
            std::panic::set_hook(Box::new(|_| {}));
            probe::slotprobe()
        }
        other => {
            eprintln!("unknown sub-command {other:?}");
            std::process::exit(2);
        }
    }
}
