//! Driver-owned memory blocks for relocatable structures (C14).
//!
//! A `Pool` maps a ring of page-granular slots once. An object lives in one slot at a varying
//! in-slot offset; `relocate` copies header + payload byte for byte into the next slot at a
//! different offset, fills the old slot with 0xA5 and `mprotect`s it PROT_NONE, so that any absolute
//! address that survived in the structure faults (SIGSEGV is caught by the handler installed in
//! main.rs and reported as data) or reads poison.

use core::ptr::NonNull;
use iceoryx2_bb_elementary::bump_allocator::BumpAllocator;
use iceoryx2_bb_elementary_traits::relocatable_container::RelocatableContainer;

pub const SLOT_SIZE: usize = 2 * 4096;
const SLOTS: usize = 24;
const MAX_OFFSET: usize = 1024;

pub struct Pool {
    base: *mut u8,
    next: usize,
    offset_counter: usize,
    protect: bool,
    in_use: [bool; SLOTS],
    protected: [bool; SLOTS],
}

impl Pool {
    pub fn new(protect: bool) -> Pool {
        let base = unsafe {
            libc::mmap(
                core::ptr::null_mut(),
                SLOT_SIZE * SLOTS,
                libc::PROT_READ | libc::PROT_WRITE,
                libc::MAP_PRIVATE | libc::MAP_ANONYMOUS,
                -1,
                0,
            )
        };
        assert!(base != libc::MAP_FAILED, "mmap failed");
        Pool { base: base as *mut u8, next: 0, offset_counter: 0, protect, in_use: [false; SLOTS], protected: [false; SLOTS] }
    }

    /// hands out the next slot (read/write, used region filled with 0xA5) and an in-slot offset
    /// (multiple of 16)
    fn take(&mut self, total: usize) -> (*mut u8, usize) {
        let mut tries = 0;
        while self.in_use[self.next] {
            self.next = (self.next + 1) % SLOTS;
            tries += 1;
            assert!(tries <= SLOTS, "block pool exhausted");
        }
        self.in_use[self.next] = true;
        let was_protected = core::mem::replace(&mut self.protected[self.next], false);
        let slot = unsafe { self.base.add(self.next * SLOT_SIZE) };
        self.next = (self.next + 1) % SLOTS;
        self.offset_counter += 1;
        let off = (self.offset_counter * 7 * 16) % MAX_OFFSET;
        unsafe {
            if was_protected {
                libc::mprotect(slot as *mut _, SLOT_SIZE, libc::PROT_READ | libc::PROT_WRITE);
            }
            core::ptr::write_bytes(slot.add(off), 0xA5, total);
        }
        (slot, off)
    }

    /// after an object was leaked on purpose (panic inside the code under test): nothing is alive
    pub fn set_protect(&mut self, on: bool) {
        self.protect = on;
    }

    pub fn reclaim_all(&mut self) {
        self.in_use = [false; SLOTS];
    }

    /// the slot is given back: its used region is filled with 0xA5 and (with `protect`) made inaccessible
    fn poison(&mut self, slot: *mut u8, at: *mut u8, total: usize) {
        let idx = (slot as usize - self.base as usize) / SLOT_SIZE;
        self.in_use[idx] = false;
        unsafe {
            core::ptr::write_bytes(at, 0xA5, total);
            if self.protect {
                libc::mprotect(slot as *mut _, SLOT_SIZE, libc::PROT_NONE);
                self.protected[idx] = true;
            }
        }
    }
}

thread_local! {
    pub static POOL: std::cell::RefCell<Pool> = std::cell::RefCell::new(Pool::new(false));
}

/// An object of type T (header) followed by `payload` bytes, inside a pool slot.
pub struct InBlock<T> {
    slot: *mut u8,
    hdr: *mut T,
    total: usize,
    pub relocations: u64,
}

impl<T> InBlock<T> {
    fn place(total: usize) -> (*mut u8, *mut T) {
        assert!(total + MAX_OFFSET <= SLOT_SIZE, "object too large for a slot: {total}");
        assert!(core::mem::align_of::<T>() <= 16);
        let (slot, off) = POOL.with(|p| p.borrow_mut().take(total));
        (slot, unsafe { slot.add(off) } as *mut T)
    }

    /// a RelocatableContainer initialised through a BumpAllocator over the bytes behind the header
    pub fn new_relocatable(capacity: usize) -> Result<Self, String>
    where
        T: RelocatableContainer,
    {
        let payload = T::memory_size(capacity) + 16;
        let total = core::mem::size_of::<T>() + payload;
        let (slot, hdr) = Self::place(total);
        unsafe {
            hdr.write(T::new_uninit(capacity));
            let start = (hdr as *mut u8).add(core::mem::size_of::<T>());
            let alloc = BumpAllocator::new(NonNull::new_unchecked(start), payload);
            if let Err(e) = (*hdr).init(&alloc) {
                // never initialised: the header must not be dropped
                POOL.with(|p| p.borrow_mut().poison(slot, hdr as *mut u8, total));
                return Err(format!("init failed: {e:?}"));
            }
        }
        Ok(InBlock { slot, hdr, total, relocations: 0 })
    }

    /// the cal shared-memory pool allocator (management data + payload of `cap` 16-byte buckets) as every process
    /// that maps the segment sees it: header, index-set cells and payload in ONE relocatable block; allocations are
    /// PointerOffsets, nothing may refer to the addresses of the process that initialised it
    pub fn new_shmpool(cap: usize) -> Result<InBlock<iceoryx2_cal::shm_allocator::pool_allocator::PoolAllocator>, String> {
        use iceoryx2_cal::shm_allocator::ShmAllocator;
        use iceoryx2_cal::shm_allocator::pool_allocator::{Config, PoolAllocator as ShmPool};
        if cap == 0 {
            return Err("capacity 0".into());
        }
        let conf = Config { bucket_layout: core::alloc::Layout::from_size_align(16, 16).unwrap() };
        let payload = cap * 16;
        let mgmt = (ShmPool::management_size(payload, &conf) + 64 + 15) & !15;
        let hdr_size = (core::mem::size_of::<ShmPool>() + 15) & !15;
        let total = hdr_size + mgmt + payload;
        assert!(total + MAX_OFFSET <= SLOT_SIZE, "object too large for a slot: {total}");
        let (slot, off) = POOL.with(|p| p.borrow_mut().take(total));
        let hdr = unsafe { slot.add(off) } as *mut ShmPool;
        unsafe {
            let mgmt_start = (hdr as *mut u8).add(hdr_size);
            let payload_start = mgmt_start.add(mgmt);
            let mem = NonNull::slice_from_raw_parts(NonNull::new_unchecked(payload_start), payload);
            hdr.write(ShmPool::new_uninit(4096, mem, &conf));
            let alloc = BumpAllocator::new(NonNull::new_unchecked(mgmt_start), mgmt);
            if let Err(e) = (*hdr).init(&alloc) {
                POOL.with(|p| p.borrow_mut().poison(slot, hdr as *mut u8, total));
                return Err(format!("init failed: {e:?}"));
            }
        }
        Ok(InBlock { slot, hdr, total, relocations: 0 })
    }

    /// a self-contained (inline) value moved into the block
    pub fn new_inline(value: T) -> Self {
        let total = core::mem::size_of::<T>();
        let (slot, hdr) = Self::place(total.max(1));
        unsafe { hdr.write(value) };
        InBlock { slot, hdr, total, relocations: 0 }
    }

    pub fn get(&mut self) -> &mut T {
        unsafe { &mut *self.hdr }
    }

    /// byte-for-byte copy to a fresh, differently aligned address; the old block is poisoned
    pub fn relocate(&mut self) {
        let (slot, hdr) = Self::place(self.total);
        unsafe {
            core::ptr::copy_nonoverlapping(self.hdr as *const u8, hdr as *mut u8, self.total);
        }
        let (old, old_hdr, total) = (self.slot, self.hdr as *mut u8, self.total);
        POOL.with(|p| p.borrow_mut().poison(old, old_hdr, total));
        self.slot = slot;
        self.hdr = hdr;
        self.relocations += 1;
    }
}

impl<T> Drop for InBlock<T> {
    fn drop(&mut self) {
        unsafe { core::ptr::drop_in_place(self.hdr) };
        let (s, h, t) = (self.slot, self.hdr as *mut u8, self.total);
        POOL.with(|p| p.borrow_mut().poison(s, h, t));
    }
}

/// Holder abstraction: a plain Rust value or a value inside a relocatable block.
pub trait Holder<T> {
    fn obj(&mut self) -> &mut T;
    fn relocate(&mut self) -> bool;
    /// the memory that holds the COMPLETE state of the object (header + payload), if the driver knows it
    fn bytes(&mut self) -> Option<(*const u8, usize)> {
        None
    }
    /// replaces the complete state of the object by a byte image of the same size (taken in another process)
    fn overwrite(&mut self, _image: &[u8]) -> bool {
        false
    }
}

/// FNV-1a over the raw bytes of the given regions (padding and stale slots included: two objects with the
/// same fingerprint are byte-identical and therefore behave identically from here on)
pub fn fingerprint(regions: &[Option<(*const u8, usize)>]) -> Option<u64> {
    let mut h: u64 = 0xcbf29ce484222325;
    for r in regions {
        let (p, n) = (*r)?;
        for k in 0..n {
            let b = unsafe { core::ptr::read_volatile(p.add(k)) };
            h = (h ^ b as u64).wrapping_mul(0x100000001b3);
        }
        h = (h ^ 0xff).wrapping_mul(0x100000001b3);
    }
    Some(h)
}

/// a self-contained (inline) value owned by the driver: its bytes are its whole state
pub struct OwnInline<T>(pub T);

impl<T> Holder<T> for OwnInline<T> {
    fn obj(&mut self) -> &mut T {
        &mut self.0
    }
    fn relocate(&mut self) -> bool {
        false
    }
    fn bytes(&mut self) -> Option<(*const u8, usize)> {
        Some((&self.0 as *const T as *const u8, core::mem::size_of::<T>()))
    }
}

pub struct Own<T>(pub T);

impl<T> Holder<T> for Own<T> {
    fn obj(&mut self) -> &mut T {
        &mut self.0
    }
    fn relocate(&mut self) -> bool {
        false
    }
}

impl<T> Holder<T> for InBlock<T> {
    fn obj(&mut self) -> &mut T {
        self.get()
    }
    fn relocate(&mut self) -> bool {
        InBlock::relocate(self);
        true
    }
    fn bytes(&mut self) -> Option<(*const u8, usize)> {
        Some((self.hdr as *const u8, self.total))
    }
    fn overwrite(&mut self, image: &[u8]) -> bool {
        if image.len() != self.total {
            return false;
        }
        unsafe { core::ptr::copy_nonoverlapping(image.as_ptr(), self.hdr as *mut u8, self.total) };
        true
    }
}
