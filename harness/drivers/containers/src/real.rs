//! Adapters from spec edge labels to the REAL containers of /repo, one per container family and
//! storage flavour:
//!   heap    Queue / SlotMap / FlatMap (OwningPointer), PolymorphicVec / PolymorphicString over the
//!           HeapAllocator, lock-free IndexQueue / BitSet with heap storage
//!   inline  StaticVec / StaticString / FixedSize* (const-generic capacity 0..=4, bit set also 9)
//!   reloc   Relocatable* placed behind its header in a driver-owned block and initialised through a
//!           BumpAllocator over that block
//! With `in_block` (C14) the inline flavours live in a block too and both can be relocated.

use crate::block::{Holder, InBlock, Own, OwnInline, fingerprint};
use crate::tok::Tok;
use iceoryx2_bb_container::flatmap::{FixedSizeFlatMap, FlatMap, FlatMapError, RelocatableFlatMap};
use iceoryx2_bb_container::queue::{FixedSizeQueue, Queue, RelocatableQueue};
use iceoryx2_bb_container::semantic_string::SemanticString;
use iceoryx2_bb_container::slotmap::{FixedSizeSlotMap, RelocatableSlotMap, SlotMap, SlotMapKey};
use iceoryx2_bb_container::string::{
    PolymorphicString, RelocatableString, StaticString, String as IoxString, StringModificationError,
};
use iceoryx2_bb_container::vector::{
    PolymorphicVec, RelocatableVec, StaticVec, Vector, VectorModificationError,
};
use iceoryx2_bb_elementary::CallbackProgression;
use iceoryx2_bb_lock_free::mpmc::bit_set::{BitSet, FixedSizeBitSet, RelocatableBitSet};
use iceoryx2_bb_lock_free::mpmc::unique_index_set::{FixedSizeUniqueIndexSet, UniqueIndexSet};
use iceoryx2_bb_lock_free::mpmc::unique_index_set_enums::{ReleaseMode, ReleaseState, UniqueIndexSetAcquireFailure};
use iceoryx2_bb_lock_free::spsc::index_queue::{FixedSizeIndexQueue, IndexQueue, RelocatableIndexQueue};
use iceoryx2_bb_lock_free::spsc::safely_overflowing_index_queue::{
    FixedSizeSafelyOverflowingIndexQueue, RelocatableSafelyOverflowingIndexQueue, SafelyOverflowingIndexQueue,
};
use iceoryx2_bb_memory::heap_allocator::HeapAllocator;
use core::ptr::NonNull;
use iceoryx2_bb_elementary_traits::allocator::{Allocate, AllocationError, Deallocate};
use std::marker::PhantomData;

pub struct Outcome {
    pub r: &'static str,
    pub v: Vec<i64>,
    /// everything the driver owns after the call (returned elements, borrowed slices): dropped by
    /// the walker AFTER the drop counters were read
    pub keep: Vec<Tok>,
}

fn out(r: &'static str) -> Outcome {
    Outcome { r, v: vec![], keep: vec![] }
}
fn out_tok(r: &'static str, t: Tok) -> Outcome {
    Outcome { r, v: vec![t.read()], keep: vec![t] }
}
fn out_v(r: &'static str, v: Vec<i64>) -> Outcome {
    Outcome { r, v, keep: vec![] }
}
fn b(x: bool) -> &'static str {
    if x { "true" } else { "false" }
}

pub trait Real {
    fn supports(&self, a: &str) -> bool;
    fn apply(&mut self, a: &str, i: &[i64], s: &[i64]) -> Outcome;
    /// the projected abstract state as the observable vector of the automaton; Err = the read-only
    /// API contradicts itself (len vs is_empty, peek vs get(0), dead element visible, ...)
    fn observe(&mut self) -> Result<Vec<i64>, String>;
    fn relocate(&mut self) -> bool;
    /// hash of the complete memory image of the object, if the driver owns all of it
    fn fingerprint(&mut self) -> Option<u64> {
        None
    }
    /// the complete memory image(s) of the object (header + payload), for the hand-over to another process
    fn image(&mut self) -> Option<Vec<Vec<u8>>> {
        None
    }
    /// overwrites the memory of this (freshly constructed, same kind / capacity) object with the image(s) taken
    /// in ANOTHER process: what every process that opens a shared-memory segment sees (C14)
    fn adopt(&mut self, _images: &[Vec<u8>]) -> bool {
        false
    }
    /// finer than `supports`: is this edge (action + scalar arguments) meaningful for the flavour
    fn supports_edge(&self, _a: &str, _i: &[i64]) -> bool {
        true
    }
}

pub fn copy_region(r: Option<(*const u8, usize)>) -> Option<Vec<u8>> {
    let (p, n) = r?;
    Some(unsafe { core::slice::from_raw_parts(p, n) }.to_vec())
}

macro_rules! check {
    ($cond:expr, $($msg:tt)*) => {
        if !($cond) {
            return Err(format!($($msg)*));
        }
    };
}

// ------------------------------------------------------------------------------------------------
// Vec

pub struct VecReal<V: Vector<Tok>, H: Holder<V>> {
    h: H,
    _p: PhantomData<V>,
}

fn vec_res(r: Result<(), VectorModificationError>) -> Outcome {
    match r {
        Ok(()) => out("ok"),
        Err(VectorModificationError::InsertWouldExceedCapacity) => out("full"),
        Err(VectorModificationError::OutOfBounds) => out("oob"),
    }
}

impl<V: Vector<Tok>, H: Holder<V>> Real for VecReal<V, H> {
    fn supports(&self, a: &str) -> bool {
        matches!(a, "push" | "pop" | "insert" | "remove" | "truncate" | "resize" | "extend_from_slice" | "clear")
    }
    fn apply(&mut self, a: &str, i: &[i64], s: &[i64]) -> Outcome {
        let v = self.h.obj();
        match a {
            "push" => vec_res(v.push(Tok::new(i[0]))),
            "pop" => match v.pop() {
                Some(t) => out_tok("some", t),
                None => out("none"),
            },
            "insert" => vec_res(v.insert(i[0] as usize, Tok::new(i[1]))),
            "remove" => match v.remove(i[0] as usize) {
                Some(t) => out_tok("some", t),
                None => out("none"),
            },
            "truncate" => {
                v.truncate(i[0] as usize);
                out("ok")
            }
            "resize" => vec_res(v.resize(i[0] as usize, Tok::new(i[1]))),
            "extend_from_slice" => {
                let toks: Vec<Tok> = s.iter().map(|x| Tok::new(*x)).collect();
                let mut o = vec_res(v.extend_from_slice(&toks));
                o.keep = toks;
                o
            }
            "clear" => {
                v.clear();
                out("ok")
            }
            _ => unreachable!("vec action {a}"),
        }
    }
    fn observe(&mut self) -> Result<Vec<i64>, String> {
        let v = self.h.obj();
        let (cap, len) = (v.capacity(), v.len());
        check!(v.is_empty() == (len == 0), "is_empty() = {} with len() = {len}", v.is_empty());
        check!(v.is_full() == (len == cap), "is_full() = {} with len() = {len}, capacity() = {cap}", v.is_full());
        check!(v.as_slice().len() == len, "as_slice().len() = {} with len() = {len}", v.as_slice().len());
        let mut o = vec![cap as i64, len as i64];
        o.extend(v.as_slice().iter().map(|t| t.read()));
        let d: &[Tok] = v;
        check!(d.len() == len, "deref slice len {} with len() = {len}", d.len());
        Ok(o)
    }
    fn relocate(&mut self) -> bool {
        self.h.relocate()
    }
    fn fingerprint(&mut self) -> Option<u64> {
        fingerprint(&[self.h.bytes()])
    }
    fn image(&mut self) -> Option<Vec<Vec<u8>>> {
        Some(vec![copy_region(self.h.bytes())?])
    }
    fn adopt(&mut self, images: &[Vec<u8>]) -> bool {
        images.len() == 1 && self.h.overwrite(&images[0])
    }
}

// ------------------------------------------------------------------------------------------------
// Queue (two instances in lock-step: drop-counting tokens, and Copy integers for get())

pub trait QueueLike<T> {
    fn q_push(&mut self, v: T) -> bool;
    fn q_pop(&mut self) -> Option<T>;
    fn q_pwo(&mut self, v: T) -> Option<T>;
    fn q_clear(&mut self);
    fn q_peek(&self) -> Option<&T>;
    fn q_len(&self) -> usize;
    fn q_cap(&self) -> usize;
    fn q_is_empty(&self) -> bool;
    fn q_is_full(&self) -> bool;
}
pub trait QueueGet {
    fn q_get(&self, i: usize) -> u32;
}

macro_rules! queue_like {
    ([$($g:tt)*], $t:ty, $($u:tt)?) => {
        impl<T, $($g)*> QueueLike<T> for $t {
            fn q_push(&mut self, v: T) -> bool { $($u)? { self.push(v) } }
            fn q_pop(&mut self) -> Option<T> { $($u)? { self.pop() } }
            fn q_pwo(&mut self, v: T) -> Option<T> { $($u)? { self.push_with_overflow(v) } }
            fn q_clear(&mut self) { $($u)? { self.clear() } }
            fn q_peek(&self) -> Option<&T> { self.peek() }
            fn q_len(&self) -> usize { self.len() }
            fn q_cap(&self) -> usize { self.capacity() }
            fn q_is_empty(&self) -> bool { self.is_empty() }
            fn q_is_full(&self) -> bool { self.is_full() }
        }
    };
}
queue_like!([], Queue<T>,);
queue_like!([], RelocatableQueue<T>, unsafe);
queue_like!([const N: usize], FixedSizeQueue<T, N>,);
impl QueueGet for Queue<u32> {
    fn q_get(&self, i: usize) -> u32 { self.get(i) }
}
impl QueueGet for RelocatableQueue<u32> {
    fn q_get(&self, i: usize) -> u32 { self.get(i) }
}
impl<const N: usize> QueueGet for FixedSizeQueue<u32, N> {
    fn q_get(&self, i: usize) -> u32 { self.get(i) }
}

pub struct QueueReal<QT: QueueLike<Tok>, QC: QueueLike<u32> + QueueGet, HT: Holder<QT>, HC: Holder<QC>> {
    t: HT,
    c: HC,
    _p: PhantomData<(QT, QC)>,
}

impl<QT: QueueLike<Tok>, QC: QueueLike<u32> + QueueGet, HT: Holder<QT>, HC: Holder<QC>> Real for QueueReal<QT, QC, HT, HC> {
    fn supports(&self, a: &str) -> bool {
        matches!(a, "push" | "pop" | "push_with_overflow" | "clear")
    }
    fn apply(&mut self, a: &str, i: &[i64], _s: &[i64]) -> Outcome {
        let (t, c) = (self.t.obj(), self.c.obj());
        match a {
            "push" => {
                let (x, y) = (t.q_push(Tok::new(i[0])), c.q_push(i[0] as u32));
                if x != y { return out("twin-mismatch"); }
                out(b(x))
            }
            "pop" => match (t.q_pop(), c.q_pop()) {
                (Some(x), Some(y)) if x.read() == y as i64 => out_tok("some", x),
                (None, None) => out("none"),
                _ => out("twin-mismatch"),
            },
            "push_with_overflow" => match (t.q_pwo(Tok::new(i[0])), c.q_pwo(i[0] as u32)) {
                (Some(x), Some(y)) if x.read() == y as i64 => out_tok("some", x),
                (None, None) => out("none"),
                _ => out("twin-mismatch"),
            },
            "clear" => {
                t.q_clear();
                c.q_clear();
                out("ok")
            }
            _ => unreachable!("queue action {a}"),
        }
    }
    fn observe(&mut self) -> Result<Vec<i64>, String> {
        let (t, c) = (self.t.obj(), self.c.obj());
        let (cap, len) = (t.q_cap(), t.q_len());
        check!(c.q_len() == len && c.q_cap() == cap, "token queue len {len} vs integer queue len {}", c.q_len());
        check!(t.q_is_empty() == (len == 0) && c.q_is_empty() == (len == 0), "is_empty() with len() = {len}");
        check!(t.q_is_full() == (len == cap) && c.q_is_full() == (len == cap), "is_full() with len() = {len}, capacity() = {cap}");
        let mut o = vec![cap as i64, len as i64];
        for k in 0..len {
            o.push(c.q_get(k) as i64);
        }
        match (t.q_peek(), c.q_peek()) {
            (None, None) => check!(len == 0, "peek() = None with len() = {len}"),
            (Some(x), Some(y)) => {
                check!(len > 0, "peek() = Some with len() = 0");
                check!(x.read() == o[2] && *y as i64 == o[2], "peek() = {} / {} but get(0) = {}", x.read(), y, o[2]);
            }
            _ => return Err("peek() differs between token and integer queue".into()),
        }
        Ok(o)
    }
    fn relocate(&mut self) -> bool {
        let a = self.t.relocate();
        let b = self.c.relocate();
        a && b
    }
    fn fingerprint(&mut self) -> Option<u64> {
        fingerprint(&[self.t.bytes(), self.c.bytes()])
    }
    fn image(&mut self) -> Option<Vec<Vec<u8>>> {
        Some(vec![copy_region(self.t.bytes())?, copy_region(self.c.bytes())?])
    }
    fn adopt(&mut self, images: &[Vec<u8>]) -> bool {
        images.len() == 2 && self.t.overwrite(&images[0]) && self.c.overwrite(&images[1])
    }
}

// ------------------------------------------------------------------------------------------------
// SlotMap

pub trait SlotLike {
    fn s_insert(&mut self, v: Tok) -> Option<SlotMapKey>;
    fn s_insert_at(&mut self, k: SlotMapKey, v: Tok) -> bool;
    fn s_remove(&mut self, k: SlotMapKey) -> Option<Tok>;
    fn s_get(&self, k: SlotMapKey) -> Option<&Tok>;
    fn s_contains(&self, k: SlotMapKey) -> bool;
    fn s_next_free_key(&self) -> Option<SlotMapKey>;
    fn s_len(&self) -> usize;
    fn s_cap(&self) -> usize;
    fn s_is_empty(&self) -> bool;
    fn s_is_full(&self) -> bool;
    fn s_iter(&self) -> Vec<(usize, i64)>;
}

macro_rules! slot_like {
    ([$($g:tt)*], $t:ty, $($u:tt)?) => {
        impl<$($g)*> SlotLike for $t {
            fn s_insert(&mut self, v: Tok) -> Option<SlotMapKey> { $($u)? { self.insert(v) } }
            fn s_insert_at(&mut self, k: SlotMapKey, v: Tok) -> bool { $($u)? { self.insert_at(k, v) } }
            fn s_remove(&mut self, k: SlotMapKey) -> Option<Tok> { $($u)? { self.remove(k) } }
            fn s_get(&self, k: SlotMapKey) -> Option<&Tok> { $($u)? { self.get(k) } }
            fn s_contains(&self, k: SlotMapKey) -> bool { $($u)? { self.contains(k) } }
            fn s_next_free_key(&self) -> Option<SlotMapKey> { $($u)? { self.next_free_key() } }
            fn s_len(&self) -> usize { self.len() }
            fn s_cap(&self) -> usize { self.capacity() }
            fn s_is_empty(&self) -> bool { self.is_empty() }
            fn s_is_full(&self) -> bool { self.is_full() }
            fn s_iter(&self) -> Vec<(usize, i64)> {
                $($u)? { self.iter().map(|(k, v)| (k.value(), v.read())).collect() }
            }
        }
    };
}
slot_like!([], SlotMap<Tok>,);
slot_like!([], RelocatableSlotMap<Tok>, unsafe);
slot_like!([const N: usize], FixedSizeSlotMap<Tok, N>,);

pub struct SlotReal<S: SlotLike, H: Holder<S>> {
    h: H,
    _p: PhantomData<S>,
}

impl<S: SlotLike, H: Holder<S>> Real for SlotReal<S, H> {
    fn supports(&self, a: &str) -> bool {
        matches!(a, "insert" | "insert_at" | "remove" | "get" | "contains")
    }
    fn apply(&mut self, a: &str, i: &[i64], _s: &[i64]) -> Outcome {
        let m = self.h.obj();
        match a {
            "insert" => match m.s_insert(Tok::new(i[0])) {
                Some(k) => out_v("some", vec![k.value() as i64]),
                None => out("none"),
            },
            "insert_at" => out(b(m.s_insert_at(SlotMapKey::new(i[0] as usize), Tok::new(i[1])))),
            "remove" => match m.s_remove(SlotMapKey::new(i[0] as usize)) {
                Some(t) => out_tok("some", t),
                None => out("none"),
            },
            "get" => match m.s_get(SlotMapKey::new(i[0] as usize)) {
                Some(t) => out_v("some", vec![t.read()]),
                None => out("none"),
            },
            "contains" => out(b(m.s_contains(SlotMapKey::new(i[0] as usize)))),
            _ => unreachable!("slotmap action {a}"),
        }
    }
    fn observe(&mut self) -> Result<Vec<i64>, String> {
        let m = self.h.obj();
        let (cap, len) = (m.s_cap(), m.s_len());
        let nxt = m.s_next_free_key().map(|k| k.value() as i64).unwrap_or(-1);
        let mut o = vec![cap as i64, nxt];
        let mut slots = vec![0i64; cap];
        let it = m.s_iter();
        let mut prev: i64 = -1;
        for (k, v) in &it {
            check!(*k < cap, "iter() yields key {k} >= capacity {cap}");
            check!((*k as i64) > prev, "iter() not in ascending key order: {it:?}");
            prev = *k as i64;
            slots[*k] = *v;
        }
        check!(it.len() == len, "iter() yields {} entries with len() = {len}", it.len());
        check!(m.s_is_empty() == (len == 0), "is_empty() = {} with len() = {len}", m.s_is_empty());
        check!(m.s_is_full() == (len == cap), "is_full() = {} with len() = {len}, capacity() = {cap}", m.s_is_full());
        for k in 0..cap {
            let g = m.s_get(SlotMapKey::new(k)).map(|t| t.read()).unwrap_or(0);
            check!(g == slots[k], "get({k}) = {g} but iter() gives {}", slots[k]);
            check!(m.s_contains(SlotMapKey::new(k)) == (slots[k] != 0), "contains({k}) contradicts iter()");
        }
        o.extend(slots);
        Ok(o)
    }
    fn relocate(&mut self) -> bool {
        self.h.relocate()
    }
    fn fingerprint(&mut self) -> Option<u64> {
        fingerprint(&[self.h.bytes()])
    }
    fn image(&mut self) -> Option<Vec<Vec<u8>>> {
        Some(vec![copy_region(self.h.bytes())?])
    }
    fn adopt(&mut self, images: &[Vec<u8>]) -> bool {
        images.len() == 1 && self.h.overwrite(&images[0])
    }
}

// ------------------------------------------------------------------------------------------------
// FlatMap (keys 1..=3 as u8, values are tokens)

pub trait FlatLike {
    fn f_insert(&mut self, k: u8, v: Tok) -> Result<(), FlatMapError>;
    fn f_get(&self, k: u8) -> Option<Tok>;
    fn f_get_ref(&self, k: u8) -> Option<&Tok>;
    fn f_remove(&mut self, k: u8) -> Option<Tok>;
    fn f_contains(&self, k: u8) -> bool;
    fn f_len(&self) -> usize;
    fn f_is_empty(&self) -> bool;
    fn f_is_full(&self) -> bool;
    fn f_keys(&self) -> Vec<u8>;
}

macro_rules! flat_like {
    ([$($g:tt)*], $t:ty, $($u:tt)?) => {
        impl<$($g)*> FlatLike for $t {
            fn f_insert(&mut self, k: u8, v: Tok) -> Result<(), FlatMapError> { $($u)? { self.insert(k, v) } }
            fn f_get(&self, k: u8) -> Option<Tok> { $($u)? { self.get(&k) } }
            fn f_get_ref(&self, k: u8) -> Option<&Tok> { $($u)? { self.get_ref(&k) } }
            fn f_remove(&mut self, k: u8) -> Option<Tok> { $($u)? { self.remove(&k) } }
            fn f_contains(&self, k: u8) -> bool { $($u)? { self.contains(&k) } }
            fn f_len(&self) -> usize { self.len() }
            fn f_is_empty(&self) -> bool { self.is_empty() }
            fn f_is_full(&self) -> bool { self.is_full() }
            fn f_keys(&self) -> Vec<u8> {
                let mut ks = vec![];
                self.list_keys(|k| { ks.push(*k); CallbackProgression::Continue });
                ks
            }
        }
    };
}
flat_like!([], FlatMap<u8, Tok>,);
flat_like!([], RelocatableFlatMap<u8, Tok>, unsafe);
flat_like!([const N: usize], FixedSizeFlatMap<u8, Tok, N>,);

pub struct FlatReal<F: FlatLike, H: Holder<F>> {
    h: H,
    cap: usize,
    _p: PhantomData<F>,
}

impl<F: FlatLike, H: Holder<F>> Real for FlatReal<F, H> {
    fn supports(&self, a: &str) -> bool {
        matches!(a, "insert" | "get" | "remove" | "contains")
    }
    fn apply(&mut self, a: &str, i: &[i64], _s: &[i64]) -> Outcome {
        let m = self.h.obj();
        match a {
            "insert" => match m.f_insert(i[0] as u8, Tok::new(i[1])) {
                Ok(()) => out("ok"),
                Err(FlatMapError::KeyAlreadyExists) => out("exists"),
                Err(FlatMapError::IsFull) => out("full"),
            },
            "get" => match m.f_get(i[0] as u8) {
                Some(t) => out_tok("some", t),
                None => out("none"),
            },
            "remove" => match m.f_remove(i[0] as u8) {
                Some(t) => out_tok("some", t),
                None => out("none"),
            },
            "contains" => out(b(m.f_contains(i[0] as u8))),
            _ => unreachable!("flatmap action {a}"),
        }
    }
    fn observe(&mut self) -> Result<Vec<i64>, String> {
        let cap = self.cap;
        let m = self.h.obj();
        let len = m.f_len();
        let mut o = vec![cap as i64];
        let mut keys = m.f_keys();
        keys.sort();
        let mut present = vec![];
        for k in 1..=3u8 {
            let g = m.f_get_ref(k).map(|t| t.read()).unwrap_or(0);
            check!(m.f_contains(k) == (g != 0), "contains({k}) contradicts get_ref({k})");
            if g != 0 {
                present.push(k);
            }
            o.push(g);
        }
        check!(keys == present, "list_keys() = {keys:?} but get_ref finds {present:?}");
        check!(len == present.len(), "len() = {len} with {} keys present", present.len());
        check!(m.f_is_empty() == (len == 0), "is_empty() = {} with len() = {len}", m.f_is_empty());
        check!(m.f_is_full() == (len == cap), "is_full() = {} with len() = {len}, capacity {cap}", m.f_is_full());
        Ok(o)
    }
    fn relocate(&mut self) -> bool {
        self.h.relocate()
    }
    fn fingerprint(&mut self) -> Option<u64> {
        fingerprint(&[self.h.bytes()])
    }
    fn image(&mut self) -> Option<Vec<Vec<u8>>> {
        Some(vec![copy_region(self.h.bytes())?])
    }
    fn adopt(&mut self, images: &[Vec<u8>]) -> bool {
        images.len() == 1 && self.h.overwrite(&images[0])
    }
}

// ------------------------------------------------------------------------------------------------
// String

pub struct StrReal<S: IoxString, H: Holder<S>> {
    h: H,
    _p: PhantomData<S>,
}

fn str_res(r: Result<(), StringModificationError>) -> Outcome {
    match r {
        Ok(()) => out("ok"),
        Err(StringModificationError::InsertWouldExceedCapacity) => out("full"),
        Err(StringModificationError::InvalidCharacter) => out("invalid"),
    }
}
fn bytes(s: &[i64]) -> Vec<u8> {
    s.iter().map(|x| *x as u8).collect()
}

impl<S: IoxString, H: Holder<S>> Real for StrReal<S, H> {
    fn supports(&self, a: &str) -> bool {
        matches!(
            a,
            "push" | "push_bytes" | "insert" | "insert_bytes" | "remove" | "remove_range" | "pop" | "truncate"
                | "strip_prefix" | "strip_suffix" | "find" | "rfind" | "clear"
        )
    }
    fn apply(&mut self, a: &str, i: &[i64], s: &[i64]) -> Outcome {
        let x = self.h.obj();
        match a {
            "push" => str_res(x.push(i[0] as u8)),
            "push_bytes" => str_res(x.push_bytes(&bytes(s))),
            "insert" => str_res(x.insert(i[0] as usize, i[1] as u8)),
            "insert_bytes" => str_res(x.insert_bytes(i[0] as usize, &bytes(s))),
            "remove" => match x.remove(i[0] as usize) {
                Some(c) => out_v("some", vec![c as i64]),
                None => out("none"),
            },
            "remove_range" => out(b(x.remove_range(i[0] as usize, i[1] as usize))),
            "pop" => match x.pop() {
                Some(c) => out_v("some", vec![c as i64]),
                None => out("none"),
            },
            "truncate" => {
                x.truncate(i[0] as usize);
                out("ok")
            }
            "strip_prefix" => out(b(x.strip_prefix(&bytes(s)))),
            "strip_suffix" => out(b(x.strip_suffix(&bytes(s)))),
            "find" => match x.find(&bytes(s)) {
                Some(p) => out_v("some", vec![p as i64]),
                None => out("none"),
            },
            "rfind" => match x.rfind(&bytes(s)) {
                Some(p) => out_v("some", vec![p as i64]),
                None => out("none"),
            },
            "clear" => {
                x.clear();
                out("ok")
            }
            _ => unreachable!("string action {a}"),
        }
    }
    fn observe(&mut self) -> Result<Vec<i64>, String> {
        let x = self.h.obj();
        let (cap, len) = (x.capacity(), x.len());
        check!(x.is_empty() == (len == 0), "is_empty() = {} with len() = {len}", x.is_empty());
        check!(x.is_full() == (len == cap), "is_full() = {} with len() = {len}, capacity() = {cap}", x.is_full());
        let by = x.as_bytes();
        check!(by.len() == len, "as_bytes().len() = {} with len() = {len}", by.len());
        let mut o = vec![cap as i64, len as i64];
        o.extend(by.iter().map(|c| *c as i64));
        let wn = x.as_bytes_with_nul();
        check!(wn.len() == len + 1, "as_bytes_with_nul().len() = {} with len() = {len}", wn.len());
        if wn[len] != 0 {
            let msg = format!("no NUL terminator behind the content: as_bytes_with_nul() = {wn:?}");
            SOFT.with(|s| *s.borrow_mut() = Some(msg));
        }
        Ok(o)
    }
    fn relocate(&mut self) -> bool {
        self.h.relocate()
    }
    fn fingerprint(&mut self) -> Option<u64> {
        fingerprint(&[self.h.bytes()])
    }
    fn image(&mut self) -> Option<Vec<Vec<u8>>> {
        Some(vec![copy_region(self.h.bytes())?])
    }
    fn adopt(&mut self, images: &[Vec<u8>]) -> bool {
        images.len() == 1 && self.h.overwrite(&images[0])
    }
}

// ------------------------------------------------------------------------------------------------
// SemanticString wrapper over StaticString (flavour "semantic" of the string automaton). The wrapper
// documents THAT insertion fails (capacity, illegal characters) but not which error kind is reported:
// an error is labelled by the documented reason that applies to the arguments.

pub struct SemReal<const N: usize, S: SemanticString<N>> {
    s: S,
}

impl<const N: usize, S: SemanticString<N>> SemReal<N, S> {
    fn ins(&mut self, k: usize, bytes: &[u8]) -> Outcome {
        let too_long = self.s.len() + bytes.len() > N;
        match self.s.insert_bytes(k, bytes) {
            Ok(()) => out("ok"),
            Err(_) => out(if too_long { "full" } else { "invalid" }),
        }
    }
}

impl<const N: usize, S: SemanticString<N>> Real for SemReal<N, S> {
    fn supports(&self, a: &str) -> bool {
        matches!(a, "push" | "push_bytes" | "insert" | "insert_bytes" | "remove" | "pop" | "truncate"
            | "strip_prefix" | "strip_suffix" | "find" | "rfind")
    }
    fn apply(&mut self, a: &str, i: &[i64], s: &[i64]) -> Outcome {
        match a {
            "push" => {
                let n = self.s.len();
                self.ins(n, &[i[0] as u8])
            }
            "push_bytes" => {
                let n = self.s.len();
                self.ins(n, &bytes(s))
            }
            "insert" => self.ins(i[0] as usize, &[i[1] as u8]),
            "insert_bytes" => self.ins(i[0] as usize, &bytes(s)),
            "remove" => match self.s.remove(i[0] as usize) {
                Ok(Some(c)) => out_v("some", vec![c as i64]),
                Ok(None) => out("none"),
                Err(_) => out("error"),
            },
            "pop" => match self.s.pop() {
                Ok(Some(c)) => out_v("some", vec![c as i64]),
                Ok(None) => out("none"),
                Err(_) => out("error"),
            },
            "truncate" => match self.s.truncate(i[0] as usize) {
                Ok(()) => out("ok"),
                Err(_) => out("error"),
            },
            "strip_prefix" => match self.s.strip_prefix(&bytes(s)) {
                Ok(x) => out(b(x)),
                Err(_) => out("error"),
            },
            "strip_suffix" => match self.s.strip_suffix(&bytes(s)) {
                Ok(x) => out(b(x)),
                Err(_) => out("error"),
            },
            "find" => match self.s.find(&bytes(s)) {
                Some(p) => out_v("some", vec![p as i64]),
                None => out("none"),
            },
            "rfind" => match self.s.rfind(&bytes(s)) {
                Some(p) => out_v("some", vec![p as i64]),
                None => out("none"),
            },
            _ => unreachable!("semantic string action {a}"),
        }
    }
    fn observe(&mut self) -> Result<Vec<i64>, String> {
        let (cap, len) = (self.s.capacity(), self.s.len());
        check!(self.s.is_empty() == (len == 0), "is_empty() = {} with len() = {len}", self.s.is_empty());
        check!(self.s.is_full() == (len == cap), "is_full() = {} with len() = {len}", self.s.is_full());
        let by = self.s.as_bytes();
        check!(by.len() == len, "as_bytes().len() = {} with len() = {len}", by.len());
        let mut o = vec![cap as i64, len as i64];
        o.extend(by.iter().map(|c| *c as i64));
        Ok(o)
    }
    fn relocate(&mut self) -> bool {
        false
    }
    fn fingerprint(&mut self) -> Option<u64> {
        // a Copy wrapper around a StaticString: its bytes are its whole state
        fingerprint(&[Some((&self.s as *const S as *const u8, core::mem::size_of::<S>()))])
    }
}

// ------------------------------------------------------------------------------------------------
// lock-free index queues (sequential use; CQueue automaton restricted to push/pop resp.
// push_with_overflow/pop; observable part of the state: capacity and length)

pub trait IdxQueueLike {
    const OVERFLOW: bool;
    fn iq_push(&mut self, v: u64) -> Option<u64>; // plain: Some(0) = rejected
    fn iq_push_plain(&mut self, _v: u64) -> bool { unreachable!() }
    fn iq_pop(&mut self) -> Option<u64>;
    fn iq_len(&self) -> usize;
    fn iq_cap(&self) -> usize;
    fn iq_is_empty(&self) -> bool;
    fn iq_is_full(&self) -> bool;
}

macro_rules! idx_plain {
    ([$($g:tt)*], $t:ty) => {
        impl<$($g)*> IdxQueueLike for $t {
            const OVERFLOW: bool = false;
            fn iq_push(&mut self, _v: u64) -> Option<u64> { unreachable!() }
            fn iq_push_plain(&mut self, v: u64) -> bool { unsafe { self.push(v) } }
            fn iq_pop(&mut self) -> Option<u64> { unsafe { self.pop() } }
            fn iq_len(&self) -> usize { self.len() }
            fn iq_cap(&self) -> usize { self.capacity() }
            fn iq_is_empty(&self) -> bool { self.is_empty() }
            fn iq_is_full(&self) -> bool { self.is_full() }
        }
    };
}
macro_rules! idx_over {
    ([$($g:tt)*], $t:ty) => {
        impl<$($g)*> IdxQueueLike for $t {
            const OVERFLOW: bool = true;
            fn iq_push(&mut self, v: u64) -> Option<u64> { unsafe { self.push(v) } }
            fn iq_pop(&mut self) -> Option<u64> { unsafe { self.pop() } }
            fn iq_len(&self) -> usize { self.len() }
            fn iq_cap(&self) -> usize { self.capacity() }
            fn iq_is_empty(&self) -> bool { self.is_empty() }
            fn iq_is_full(&self) -> bool { self.is_full() }
        }
    };
}
idx_plain!([], IndexQueue);
idx_plain!([], RelocatableIndexQueue);
idx_plain!([const N: usize], FixedSizeIndexQueue<N>);
idx_over!([], SafelyOverflowingIndexQueue);
idx_over!([], RelocatableSafelyOverflowingIndexQueue);
idx_over!([const N: usize], FixedSizeSafelyOverflowingIndexQueue<N>);

pub struct IdxQueueReal<Q: IdxQueueLike, H: Holder<Q>> {
    h: H,
    _p: PhantomData<Q>,
}

impl<Q: IdxQueueLike, H: Holder<Q>> Real for IdxQueueReal<Q, H> {
    fn supports(&self, a: &str) -> bool {
        if Q::OVERFLOW { matches!(a, "push_with_overflow" | "pop") } else { matches!(a, "push" | "pop") }
    }
    fn apply(&mut self, a: &str, i: &[i64], _s: &[i64]) -> Outcome {
        let q = self.h.obj();
        match a {
            "push" => out(b(q.iq_push_plain(i[0] as u64))),
            "push_with_overflow" => match q.iq_push(i[0] as u64) {
                Some(e) => out_v("some", vec![e as i64]),
                None => out("none"),
            },
            "pop" => match q.iq_pop() {
                Some(e) => out_v("some", vec![e as i64]),
                None => out("none"),
            },
            _ => unreachable!("index queue action {a}"),
        }
    }
    fn observe(&mut self) -> Result<Vec<i64>, String> {
        let q = self.h.obj();
        let (cap, len) = (q.iq_cap(), q.iq_len());
        check!(q.iq_is_empty() == (len == 0), "is_empty() = {} with len() = {len}", q.iq_is_empty());
        check!(q.iq_is_full() == (len == cap), "is_full() = {} with len() = {len}, capacity() = {cap}", q.iq_is_full());
        Ok(vec![cap as i64, len as i64])
    }
    fn relocate(&mut self) -> bool {
        self.h.relocate()
    }
    fn fingerprint(&mut self) -> Option<u64> {
        fingerprint(&[self.h.bytes()])
    }
    fn image(&mut self) -> Option<Vec<Vec<u8>>> {
        Some(vec![copy_region(self.h.bytes())?])
    }
    fn adopt(&mut self, images: &[Vec<u8>]) -> bool {
        images.len() == 1 && self.h.overwrite(&images[0])
    }
}

// ------------------------------------------------------------------------------------------------
// UniqueIndexSet (sequential use)

pub trait IdxSetLike {
    fn is_acquire(&mut self) -> Result<u32, UniqueIndexSetAcquireFailure>;
    fn is_release(&mut self, i: u32, m: ReleaseMode) -> ReleaseState;
    fn is_cap(&self) -> usize;
    fn is_borrowed(&self) -> usize;
    fn is_locked_(&self) -> bool;
}
impl IdxSetLike for UniqueIndexSet {
    fn is_acquire(&mut self) -> Result<u32, UniqueIndexSetAcquireFailure> { unsafe { self.acquire_raw_index() } }
    fn is_release(&mut self, i: u32, m: ReleaseMode) -> ReleaseState { unsafe { self.release_raw_index(i, m) } }
    fn is_cap(&self) -> usize { self.capacity() as usize }
    fn is_borrowed(&self) -> usize { self.borrowed_indices() }
    fn is_locked_(&self) -> bool { self.is_locked() }
}
impl<const N: usize> IdxSetLike for FixedSizeUniqueIndexSet<N> {
    fn is_acquire(&mut self) -> Result<u32, UniqueIndexSetAcquireFailure> { unsafe { self.acquire_raw_index() } }
    fn is_release(&mut self, i: u32, m: ReleaseMode) -> ReleaseState { unsafe { self.release_raw_index(i, m) } }
    fn is_cap(&self) -> usize { self.capacity() as usize }
    fn is_borrowed(&self) -> usize { self.borrowed_indices() }
    fn is_locked_(&self) -> bool { self.is_locked() }
}

pub struct IdxSetReal<S: IdxSetLike, H: Holder<S>> {
    h: H,
    _p: PhantomData<S>,
}

impl<S: IdxSetLike, H: Holder<S>> Real for IdxSetReal<S, H> {
    fn supports(&self, a: &str) -> bool {
        matches!(a, "acquire" | "release")
    }
    fn apply(&mut self, a: &str, i: &[i64], _s: &[i64]) -> Outcome {
        let x = self.h.obj();
        match a {
            "acquire" => match x.is_acquire() {
                Ok(k) => out_v("ok", vec![k as i64]),
                Err(UniqueIndexSetAcquireFailure::OutOfIndices) => out("out_of_indices"),
                Err(UniqueIndexSetAcquireFailure::IsLocked) => out("locked"),
            },
            "release" => {
                let mode = if i[1] == 1 { ReleaseMode::LockIfLastIndex } else { ReleaseMode::Default };
                match x.is_release(i[0] as u32, mode) {
                    ReleaseState::Locked => out("locked"),
                    ReleaseState::Unlocked => out("unlocked"),
                }
            }
            _ => unreachable!("index set action {a}"),
        }
    }
    fn observe(&mut self) -> Result<Vec<i64>, String> {
        let x = self.h.obj();
        Ok(vec![x.is_cap() as i64, x.is_locked_() as i64, x.is_borrowed() as i64])
    }
    fn relocate(&mut self) -> bool {
        self.h.relocate()
    }
    fn fingerprint(&mut self) -> Option<u64> {
        fingerprint(&[self.h.bytes()])
    }
    fn image(&mut self) -> Option<Vec<Vec<u8>>> {
        Some(vec![copy_region(self.h.bytes())?])
    }
    fn adopt(&mut self, images: &[Vec<u8>]) -> bool {
        images.len() == 1 && self.h.overwrite(&images[0])
    }
}

// ------------------------------------------------------------------------------------------------
// cal shm_allocator::PoolAllocator seen as an index set (bucket index = offset / bucket size)

type ShmPool = iceoryx2_cal::shm_allocator::pool_allocator::PoolAllocator;

pub struct ShmPoolReal {
    h: InBlock<ShmPool>,
    cap: usize,
    n: i64,
}

impl Real for ShmPoolReal {
    fn supports(&self, a: &str) -> bool {
        matches!(a, "acquire" | "release")
    }
    fn supports_edge(&self, a: &str, i: &[i64]) -> bool {
        a != "release" || i[1] == 0 // the allocator has no lock-if-last mode
    }
    fn apply(&mut self, a: &str, i: &[i64], _s: &[i64]) -> Outcome {
        use iceoryx2_bb_elementary_traits::allocator::{Allocate, Deallocate};
        use iceoryx2_cal::shm_allocator::{PointerOffset, ShmAllocator};
        let layout = core::alloc::Layout::from_size_align(16, 16).unwrap();
        let x = Holder::obj(&mut self.h);
        match a {
            "acquire" => match unsafe { x.assume_init() }.allocate(layout) {
                Ok(off) => {
                    self.n += 1;
                    out_v("ok", vec![(off.offset() / 16) as i64])
                }
                Err(_) => out("out_of_indices"),
            },
            "release" => {
                unsafe { x.assume_init().deallocate(PointerOffset::new(i[0] as usize * 16), layout) };
                self.n -= 1;
                out("unlocked")
            }
            _ => unreachable!("shm pool action {a}"),
        }
    }
    fn observe(&mut self) -> Result<Vec<i64>, String> {
        Ok(vec![self.cap as i64, 0, self.n])
    }
    fn relocate(&mut self) -> bool {
        Holder::relocate(&mut self.h)
    }
    fn fingerprint(&mut self) -> Option<u64> {
        fingerprint(&[Holder::bytes(&mut self.h)])
    }
    fn image(&mut self) -> Option<Vec<Vec<u8>>> {
        Some(vec![copy_region(Holder::bytes(&mut self.h))?, self.n.to_le_bytes().to_vec()])
    }
    fn adopt(&mut self, images: &[Vec<u8>]) -> bool {
        if images.len() != 2 || images[1].len() != 8 || !Holder::overwrite(&mut self.h, &images[0]) {
            return false;
        }
        self.n = i64::from_le_bytes(images[1][..8].try_into().unwrap());
        true
    }
}

// ------------------------------------------------------------------------------------------------
// BitSet (sequential use)

pub trait BitSetLike {
    fn bs_set(&mut self, k: usize) -> bool;
    fn bs_reset_next(&mut self) -> Option<usize>;
    fn bs_reset_all(&mut self) -> Vec<i64>;
    fn bs_cap(&self) -> usize;
    const HAS_RESET_NEXT: bool = true;
}
// cal zero_copy_connection UsedChunkList: a bit map of the chunks a receiver owns (insert / remove_all)
type RelUcl = iceoryx2_cal::zero_copy_connection::used_chunk_list::RelocatableUsedChunkList;
type FixUcl<const N: usize> = iceoryx2_cal::zero_copy_connection::used_chunk_list::FixedSizeUsedChunkList<N>;
impl BitSetLike for RelUcl {
    fn bs_set(&mut self, k: usize) -> bool { self.insert(k) }
    fn bs_reset_next(&mut self) -> Option<usize> { None }
    fn bs_reset_all(&mut self) -> Vec<i64> {
        let mut v = vec![];
        self.remove_all(|k| v.push(k as i64));
        v
    }
    fn bs_cap(&self) -> usize { self.capacity() }
    const HAS_RESET_NEXT: bool = false;
}
impl<const N: usize> BitSetLike for FixUcl<N> {
    fn bs_set(&mut self, k: usize) -> bool { self.insert(k) }
    fn bs_reset_next(&mut self) -> Option<usize> { None }
    fn bs_reset_all(&mut self) -> Vec<i64> {
        let mut v = vec![];
        self.remove_all(|k| v.push(k as i64));
        v
    }
    fn bs_cap(&self) -> usize { self.capacity() }
    const HAS_RESET_NEXT: bool = false;
}
macro_rules! bitset_like {
    ([$($g:tt)*], $t:ty) => {
        impl<$($g)*> BitSetLike for $t {
            fn bs_set(&mut self, k: usize) -> bool { self.set(k) }
            fn bs_reset_next(&mut self) -> Option<usize> { self.reset_next() }
            fn bs_reset_all(&mut self) -> Vec<i64> {
                let mut v = vec![];
                self.reset_all(|k| v.push(k as i64));
                v
            }
            fn bs_cap(&self) -> usize { self.capacity() }
        }
    };
}
bitset_like!([], BitSet);
bitset_like!([], RelocatableBitSet);
bitset_like!([const N: usize], FixedSizeBitSet<N>);

pub struct BitSetReal<S: BitSetLike, H: Holder<S>> {
    h: H,
    _p: PhantomData<S>,
}

impl<S: BitSetLike, H: Holder<S>> Real for BitSetReal<S, H> {
    fn supports(&self, a: &str) -> bool {
        matches!(a, "set" | "reset_all") || (a == "reset_next" && S::HAS_RESET_NEXT)
    }
    fn apply(&mut self, a: &str, i: &[i64], _s: &[i64]) -> Outcome {
        let x = self.h.obj();
        match a {
            "set" => out(b(x.bs_set(i[0] as usize))),
            "reset_next" => match x.bs_reset_next() {
                Some(k) => out_v("some", vec![k as i64]),
                None => out("none"),
            },
            "reset_all" => {
                let mut v = x.bs_reset_all();
                let n = v.len();
                v.sort();
                v.dedup();
                if v.len() != n {
                    return out("duplicate-report");
                }
                out_v("ok", v)
            }
            _ => unreachable!("bitset action {a}"),
        }
    }
    fn observe(&mut self) -> Result<Vec<i64>, String> {
        Ok(vec![self.h.obj().bs_cap() as i64])
    }
    fn relocate(&mut self) -> bool {
        self.h.relocate()
    }
    fn fingerprint(&mut self) -> Option<u64> {
        fingerprint(&[self.h.bytes()])
    }
    fn image(&mut self) -> Option<Vec<Vec<u8>>> {
        Some(vec![copy_region(self.h.bytes())?])
    }
    fn adopt(&mut self, images: &[Vec<u8>]) -> bool {
        images.len() == 1 && self.h.overwrite(&images[0])
    }
}

// ------------------------------------------------------------------------------------------------
// construction

/// The heap allocator of /repo with every allocation filled with 0xA5: what a recycled bucket of a
/// pool allocator looks like. Makes reads of never-written bytes deterministic.
#[derive(Debug)]
pub struct PoisonHeap;
static POISON_HEAP: PoisonHeap = PoisonHeap;

impl Allocate<NonNull<u8>> for PoisonHeap {
    fn allocate(&self, layout: core::alloc::Layout) -> Result<NonNull<u8>, AllocationError> {
        let p = HeapAllocator::global().allocate(layout)?;
        unsafe { core::ptr::write_bytes(p.as_ptr(), 0xA5, layout.size()) };
        Ok(p)
    }
}
impl Deallocate<NonNull<u8>> for PoisonHeap {
    unsafe fn deallocate(&self, ptr: NonNull<u8>, layout: core::alloc::Layout) {
        unsafe { HeapAllocator::global().deallocate(ptr, layout) }
    }
}

fn heap() -> &'static PoisonHeap {
    &POISON_HEAP
}

thread_local! {
    /// a defect observed by `observe` that does not prevent the walk from continuing
    pub static SOFT: std::cell::RefCell<Option<String>> = const { std::cell::RefCell::new(None) };
}

/// dispatch over the const-generic capacity
macro_rules! by_cap {
    ($cap:expr, $m:ident) => {
        match $cap {
            0 => $m!(0),
            1 => $m!(1),
            2 => $m!(2),
            3 => $m!(3),
            4 => $m!(4),
            9 => $m!(9),
            c => return Err(format!("no inline instance for capacity {c}")),
        }
    };
}

fn boxed<R: Real + 'static>(r: R) -> Result<Box<dyn Real>, String> {
    Ok(Box::new(r))
}

fn make_inner(kind: &str, flavour: &str, cap: usize, in_block: bool) -> Result<Box<dyn Real>, String> {
    macro_rules! hold {
        // a self-contained value: plain or moved into a block
        ($ctor:ident, $val:expr) => {
            if in_block { boxed($ctor { h: InBlock::new_inline($val), _p: PhantomData }) } else { boxed($ctor { h: OwnInline($val), _p: PhantomData }) }
        };
    }
    match (kind, flavour) {
        ("vec", "heap") => {
            let v = PolymorphicVec::<Tok, PoisonHeap>::new(heap(), cap).map_err(|e| format!("{e:?}"))?;
            boxed(VecReal { h: Own(v), _p: PhantomData })
        }
        ("vec", "inline") => {
            macro_rules! m { ($n:literal) => { hold!(VecReal, StaticVec::<Tok, $n>::new()) }; }
            by_cap!(cap, m)
        }
        ("vec", "reloc") => boxed(VecReal { h: InBlock::<RelocatableVec<Tok>>::new_relocatable(cap)?, _p: PhantomData }),

        ("queue", "heap") => boxed(QueueReal { t: Own(Queue::<Tok>::new(cap)), c: Own(Queue::<u32>::new(cap)), _p: PhantomData }),
        ("queue", "inline") => {
            macro_rules! m { ($n:literal) => {
                if in_block {
                    boxed(QueueReal { t: InBlock::new_inline(FixedSizeQueue::<Tok, $n>::new()), c: InBlock::new_inline(FixedSizeQueue::<u32, $n>::new()), _p: PhantomData })
                } else {
                    boxed(QueueReal { t: OwnInline(FixedSizeQueue::<Tok, $n>::new()), c: OwnInline(FixedSizeQueue::<u32, $n>::new()), _p: PhantomData })
                }
            }; }
            by_cap!(cap, m)
        }
        ("queue", "reloc") => boxed(QueueReal {
            t: InBlock::<RelocatableQueue<Tok>>::new_relocatable(cap)?,
            c: InBlock::<RelocatableQueue<u32>>::new_relocatable(cap)?,
            _p: PhantomData,
        }),

        ("slotmap", "heap") => boxed(SlotReal { h: Own(SlotMap::<Tok>::new(cap)), _p: PhantomData }),
        ("slotmap", "inline") => {
            macro_rules! m { ($n:literal) => { hold!(SlotReal, FixedSizeSlotMap::<Tok, $n>::new()) }; }
            by_cap!(cap, m)
        }
        ("slotmap", "reloc") => boxed(SlotReal { h: InBlock::<RelocatableSlotMap<Tok>>::new_relocatable(cap)?, _p: PhantomData }),

        ("flatmap", "heap") => boxed(FlatReal { h: Own(FlatMap::<u8, Tok>::new(cap)), cap, _p: PhantomData }),
        ("flatmap", "inline") => {
            macro_rules! m { ($n:literal) => {
                if in_block { boxed(FlatReal { h: InBlock::new_inline(FixedSizeFlatMap::<u8, Tok, $n>::new()), cap, _p: PhantomData }) }
                else { boxed(FlatReal { h: OwnInline(FixedSizeFlatMap::<u8, Tok, $n>::new()), cap, _p: PhantomData }) }
            }; }
            by_cap!(cap, m)
        }
        ("flatmap", "reloc") => boxed(FlatReal { h: InBlock::<RelocatableFlatMap<u8, Tok>>::new_relocatable(cap)?, cap, _p: PhantomData }),

        ("string", "heap") => {
            let s = PolymorphicString::<PoisonHeap>::new(heap(), cap).map_err(|e| format!("{e:?}"))?;
            boxed(StrReal { h: Own(s), _p: PhantomData })
        }
        ("string", "inline") => {
            macro_rules! m { ($n:literal) => { hold!(StrReal, StaticString::<$n>::new()) }; }
            by_cap!(cap, m)
        }
        ("string", "semantic") => match cap {
            1 => boxed(SemReal::<1, _> { s: crate::semstr::c1::Sem::new(b"").map_err(|e| format!("{e:?}"))? }),
            2 => boxed(SemReal::<2, _> { s: crate::semstr::c2::Sem::new(b"").map_err(|e| format!("{e:?}"))? }),
            3 => boxed(SemReal::<3, _> { s: crate::semstr::c3::Sem::new(b"").map_err(|e| format!("{e:?}"))? }),
            4 => boxed(SemReal::<4, _> { s: crate::semstr::c4::Sem::new(b"").map_err(|e| format!("{e:?}"))? }),
            c => Err(format!("no semantic string instance for capacity {c}")),
        },
        ("string", "reloc") => boxed(StrReal { h: InBlock::<RelocatableString>::new_relocatable(cap)?, _p: PhantomData }),

        ("indexqueue", "heap") => boxed(IdxQueueReal { h: Own(IndexQueue::new(cap)), _p: PhantomData }),
        ("indexqueue", "inline") => {
            macro_rules! m { ($n:literal) => { hold!(IdxQueueReal, FixedSizeIndexQueue::<$n>::new()) }; }
            by_cap!(cap, m)
        }
        ("indexqueue", "reloc") => boxed(IdxQueueReal { h: InBlock::<RelocatableIndexQueue>::new_relocatable(cap)?, _p: PhantomData }),

        ("oindexqueue", "heap") => boxed(IdxQueueReal { h: Own(SafelyOverflowingIndexQueue::new(cap)), _p: PhantomData }),
        ("oindexqueue", "inline") => {
            macro_rules! m { ($n:literal) => { hold!(IdxQueueReal, FixedSizeSafelyOverflowingIndexQueue::<$n>::new()) }; }
            by_cap!(cap, m)
        }
        ("oindexqueue", "reloc") => boxed(IdxQueueReal { h: InBlock::<RelocatableSafelyOverflowingIndexQueue>::new_relocatable(cap)?, _p: PhantomData }),

        ("indexset", "inline") => {
            macro_rules! m { ($n:literal) => { hold!(IdxSetReal, FixedSizeUniqueIndexSet::<$n>::new()) }; }
            by_cap!(cap, m)
        }
        ("indexset", "shmpool") => boxed(ShmPoolReal { h: InBlock::<ShmPool>::new_shmpool(cap)?, cap, n: 0 }),
        ("indexset", "reloc") => boxed(IdxSetReal { h: InBlock::<UniqueIndexSet>::new_relocatable(cap)?, _p: PhantomData }),

        ("bitset", "heap") => boxed(BitSetReal { h: Own(BitSet::new(cap)), _p: PhantomData }),
        ("bitset", "inline") => {
            macro_rules! m { ($n:literal) => { hold!(BitSetReal, FixedSizeBitSet::<$n>::new()) }; }
            by_cap!(cap, m)
        }
        ("bitset", "reloc") => boxed(BitSetReal { h: InBlock::<RelocatableBitSet>::new_relocatable(cap)?, _p: PhantomData }),
        ("bitset", "ucl") => boxed(BitSetReal { h: InBlock::<RelUcl>::new_relocatable(cap)?, _p: PhantomData }),
        ("bitset", "uclinline") => {
            macro_rules! m { ($n:literal) => { hold!(BitSetReal, FixUcl::<$n>::new()) }; }
            by_cap!(cap, m)
        }

        _ => Err(format!("no such container: {kind}/{flavour}")),
    }
}

/// Err = this flavour cannot be constructed with this capacity (not an operation of the property)
pub fn make(kind: &str, flavour: &str, cap: usize, in_block: bool) -> Result<Box<dyn Real>, String> {
    match std::panic::catch_unwind(|| make_inner(kind, flavour, cap, in_block)) {
        Ok(r) => r,
        Err(e) => Err(format!("constructor panicked: {}", crate::panic_text(&e))),
    }
}
