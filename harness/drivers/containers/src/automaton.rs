//! The bounded state graph of a TLA+ container specification, as dumped by TLC (one JSON line per
//! edge, printed from an action constraint) and converted by checks/C16.py.
//!
//!   states[i].ov   observable vector of the projected abstract state (what `Real::observe` returns)
//!   states[i].o    the spec's `Obs` record (JSON), copied into recorded traces
//!   edges          from, to, label (a, i, s), result (r, v), net drops d, core flag
//! The graph may be nondeterministic (several edges with the same label): the walker selects the
//! successor by the observed result and observation.

use serde_json::Value;
use std::collections::HashMap;

pub struct State {
    pub ov: Vec<i64>,
    pub o: Value,
}

pub struct Edge {
    pub from: usize,
    pub to: usize,
    pub a: String,
    pub i: Vec<i64>,
    pub s: Vec<i64>,
    pub r: String,
    pub v: Vec<i64>,
    pub d: Vec<i64>,
    pub core: bool,
}

/// all edges of one state that carry the same label
pub struct Group {
    pub edges: Vec<usize>,
    pub core: bool,
}

pub struct Automaton {
    pub kind: String,
    pub states: Vec<State>,
    pub edges: Vec<Edge>,
    pub init: HashMap<i64, Vec<usize>>,
    pub out: Vec<Vec<Group>>,
}

fn ints(v: &Value) -> Vec<i64> {
    v.as_array().map(|a| a.iter().map(|x| x.as_i64().expect("int")).collect()).unwrap_or_default()
}

impl Automaton {
    pub fn load(path: &str) -> Automaton {
        let text = std::fs::read_to_string(path).unwrap_or_else(|e| panic!("cannot read {path}: {e}"));
        let j: Value = serde_json::from_str(&text).expect("automaton json");
        let states: Vec<State> = j["states"]
            .as_array()
            .unwrap()
            .iter()
            .map(|s| State { ov: ints(&s["ov"]), o: s["o"].clone() })
            .collect();
        let edges: Vec<Edge> = j["edges"]
            .as_array()
            .unwrap()
            .iter()
            .map(|e| Edge {
                from: e[0].as_u64().unwrap() as usize,
                to: e[1].as_u64().unwrap() as usize,
                a: e[2].as_str().unwrap().to_string(),
                i: ints(&e[3]),
                s: ints(&e[4]),
                r: e[5].as_str().unwrap().to_string(),
                v: ints(&e[6]),
                d: ints(&e[7]),
                core: e[8].as_bool().unwrap(),
            })
            .collect();
        let mut init = HashMap::new();
        for (k, v) in j["init"].as_object().unwrap() {
            init.insert(k.parse::<i64>().unwrap(), v.as_array().unwrap().iter().map(|x| x.as_u64().unwrap() as usize).collect());
        }
        let mut out: Vec<Vec<Group>> = (0..states.len()).map(|_| Vec::new()).collect();
        let mut index: HashMap<(usize, String, Vec<i64>, Vec<i64>), usize> = HashMap::new();
        for (n, e) in edges.iter().enumerate() {
            let key = (e.from, e.a.clone(), e.i.clone(), e.s.clone());
            let g = *index.entry(key).or_insert_with(|| {
                out[e.from].push(Group { edges: vec![], core: false });
                out[e.from].len() - 1
            });
            out[e.from][g].edges.push(n);
            out[e.from][g].core |= e.core;
        }
        Automaton { kind: j["kind"].as_str().unwrap().to_string(), states, edges, init, out }
    }

    pub fn label(&self, g: &Group) -> &Edge {
        &self.edges[g.edges[0]]
    }
}
