//! The executable blackboard world: real nodes, port factories, writers, readers and entry handles
//! of ONE blackboard service (key type u64, keys 1..nkeys, value type chosen by the key so that
//! entries of 4, 8 and 72 bytes are exercised), driven by a program.
//!
//! Every value written is `make(key, version)` - a self-checking payload; every value read is decoded
//! into (key, version, whole?) and logged.

use std::collections::BTreeMap;

use iceoryx2::port::reader::{EntryHandle, Reader};
use iceoryx2::port::writer::{EntryHandleMut, EntryValueUninit, Writer};
use iceoryx2::prelude::*;
use iceoryx2::service::port_factory::blackboard::PortFactory as BbFactory;
use vlib::trace::TraceWriter;
use vlib::{Value, json};

use crate::{Summary, bad_program, guarded, num};

fn mix(k: u64, v: u64, i: u64) -> u64 {
    let mut z = (k << 48) ^ (v << 8) ^ i ^ 0x9E37_79B9_7F4A_7C15;
    z = (z ^ (z >> 30)).wrapping_mul(0xBF58_476D_1CE4_E5B9);
    z = (z ^ (z >> 27)).wrapping_mul(0x94D0_49BB_1331_11EB);
    z ^ (z >> 31)
}

pub trait Val: Copy + ZeroCopySend + core::fmt::Debug + 'static {
    fn make(k: u64, v: u64) -> Self;
    /// (key, version, every byte is the one `make(key, version)` produces)
    fn decode(&self) -> (u64, u64, bool);
}

impl Val for u32 {
    fn make(k: u64, v: u64) -> Self {
        (((k & 0xf) << 28) | ((v & 0xfff) << 16) | (mix(k, v, 0) & 0xffff)) as u32
    }
    fn decode(&self) -> (u64, u64, bool) {
        let x = *self as u64;
        let (k, v) = (x >> 28, (x >> 16) & 0xfff);
        (k, v, <u32 as Val>::make(k, v) == *self)
    }
}

impl Val for u64 {
    fn make(k: u64, v: u64) -> Self {
        ((k & 0xff) << 56) | ((v & 0xff_ffff) << 32) | (mix(k, v, 0) & 0xffff_ffff)
    }
    fn decode(&self) -> (u64, u64, bool) {
        let (k, v) = (*self >> 56, (*self >> 32) & 0xff_ffff);
        (k, v, <u64 as Val>::make(k, v) == *self)
    }
}

pub type Big = [u64; 9];
impl Val for Big {
    fn make(k: u64, v: u64) -> Self {
        let mut w = [0u64; 9];
        w[0] = (k << 32) | (v & 0xffff_ffff);
        for (i, x) in w.iter_mut().enumerate().skip(1) {
            *x = mix(k, v, i as u64);
        }
        w
    }
    fn decode(&self) -> (u64, u64, bool) {
        let (k, v) = (self[0] >> 32, self[0] & 0xffff_ffff);
        (k, v, <Big as Val>::make(k, v) == *self)
    }
}

/// only requested as the WRONG value type of an entry
impl Val for u16 {
    fn make(_k: u64, _v: u64) -> Self {
        0
    }
    fn decode(&self) -> (u64, u64, bool) {
        (0, 0, false)
    }
}

trait WHandle {
    fn update(&mut self, k: u64, v: u64) -> bool;
    fn loan(&mut self) -> bool;
    fn loan_write(&mut self, k: u64, v: u64) -> bool;
    fn commit(&mut self) -> bool;
    fn commit_copy(&mut self, k: u64, v: u64) -> bool;
    fn discard(&mut self) -> bool;
}

struct WH<S: Service, T: Val> {
    h: Option<EntryHandleMut<S, u64, T>>,
    l: Option<EntryValueUninit<S, u64, T>>,
}

impl<S: Service, T: Val> WHandle for WH<S, T> {
    fn update(&mut self, k: u64, v: u64) -> bool {
        match &self.h {
            Some(h) => {
                h.update_with_copy(T::make(k, v));
                true
            }
            None => false,
        }
    }
    fn loan(&mut self) -> bool {
        match self.h.take() {
            Some(h) => {
                self.l = Some(h.loan_uninit());
                true
            }
            None => false,
        }
    }
    fn loan_write(&mut self, k: u64, v: u64) -> bool {
        match &mut self.l {
            Some(l) => {
                l.value_mut().write(T::make(k, v));
                true
            }
            None => false,
        }
    }
    fn commit(&mut self) -> bool {
        match self.l.take() {
            Some(l) => {
                self.h = Some(unsafe { l.assume_init_and_update() });
                true
            }
            None => false,
        }
    }
    fn commit_copy(&mut self, k: u64, v: u64) -> bool {
        match self.l.take() {
            Some(l) => {
                self.h = Some(l.update_with_copy(T::make(k, v)));
                true
            }
            None => false,
        }
    }
    fn discard(&mut self) -> bool {
        match self.l.take() {
            Some(l) => {
                self.h = Some(l.discard());
                true
            }
            None => false,
        }
    }
}

trait RHandle {
    fn get(&self) -> (u64, u64, bool);
}
struct RH<S: Service, T: Val>(EntryHandle<S, u64, T>);
impl<S: Service, T: Val> RHandle for RH<S, T> {
    fn get(&self) -> (u64, u64, bool) {
        (*self.0.get()).decode()
    }
}

fn wentry<S: Service + 'static>(w: &Writer<S, u64>, k: u64, wrong: bool) -> Result<Box<dyn WHandle>, String> {
    fn bx<S: Service + 'static, T: Val>(h: EntryHandleMut<S, u64, T>) -> Box<dyn WHandle> {
        Box::new(WH::<S, T> { h: Some(h), l: None })
    }
    let e = |e| format!("{e:?}");
    if wrong {
        return w.entry::<u16>(&k).map(bx).map_err(e);
    }
    match k % 3 {
        0 => w.entry::<u32>(&k).map(bx).map_err(e),
        1 => w.entry::<u64>(&k).map(bx).map_err(e),
        _ => w.entry::<Big>(&k).map(bx).map_err(e),
    }
}

fn rentry<S: Service + 'static>(r: &Reader<S, u64>, k: u64, wrong: bool) -> Result<Box<dyn RHandle>, String> {
    fn bx<S: Service + 'static, T: Val>(h: EntryHandle<S, u64, T>) -> Box<dyn RHandle> {
        Box::new(RH::<S, T>(h))
    }
    let e = |e| format!("{e:?}");
    if wrong {
        return r.entry::<u16>(&k).map(bx).map_err(e);
    }
    match k % 3 {
        0 => r.entry::<u32>(&k).map(bx).map_err(e),
        1 => r.entry::<u64>(&k).map(bx).map_err(e),
        _ => r.entry::<Big>(&k).map(bx).map_err(e),
    }
}

struct World<S: Service + 'static> {
    // declaration order = drop order: handles, ports, factories, nodes
    extras: Vec<Box<dyn WHandle>>,
    whandles: BTreeMap<(u64, u64), Box<dyn WHandle>>,
    rhandles: BTreeMap<(u64, u64), Box<dyn RHandle>>,
    writers: BTreeMap<u64, Writer<S, u64>>,
    readers: BTreeMap<u64, Reader<S, u64>>,
    facts: BTreeMap<u64, BbFactory<S, u64>>,
    nodes: BTreeMap<u64, Node<S>>,
    nextv: BTreeMap<u64, u64>,
}

impl<S: Service + 'static> World<S> {
    fn counts(&self) -> (u64, u64, u64) {
        match self.facts.get(&1) {
            Some(f) => {
                let mut nn = 0;
                let _ = f.nodes(|_| {
                    nn += 1;
                    CallbackProgression::Continue
                });
                (
                    f.dynamic_config().number_of_writers() as u64,
                    f.dynamic_config().number_of_readers() as u64,
                    nn,
                )
            }
            None => (99, 99, 99),
        }
    }
    fn next_version(&mut self, k: u64) -> u64 {
        let e = self.nextv.entry(k).or_insert(0);
        *e += 1;
        *e
    }
}

fn flat<T>(r: Result<Result<T, String>, String>) -> Result<T, String> {
    match r {
        Ok(x) => x,
        Err(p) => Err(p),
    }
}

pub fn run_job<S: Service + 'static>(config: &Config, name: &str, job: &Value, tw: &mut TraceWriter, summary: &mut Summary) {
    let cfg = &job["cfg"];
    let (nkeys, rreq, nreq) = (num(cfg, "nkeys"), num(cfg, "rreq"), num(cfg, "nreq"));
    let variant = job["variant"].as_str().unwrap_or("ipc");
    let sname = ServiceName::new(name).expect("service name");
    let mut w = World::<S> {
        extras: Vec::new(),
        whandles: BTreeMap::new(),
        rhandles: BTreeMap::new(),
        writers: BTreeMap::new(),
        readers: BTreeMap::new(),
        facts: BTreeMap::new(),
        nodes: BTreeMap::new(),
        nextv: BTreeMap::new(),
    };
    let node1 = NodeBuilder::new().config(config).create::<S>().expect("node 1");
    let created = flat(guarded(|| {
        let mut b = node1
            .service_builder(&sname)
            .blackboard_creator::<u64>()
            .max_readers(rreq as usize)
            .max_nodes(nreq as usize);
        for k in 1..=nkeys {
            b = match k % 3 {
                0 => b.add::<u32>(k, <u32 as Val>::make(k, 0)),
                1 => b.add::<u64>(k, <u64 as Val>::make(k, 0)),
                _ => b.add::<Big>(k, <Big as Val>::make(k, 0)),
            };
        }
        b.create().map_err(|e| format!("{e:?}"))
    }));
    w.nodes.insert(1, node1);
    let (cres, reff, neff) = match created {
        Ok(f) => {
            let r = (f.static_config().max_readers() as u64, f.static_config().max_nodes() as u64);
            w.facts.insert(1, f);
            ("ok".to_string(), r.0, r.1)
        }
        Err(e) => (e, 0, 0),
    };
    let (nw, nr, nn) = w.counts();
    tw.emit(&json!({"k": "reset", "pat": "bb", "variant": variant, "svc": name, "nkeys": nkeys, "rreq": rreq,
                    "nreq": nreq, "cres": cres, "reff": reff, "neff": neff, "nw": nw, "nr": nr, "nn": nn}));
    summary.count("create", &cres);
    if cres != "ok" {
        return;
    }
    let empty = Vec::new();
    // a step the world cannot execute (the real API deviated from what the program was written for, or
    // the program is wrong) ends the program: the recorded prefix is judged, the truncation is reported
    let mut trunc: Option<String> = None;
    let mut done = 0u64;
    'prog: for step in job["program"].as_array().unwrap_or(&empty) {
        let a = step["a"].as_str().unwrap_or("");
        let (o, n, key, x, y) = (num(step, "o"), num(step, "n"), num(step, "key"), num(step, "x"), num(step, "y"));
        let mut res = "ok".to_string();
        let (mut v, mut kk, mut whole) = (0u64, 0u64, 1u64);
        match a {
            "open" => {
                if w.facts.contains_key(&n) {
                    trunc = Some("node has the service open".to_string());
                    break 'prog;
                }
                if !w.nodes.contains_key(&n) {
                    w.nodes.insert(n, NodeBuilder::new().config(config).create::<S>().expect("node"));
                }
                let node = &w.nodes[&n];
                let r = flat(guarded(|| {
                    let mut b = node.service_builder(&sname).blackboard_opener::<u64>();
                    if x > 0 {
                        b = b.max_readers(x as usize);
                    }
                    if y > 0 {
                        b = b.max_nodes(y as usize);
                    }
                    b.open().map_err(|e| format!("{e:?}"))
                }));
                match r {
                    Ok(f) => {
                        w.facts.insert(n, f);
                    }
                    Err(e) => res = e,
                }
            }
            "close" => {
                if n == 1 || w.facts.remove(&n).is_none() {
                    trunc = Some("close".to_string());
                    break 'prog;
                }
            }
            "cw" => {
                if w.writers.contains_key(&o) || !w.facts.contains_key(&n) {
                    trunc = Some("cw".to_string());
                    break 'prog;
                }
                let f = &w.facts[&n];
                match flat(guarded(|| f.writer_builder().create().map_err(|e| format!("{e:?}")))) {
                    Ok(p) => {
                        w.writers.insert(o, p);
                    }
                    Err(e) => res = e,
                }
            }
            "dw" => {
                let Some(p) = w.writers.remove(&o) else {
                    trunc = Some("dw".to_string());
                    break 'prog;
                };
                if let Err(e) = guarded(move || drop(p)) {
                    res = e;
                }
            }
            "we" => {
                let Some(p) = w.writers.get(&o) else {
                    trunc = Some("we".to_string());
                    break 'prog;
                };
                match flat(guarded(|| wentry(p, key, x != 0))) {
                    Ok(h) => {
                        // a handle granted although the slot (writer, key) already holds one is kept alive
                        if w.whandles.contains_key(&(o, key)) {
                            w.extras.push(h);
                        } else {
                            w.whandles.insert((o, key), h);
                        }
                    }
                    Err(e) => res = e,
                }
            }
            "wd" => {
                let Some(h) = w.whandles.remove(&(o, key)) else {
                    trunc = Some("wd".to_string());
                    break 'prog;
                };
                if let Err(e) = guarded(move || drop(h)) {
                    res = e;
                }
            }
            "upd" | "lw" | "ccopy" => {
                v = w.next_version(key);
                let Some(h) = w.whandles.get_mut(&(o, key)) else {
                    trunc = Some("no handle".to_string());
                    break 'prog;
                };
                let r = guarded(|| match a {
                    "upd" => h.update(key, v),
                    "lw" => h.loan_write(key, v),
                    _ => h.commit_copy(key, v),
                });
                match r {
                    Ok(true) => {}
                    Ok(false) => {
                        trunc = Some("handle state".to_string());
                        break 'prog;
                    }
                    Err(e) => res = e,
                }
            }
            "loan" | "commit" | "disc" => {
                let Some(h) = w.whandles.get_mut(&(o, key)) else {
                    trunc = Some("no handle".to_string());
                    break 'prog;
                };
                let r = guarded(|| match a {
                    "loan" => h.loan(),
                    "commit" => h.commit(),
                    _ => h.discard(),
                });
                match r {
                    Ok(true) => {}
                    Ok(false) => {
                        trunc = Some("handle state".to_string());
                        break 'prog;
                    }
                    Err(e) => res = e,
                }
            }
            "cr" => {
                if w.readers.contains_key(&o) || !w.facts.contains_key(&n) {
                    trunc = Some("cr".to_string());
                    break 'prog;
                }
                let f = &w.facts[&n];
                match flat(guarded(|| f.reader_builder().create().map_err(|e| format!("{e:?}")))) {
                    Ok(p) => {
                        w.readers.insert(o, p);
                    }
                    Err(e) => res = e,
                }
            }
            "dr" => {
                let Some(p) = w.readers.remove(&o) else {
                    trunc = Some("dr".to_string());
                    break 'prog;
                };
                if let Err(e) = guarded(move || drop(p)) {
                    res = e;
                }
            }
            "re" => {
                if w.rhandles.contains_key(&(o, key)) {
                    trunc = Some("re".to_string());
                    break 'prog;
                }
                let Some(p) = w.readers.get(&o) else {
                    trunc = Some("re".to_string());
                    break 'prog;
                };
                match flat(guarded(|| rentry(p, key, x != 0))) {
                    Ok(h) => {
                        w.rhandles.insert((o, key), h);
                    }
                    Err(e) => res = e,
                }
            }
            "rd" => {
                let Some(h) = w.rhandles.remove(&(o, key)) else {
                    trunc = Some("rd".to_string());
                    break 'prog;
                };
                if let Err(e) = guarded(move || drop(h)) {
                    res = e;
                }
            }
            "get" => {
                let Some(h) = w.rhandles.get(&(o, key)) else {
                    trunc = Some("get".to_string());
                    break 'prog;
                };
                match guarded(|| h.get()) {
                    Ok((k2, v2, ok)) => {
                        kk = k2.min(1 << 30);
                        v = v2.min(1 << 30);
                        whole = ok as u64;
                    }
                    Err(e) => res = e,
                }
            }
            _ => bad_program("unknown action", step),
        }
        let (nw, nr, nn) = w.counts();
        tw.emit(&json!({"k": "op", "a": a, "o": o, "n": n, "key": key, "x": x, "y": y, "res": res, "v": v,
                        "kk": kk, "whole": whole, "nw": nw, "nr": nr, "nn": nn}));
        summary.count(a, &res);
        done += 1;
        tw.flush(); // a later abort of the code under test must not lose what was observed
    }
    if trunc.is_some() {
        summary.truncated += 1;
    }
    tw.emit(&json!({"k": "end", "trunc": trunc.is_some() as u64, "why": trunc.unwrap_or_default(), "done": done}));
    // orderly shutdown in a fixed order (handles, ports, factories of the openers, creator, nodes)
    let World { extras, whandles, rhandles, writers, readers, mut facts, nodes, .. } = w;
    drop(extras);
    drop(whandles);
    drop(rhandles);
    drop(writers);
    drop(readers);
    let creator = facts.remove(&1);
    drop(facts);
    drop(creator);
    drop(nodes);
}
