//! The executable blackboard world: real nodes, port factories, writers, readers and entry handles
//! of ONE blackboard service (key type u64, keys 1..nkeys, value type chosen by the key so that
//! entries of 4, 8 and 72 bytes are exercised), driven by a program.
//!
//! Every value written is `make(key, version)` - a self-checking payload; every value read is decoded
//! into (key, version, whole?) and logged.
//!
//! TWO FRONT ENDS execute the same abstract operations (the world only sees the traits `Fact`,
//! `WPort`, `RPort`, `WHandle`, `RHandle`):
//!   * typed      - `blackboard_creator::<u64>()`, `Writer::entry::<T>()`, `EntryHandleMut`,
//!                  `EntryValueUninit`, `Reader::entry::<T>()`, `EntryHandle::get()`;
//!   * custom key - the type-erased path of the C / C++ / Python bindings:
//!                  `blackboard_creator::<CustomKeyMarker>()` + `__internal_set_key_type_details` +
//!                  `__internal_set_key_eq_cmp_func` + `__internal_add`, `Writer::__internal_entry`,
//!                  `__InternalEntryHandleMut` (`__internal_get_ptr_to_write_cell` /
//!                  `__internal_update_write_cell`, `loan_uninit`), `__InternalEntryValueUninit`
//!                  (`write_cell`, `update`, `discard`), `Reader::__internal_entry`,
//!                  `__InternalEntryHandle::get`.
//! The front end is chosen PER NODE by the variant of the job (`ipc` / `local`: typed everywhere,
//! `-ck`: custom key everywhere, `-mx`: creator typed and every opener custom key, `-xm`: creator
//! custom key and every opener typed), so typed writers meet custom-key readers of the same service
//! and vice versa.  Key type details and value type details of the custom path are those of the
//! typed path (u64 keys; u32 / u64 / [u64; 9] values).

use std::collections::BTreeMap;

use iceoryx2::constants::MAX_BLACKBOARD_KEY_SIZE;
use iceoryx2::port::reader::{__InternalEntryHandle, EntryHandle, Reader};
use iceoryx2::port::writer::{
    __InternalEntryHandleMut, __InternalEntryValueUninit, EntryHandleMut, EntryValueUninit, Writer,
};
use iceoryx2::prelude::*;
use iceoryx2::service::marker::CustomKeyMarker;
use iceoryx2::service::port_factory::blackboard::PortFactory as BbFactory;
use iceoryx2::service::resource::blackboard::KeyMemory;
use iceoryx2::service::static_config::message_type_details::{TypeDetail, TypeVariant};
use vlib::trace::TraceWriter;
use vlib::{Value, json};

use crate::{Summary, bad_program, guarded, num};

fn mix(k: u64, v: u64, i: u64) -> u64 {
    let mut z = (k << 48) ^ (v << 8) ^ i ^ 0x9E37_79B9_7F4A_7C15;
    z = (z ^ (z >> 30)).wrapping_mul(0xBF58_476D_1CE4_E5B9);
    z = (z ^ (z >> 27)).wrapping_mul(0x94D0_49BB_1331_11EB);
    z ^ (z >> 31)
}

pub trait Val: Copy + ZeroCopySend + core::fmt::Debug + 'static {
    fn make(k: u64, v: u64) -> Self;
    /// (key, version, every byte is the one `make(key, version)` produces)
    fn decode(&self) -> (u64, u64, bool);
}

impl Val for u32 {
    fn make(k: u64, v: u64) -> Self {
        (((k & 0xf) << 28) | ((v & 0xfff) << 16) | (mix(k, v, 0) & 0xffff)) as u32
    }
    fn decode(&self) -> (u64, u64, bool) {
        let x = *self as u64;
        let (k, v) = (x >> 28, (x >> 16) & 0xfff);
        (k, v, <u32 as Val>::make(k, v) == *self)
    }
}

impl Val for u64 {
    fn make(k: u64, v: u64) -> Self {
        ((k & 0xff) << 56) | ((v & 0xff_ffff) << 32) | (mix(k, v, 0) & 0xffff_ffff)
    }
    fn decode(&self) -> (u64, u64, bool) {
        let (k, v) = (*self >> 56, (*self >> 32) & 0xff_ffff);
        (k, v, <u64 as Val>::make(k, v) == *self)
    }
}

pub type Big = [u64; 9];
impl Val for Big {
    fn make(k: u64, v: u64) -> Self {
        let mut w = [0u64; 9];
        w[0] = (k << 32) | (v & 0xffff_ffff);
        for (i, x) in w.iter_mut().enumerate().skip(1) {
            *x = mix(k, v, i as u64);
        }
        w
    }
    fn decode(&self) -> (u64, u64, bool) {
        let (k, v) = (self[0] >> 32, self[0] & 0xffff_ffff);
        (k, v, <Big as Val>::make(k, v) == *self)
    }
}

/// only requested as the WRONG value type of an entry
impl Val for u16 {
    fn make(_k: u64, _v: u64) -> Self {
        0
    }
    fn decode(&self) -> (u64, u64, bool) {
        (0, 0, false)
    }
}

trait WHandle {
    fn update(&mut self, k: u64, v: u64) -> bool;
    fn loan(&mut self) -> bool;
    fn loan_write(&mut self, k: u64, v: u64) -> bool;
    fn commit(&mut self) -> bool;
    fn commit_copy(&mut self, k: u64, v: u64) -> bool;
    fn discard(&mut self) -> bool;
}

struct WH<S: Service, T: Val> {
    h: Option<EntryHandleMut<S, u64, T>>,
    l: Option<EntryValueUninit<S, u64, T>>,
}

impl<S: Service, T: Val> WHandle for WH<S, T> {
    fn update(&mut self, k: u64, v: u64) -> bool {
        match &self.h {
            Some(h) => {
                h.update_with_copy(T::make(k, v));
                true
            }
            None => false,
        }
    }
    fn loan(&mut self) -> bool {
        match self.h.take() {
            Some(h) => {
                self.l = Some(h.loan_uninit());
                true
            }
            None => false,
        }
    }
    fn loan_write(&mut self, k: u64, v: u64) -> bool {
        match &mut self.l {
            Some(l) => {
                l.value_mut().write(T::make(k, v));
                true
            }
            None => false,
        }
    }
    fn commit(&mut self) -> bool {
        match self.l.take() {
            Some(l) => {
                self.h = Some(unsafe { l.assume_init_and_update() });
                true
            }
            None => false,
        }
    }
    fn commit_copy(&mut self, k: u64, v: u64) -> bool {
        match self.l.take() {
            Some(l) => {
                self.h = Some(l.update_with_copy(T::make(k, v)));
                true
            }
            None => false,
        }
    }
    fn discard(&mut self) -> bool {
        match self.l.take() {
            Some(l) => {
                self.h = Some(l.discard());
                true
            }
            None => false,
        }
    }
}

trait RHandle {
    fn get(&self) -> (u64, u64, bool);
}
struct RH<S: Service, T: Val>(EntryHandle<S, u64, T>);
impl<S: Service, T: Val> RHandle for RH<S, T> {
    fn get(&self) -> (u64, u64, bool) {
        (*self.0.get()).decode()
    }
}

fn wentry<S: Service + 'static>(w: &Writer<S, u64>, k: u64, wrong: bool) -> Result<Box<dyn WHandle>, String> {
    fn bx<S: Service + 'static, T: Val>(h: EntryHandleMut<S, u64, T>) -> Box<dyn WHandle> {
        Box::new(WH::<S, T> { h: Some(h), l: None })
    }
    let e = |e| format!("{e:?}");
    if wrong {
        return w.entry::<u16>(&k).map(bx).map_err(e);
    }
    match k % 3 {
        0 => w.entry::<u32>(&k).map(bx).map_err(e),
        1 => w.entry::<u64>(&k).map(bx).map_err(e),
        _ => w.entry::<Big>(&k).map(bx).map_err(e),
    }
}

fn rentry<S: Service + 'static>(r: &Reader<S, u64>, k: u64, wrong: bool) -> Result<Box<dyn RHandle>, String> {
    fn bx<S: Service + 'static, T: Val>(h: EntryHandle<S, u64, T>) -> Box<dyn RHandle> {
        Box::new(RH::<S, T>(h))
    }
    let e = |e| format!("{e:?}");
    if wrong {
        return r.entry::<u16>(&k).map(bx).map_err(e);
    }
    match k % 3 {
        0 => r.entry::<u32>(&k).map(bx).map_err(e),
        1 => r.entry::<u64>(&k).map(bx).map_err(e),
        _ => r.entry::<Big>(&k).map(bx).map_err(e),
    }
}

// ---------------------------------------------------------------------------------------------
// custom key (type-erased) front end

fn details<T: Val>() -> TypeDetail {
    TypeDetail::new::<T>(TypeVariant::FixedSize)
}

fn key_cmp(lhs: *const u8, rhs: *const u8) -> bool {
    unsafe { *lhs.cast::<u64>() == *rhs.cast::<u64>() }
}

fn key_eq_func() -> Box<dyn Fn(*const u8, *const u8) -> bool + Send + Sync> {
    Box::new(move |lhs, rhs| KeyMemory::<MAX_BLACKBOARD_KEY_SIZE>::key_eq_comparison(lhs, rhs, &key_cmp))
}

struct CWH<S: Service, T: Val> {
    h: Option<__InternalEntryHandleMut<S>>,
    l: Option<__InternalEntryValueUninit<S>>,
    _t: core::marker::PhantomData<T>,
}

impl<S: Service, T: Val> WHandle for CWH<S, T> {
    fn update(&mut self, k: u64, v: u64) -> bool {
        // what the bindings' update_with_copy does: write cell pointer, copy, publish
        match &self.h {
            Some(h) => {
                unsafe {
                    let p = h.__internal_get_ptr_to_write_cell(size_of::<T>(), align_of::<T>());
                    p.cast::<T>().write(T::make(k, v));
                    h.__internal_update_write_cell();
                }
                true
            }
            None => false,
        }
    }
    fn loan(&mut self) -> bool {
        match self.h.take() {
            Some(h) => {
                self.l = Some(h.loan_uninit(size_of::<T>(), align_of::<T>()));
                true
            }
            None => false,
        }
    }
    fn loan_write(&mut self, k: u64, v: u64) -> bool {
        match &mut self.l {
            Some(l) => {
                unsafe { l.write_cell().cast::<T>().write(T::make(k, v)) };
                true
            }
            None => false,
        }
    }
    fn commit(&mut self) -> bool {
        match self.l.take() {
            Some(l) => {
                self.h = Some(l.update());
                true
            }
            None => false,
        }
    }
    fn commit_copy(&mut self, k: u64, v: u64) -> bool {
        match self.l.take() {
            Some(l) => {
                unsafe { l.write_cell().cast::<T>().write(T::make(k, v)) };
                self.h = Some(l.update());
                true
            }
            None => false,
        }
    }
    fn discard(&mut self) -> bool {
        match self.l.take() {
            Some(l) => {
                self.h = Some(l.discard());
                true
            }
            None => false,
        }
    }
}

struct CRH<S: Service, T: Val>(__InternalEntryHandle<S>, core::marker::PhantomData<T>);
impl<S: Service, T: Val> RHandle for CRH<S, T> {
    fn get(&self) -> (u64, u64, bool) {
        let mut value = core::mem::MaybeUninit::<T>::zeroed();
        let mut generation = 0u64;
        unsafe {
            self.0.get(value.as_mut_ptr().cast::<u8>(), size_of::<T>(), align_of::<T>(), &mut generation);
            value.assume_init().decode()
        }
    }
}

fn c_wentry<S: Service + 'static>(w: &Writer<S, CustomKeyMarker>, k: u64, wrong: bool) -> Result<Box<dyn WHandle>, String> {
    fn go<S: Service + 'static, T: Val, U: Val>(w: &Writer<S, CustomKeyMarker>, k: u64) -> Result<Box<dyn WHandle>, String> {
        // T: the value type asked for, U: the type the handle is used with (= T unless T is the wrong one)
        let key_ptr = (&k as *const u64).cast::<u8>();
        unsafe { w.__internal_entry(key_ptr, &details::<T>()) }
            .map(|h| Box::new(CWH::<S, U> { h: Some(h), l: None, _t: core::marker::PhantomData }) as Box<dyn WHandle>)
            .map_err(|e| format!("{e:?}"))
    }
    match (wrong, k % 3) {
        (true, _) => go::<S, u16, u16>(w, k),
        (_, 0) => go::<S, u32, u32>(w, k),
        (_, 1) => go::<S, u64, u64>(w, k),
        _ => go::<S, Big, Big>(w, k),
    }
}

fn c_rentry<S: Service + 'static>(r: &Reader<S, CustomKeyMarker>, k: u64, wrong: bool) -> Result<Box<dyn RHandle>, String> {
    fn go<S: Service + 'static, T: Val>(r: &Reader<S, CustomKeyMarker>, k: u64) -> Result<Box<dyn RHandle>, String> {
        let key_ptr = (&k as *const u64).cast::<u8>();
        unsafe { r.__internal_entry(key_ptr, &details::<T>()) }
            .map(|h| Box::new(CRH::<S, T>(h, core::marker::PhantomData)) as Box<dyn RHandle>)
            .map_err(|e| format!("{e:?}"))
    }
    match (wrong, k % 3) {
        (true, _) => go::<S, u16>(r, k),
        (_, 0) => go::<S, u32>(r, k),
        (_, 1) => go::<S, u64>(r, k),
        _ => go::<S, Big>(r, k),
    }
}

// ---------------------------------------------------------------------------------------------
// what the world sees of a front end

trait WPort {
    fn entry(&self, k: u64, wrong: bool) -> Result<Box<dyn WHandle>, String>;
}
trait RPort {
    fn entry(&self, k: u64, wrong: bool) -> Result<Box<dyn RHandle>, String>;
}
trait Fact {
    fn writer(&self) -> Result<Box<dyn WPort>, String>;
    fn reader(&self) -> Result<Box<dyn RPort>, String>;
    /// registry of the service: (writers, readers, nodes)
    fn counts(&self) -> (u64, u64, u64);
    /// (max_readers, max_nodes) of the static config
    fn limits(&self) -> (u64, u64);
    fn custom(&self) -> bool;
}

impl<S: Service + 'static> WPort for Writer<S, u64> {
    fn entry(&self, k: u64, wrong: bool) -> Result<Box<dyn WHandle>, String> {
        wentry(self, k, wrong)
    }
}
impl<S: Service + 'static> WPort for Writer<S, CustomKeyMarker> {
    fn entry(&self, k: u64, wrong: bool) -> Result<Box<dyn WHandle>, String> {
        c_wentry(self, k, wrong)
    }
}
impl<S: Service + 'static> RPort for Reader<S, u64> {
    fn entry(&self, k: u64, wrong: bool) -> Result<Box<dyn RHandle>, String> {
        rentry(self, k, wrong)
    }
}
impl<S: Service + 'static> RPort for Reader<S, CustomKeyMarker> {
    fn entry(&self, k: u64, wrong: bool) -> Result<Box<dyn RHandle>, String> {
        c_rentry(self, k, wrong)
    }
}

macro_rules! fact_common {
    () => {
        fn counts(&self) -> (u64, u64, u64) {
            let mut nn = 0;
            let _ = self.nodes(|_| {
                nn += 1;
                CallbackProgression::Continue
            });
            (self.dynamic_config().number_of_writers() as u64, self.dynamic_config().number_of_readers() as u64, nn)
        }
        fn limits(&self) -> (u64, u64) {
            (self.static_config().max_readers() as u64, self.static_config().max_nodes() as u64)
        }
        fn writer(&self) -> Result<Box<dyn WPort>, String> {
            self.writer_builder().create().map(|p| Box::new(p) as Box<dyn WPort>).map_err(|e| format!("{e:?}"))
        }
        fn reader(&self) -> Result<Box<dyn RPort>, String> {
            self.reader_builder().create().map(|p| Box::new(p) as Box<dyn RPort>).map_err(|e| format!("{e:?}"))
        }
    };
}

impl<S: Service + 'static> Fact for BbFactory<S, u64> {
    fact_common!();
    fn custom(&self) -> bool {
        false
    }
}
impl<S: Service + 'static> Fact for BbFactory<S, CustomKeyMarker> {
    fact_common!();
    fn custom(&self) -> bool {
        true
    }
}

fn create_service<S: Service + 'static>(node: &Node<S>, sname: &ServiceName, custom: bool, nkeys: u64, rreq: u64, nreq: u64) -> Result<Box<dyn Fact>, String> {
    if !custom {
        let mut b = node.service_builder(sname).blackboard_creator::<u64>().max_readers(rreq as usize).max_nodes(nreq as usize);
        for k in 1..=nkeys {
            b = match k % 3 {
                0 => b.add::<u32>(k, <u32 as Val>::make(k, 0)),
                1 => b.add::<u64>(k, <u64 as Val>::make(k, 0)),
                _ => b.add::<Big>(k, <Big as Val>::make(k, 0)),
            };
        }
        return b.create().map(|f| Box::new(f) as Box<dyn Fact>).map_err(|e| format!("{e:?}"));
    }
    // the initial values and the keys must stay where they are until create() has copied them
    let keys: Vec<u64> = (1..=nkeys).collect();
    let mut v32: Vec<Box<u32>> = Vec::new();
    let mut v64: Vec<Box<u64>> = Vec::new();
    let mut vbig: Vec<Box<Big>> = Vec::new();
    let mut b = unsafe {
        node.service_builder(sname)
            .blackboard_creator::<CustomKeyMarker>()
            .__internal_set_key_type_details(&details::<u64>())
            .__internal_set_key_eq_cmp_func(key_eq_func())
    }
    .max_readers(rreq as usize)
    .max_nodes(nreq as usize);
    for k in &keys {
        let key_ptr = (k as *const u64).cast::<u8>();
        let (vp, td): (*mut u8, TypeDetail) = match *k % 3 {
            0 => {
                v32.push(Box::new(<u32 as Val>::make(*k, 0)));
                ((&mut **v32.last_mut().unwrap() as *mut u32).cast(), details::<u32>())
            }
            1 => {
                v64.push(Box::new(<u64 as Val>::make(*k, 0)));
                ((&mut **v64.last_mut().unwrap() as *mut u64).cast(), details::<u64>())
            }
            _ => {
                vbig.push(Box::new(<Big as Val>::make(*k, 0)));
                ((&mut **vbig.last_mut().unwrap() as *mut Big).cast(), details::<Big>())
            }
        };
        b = unsafe { b.__internal_add(key_ptr, vp, td, Box::new(|| {})) };
    }
    let r = b.create().map(|f| Box::new(f) as Box<dyn Fact>).map_err(|e| format!("{e:?}"));
    drop((v32, v64, vbig, keys));
    r
}

fn open_service<S: Service + 'static>(node: &Node<S>, sname: &ServiceName, custom: bool, x: u64, y: u64) -> Result<Box<dyn Fact>, String> {
    if !custom {
        let mut b = node.service_builder(sname).blackboard_opener::<u64>();
        if x > 0 {
            b = b.max_readers(x as usize);
        }
        if y > 0 {
            b = b.max_nodes(y as usize);
        }
        return b.open().map(|f| Box::new(f) as Box<dyn Fact>).map_err(|e| format!("{e:?}"));
    }
    let mut b = unsafe {
        node.service_builder(sname)
            .blackboard_opener::<CustomKeyMarker>()
            .__internal_set_key_type_details(&details::<u64>())
            .__internal_set_key_eq_cmp_func(key_eq_func())
    };
    if x > 0 {
        b = b.max_readers(x as usize);
    }
    if y > 0 {
        b = b.max_nodes(y as usize);
    }
    b.open().map(|f| Box::new(f) as Box<dyn Fact>).map_err(|e| format!("{e:?}"))
}

/// front end of node n under the variant of the job (see the module documentation)
fn custom_on(variant: &str, n: u64) -> bool {
    if variant.ends_with("-ck") {
        true
    } else if variant.ends_with("-mx") {
        n != 1
    } else if variant.ends_with("-xm") {
        n == 1
    } else {
        false
    }
}

struct World<S: Service + 'static> {
    // declaration order = drop order: handles, ports, factories, nodes
    extras: Vec<Box<dyn WHandle>>,
    whandles: BTreeMap<(u64, u64), Box<dyn WHandle>>,
    rhandles: BTreeMap<(u64, u64), Box<dyn RHandle>>,
    writers: BTreeMap<u64, (Box<dyn WPort>, bool)>,
    readers: BTreeMap<u64, (Box<dyn RPort>, bool)>,
    facts: BTreeMap<u64, Box<dyn Fact>>,
    nodes: BTreeMap<u64, Node<S>>,
    nextv: BTreeMap<u64, u64>,
    // front end (custom key?) that created the live handle
    wfe: BTreeMap<(u64, u64), bool>,
    rfe: BTreeMap<(u64, u64), bool>,
}

impl<S: Service + 'static> World<S> {
    fn counts(&self) -> (u64, u64, u64) {
        match self.facts.get(&1) {
            Some(f) => f.counts(),
            None => (99, 99, 99),
        }
    }
    fn next_version(&mut self, k: u64) -> u64 {
        let e = self.nextv.entry(k).or_insert(0);
        *e += 1;
        *e
    }
}

fn flat<T>(r: Result<Result<T, String>, String>) -> Result<T, String> {
    match r {
        Ok(x) => x,
        Err(p) => Err(p),
    }
}

pub fn run_job<S: Service + 'static>(config: &Config, name: &str, job: &Value, tw: &mut TraceWriter, summary: &mut Summary) {
    let cfg = &job["cfg"];
    let (nkeys, rreq, nreq) = (num(cfg, "nkeys"), num(cfg, "rreq"), num(cfg, "nreq"));
    let variant = job["variant"].as_str().unwrap_or("ipc");
    let sname = ServiceName::new(name).expect("service name");
    let mut w = World::<S> {
        extras: Vec::new(),
        whandles: BTreeMap::new(),
        rhandles: BTreeMap::new(),
        writers: BTreeMap::new(),
        readers: BTreeMap::new(),
        facts: BTreeMap::new(),
        nodes: BTreeMap::new(),
        nextv: BTreeMap::new(),
        wfe: BTreeMap::new(),
        rfe: BTreeMap::new(),
    };
    let node1 = NodeBuilder::new().config(config).create::<S>().expect("node 1");
    let created = flat(guarded(|| create_service(&node1, &sname, custom_on(variant, 1), nkeys, rreq, nreq)));
    w.nodes.insert(1, node1);
    let (cres, reff, neff) = match created {
        Ok(f) => {
            let r = f.limits();
            w.facts.insert(1, f);
            ("ok".to_string(), r.0, r.1)
        }
        Err(e) => (e, 0, 0),
    };
    let (nw, nr, nn) = w.counts();
    tw.emit(&json!({"k": "reset", "pat": "bb", "variant": variant, "svc": name, "nkeys": nkeys, "rreq": rreq,
                    "nreq": nreq, "cres": cres, "reff": reff, "neff": neff, "nw": nw, "nr": nr, "nn": nn}));
    summary.count("create", &cres);
    if cres != "ok" {
        return;
    }
    let empty = Vec::new();
    // a step the world cannot execute (the real API deviated from what the program was written for, or
    // the program is wrong) ends the program: the recorded prefix is judged, the truncation is reported
    let mut trunc: Option<String> = None;
    let mut done = 0u64;
    'prog: for step in job["program"].as_array().unwrap_or(&empty) {
        let a = step["a"].as_str().unwrap_or("");
        let (o, n, key, x, y) = (num(step, "o"), num(step, "n"), num(step, "key"), num(step, "x"), num(step, "y"));
        let mut res = "ok".to_string();
        let (mut v, mut kk, mut whole) = (0u64, 0u64, 1u64);
        // front end that executes the call (0 typed, 1 custom key): the node's for factories and ports,
        // the creating port's for handles
        let fe: bool;
        match a {
            "open" => {
                if w.facts.contains_key(&n) {
                    trunc = Some("node has the service open".to_string());
                    break 'prog;
                }
                if !w.nodes.contains_key(&n) {
                    w.nodes.insert(n, NodeBuilder::new().config(config).create::<S>().expect("node"));
                }
                let node = &w.nodes[&n];
                fe = custom_on(variant, n);
                let r = flat(guarded(|| open_service(node, &sname, fe, x, y)));
                match r {
                    Ok(f) => {
                        w.facts.insert(n, f);
                    }
                    Err(e) => res = e,
                }
            }
            "close" => {
                fe = custom_on(variant, n);
                if n == 1 || w.facts.remove(&n).is_none() {
                    trunc = Some("close".to_string());
                    break 'prog;
                }
            }
            "cw" => {
                if w.writers.contains_key(&o) || !w.facts.contains_key(&n) {
                    trunc = Some("cw".to_string());
                    break 'prog;
                }
                let f = &w.facts[&n];
                fe = f.custom();
                match flat(guarded(|| f.writer())) {
                    Ok(p) => {
                        w.writers.insert(o, (p, fe));
                    }
                    Err(e) => res = e,
                }
            }
            "dw" => {
                let Some((p, pfe)) = w.writers.remove(&o) else {
                    trunc = Some("dw".to_string());
                    break 'prog;
                };
                fe = pfe;
                if let Err(e) = guarded(move || drop(p)) {
                    res = e;
                }
            }
            "we" => {
                let Some((p, pfe)) = w.writers.get(&o) else {
                    trunc = Some("we".to_string());
                    break 'prog;
                };
                fe = *pfe;
                match flat(guarded(|| p.entry(key, x != 0))) {
                    Ok(h) => {
                        // a handle granted although the slot (writer, key) already holds one is kept alive
                        if w.whandles.contains_key(&(o, key)) {
                            w.extras.push(h);
                        } else {
                            w.whandles.insert((o, key), h);
                            w.wfe.insert((o, key), fe);
                        }
                    }
                    Err(e) => res = e,
                }
            }
            "wd" => {
                let Some(h) = w.whandles.remove(&(o, key)) else {
                    trunc = Some("wd".to_string());
                    break 'prog;
                };
                fe = w.wfe.remove(&(o, key)).unwrap_or(false);
                if let Err(e) = guarded(move || drop(h)) {
                    res = e;
                }
            }
            "upd" | "lw" | "ccopy" => {
                v = w.next_version(key);
                let Some(h) = w.whandles.get_mut(&(o, key)) else {
                    trunc = Some("no handle".to_string());
                    break 'prog;
                };
                fe = w.wfe.get(&(o, key)).copied().unwrap_or(false);
                let r = guarded(|| match a {
                    "upd" => h.update(key, v),
                    "lw" => h.loan_write(key, v),
                    _ => h.commit_copy(key, v),
                });
                match r {
                    Ok(true) => {}
                    Ok(false) => {
                        trunc = Some("handle state".to_string());
                        break 'prog;
                    }
                    Err(e) => res = e,
                }
            }
            "loan" | "commit" | "disc" => {
                let Some(h) = w.whandles.get_mut(&(o, key)) else {
                    trunc = Some("no handle".to_string());
                    break 'prog;
                };
                fe = w.wfe.get(&(o, key)).copied().unwrap_or(false);
                let r = guarded(|| match a {
                    "loan" => h.loan(),
                    "commit" => h.commit(),
                    _ => h.discard(),
                });
                match r {
                    Ok(true) => {}
                    Ok(false) => {
                        trunc = Some("handle state".to_string());
                        break 'prog;
                    }
                    Err(e) => res = e,
                }
            }
            "cr" => {
                if w.readers.contains_key(&o) || !w.facts.contains_key(&n) {
                    trunc = Some("cr".to_string());
                    break 'prog;
                }
                let f = &w.facts[&n];
                fe = f.custom();
                match flat(guarded(|| f.reader())) {
                    Ok(p) => {
                        w.readers.insert(o, (p, fe));
                    }
                    Err(e) => res = e,
                }
            }
            "dr" => {
                let Some((p, pfe)) = w.readers.remove(&o) else {
                    trunc = Some("dr".to_string());
                    break 'prog;
                };
                fe = pfe;
                if let Err(e) = guarded(move || drop(p)) {
                    res = e;
                }
            }
            "re" => {
                if w.rhandles.contains_key(&(o, key)) {
                    trunc = Some("re".to_string());
                    break 'prog;
                }
                let Some((p, pfe)) = w.readers.get(&o) else {
                    trunc = Some("re".to_string());
                    break 'prog;
                };
                fe = *pfe;
                match flat(guarded(|| p.entry(key, x != 0))) {
                    Ok(h) => {
                        w.rhandles.insert((o, key), h);
                        w.rfe.insert((o, key), fe);
                    }
                    Err(e) => res = e,
                }
            }
            "rd" => {
                let Some(h) = w.rhandles.remove(&(o, key)) else {
                    trunc = Some("rd".to_string());
                    break 'prog;
                };
                fe = w.rfe.remove(&(o, key)).unwrap_or(false);
                if let Err(e) = guarded(move || drop(h)) {
                    res = e;
                }
            }
            "get" => {
                let Some(h) = w.rhandles.get(&(o, key)) else {
                    trunc = Some("get".to_string());
                    break 'prog;
                };
                fe = w.rfe.get(&(o, key)).copied().unwrap_or(false);
                match guarded(|| h.get()) {
                    Ok((k2, v2, ok)) => {
                        kk = k2.min(1 << 30);
                        v = v2.min(1 << 30);
                        whole = ok as u64;
                    }
                    Err(e) => res = e,
                }
            }
            _ => bad_program("unknown action", step),
        }
        let (nw, nr, nn) = w.counts();
        tw.emit(&json!({"k": "op", "a": a, "o": o, "n": n, "key": key, "x": x, "y": y, "res": res, "v": v,
                        "kk": kk, "whole": whole, "nw": nw, "nr": nr, "nn": nn, "fe": fe as u64}));
        summary.count(a, &res);
        summary.count_fe(if fe { "ck" } else { "ty" }, a, &res);
        done += 1;
        tw.flush(); // a later abort of the code under test must not lose what was observed
    }
    if trunc.is_some() {
        summary.truncated += 1;
    }
    tw.emit(&json!({"k": "end", "trunc": trunc.is_some() as u64, "why": trunc.unwrap_or_default(), "done": done}));
    // orderly shutdown in a fixed order (handles, ports, factories of the openers, creator, nodes)
    let World { extras, whandles, rhandles, writers, readers, mut facts, nodes, .. } = w;
    drop(extras);
    drop(whandles);
    drop(rhandles);
    drop(writers);
    drop(readers);
    let creator = facts.remove(&1);
    drop(facts);
    drop(creator);
    drop(nodes);
}
