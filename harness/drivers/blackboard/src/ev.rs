//! The executable event world for the limit clauses of C08: real nodes, port factories, notifiers
//! and listeners of ONE event service, driven by a program.  Deadline and the automatic
//! notifier_created / dropped / dead events are switched off (out of scope).

use std::collections::{BTreeMap, BTreeSet};

use iceoryx2::port::listener::Listener;
use iceoryx2::port::notifier::Notifier;
use iceoryx2::prelude::*;
use iceoryx2::service::port_factory::event::PortFactory as EvFactory;
use vlib::trace::TraceWriter;
use vlib::{Value, json};

use crate::{Summary, bad_program, guarded, num};

struct World<S: Service> {
    notifiers: BTreeMap<u64, Notifier<S>>,
    listeners: BTreeMap<u64, Listener<S>>,
    facts: BTreeMap<u64, EvFactory<S>>,
    nodes: BTreeMap<u64, Node<S>>,
}

impl<S: Service> World<S> {
    fn counts(&self) -> (u64, u64, u64) {
        match self.facts.get(&1) {
            Some(f) => {
                let mut nn = 0;
                let _ = f.nodes(|_| {
                    nn += 1;
                    CallbackProgression::Continue
                });
                (
                    f.dynamic_config().number_of_notifiers() as u64,
                    f.dynamic_config().number_of_listeners() as u64,
                    nn,
                )
            }
            None => (99, 99, 99),
        }
    }
}

fn flat<T>(r: Result<Result<T, String>, String>) -> Result<T, String> {
    match r {
        Ok(x) => x,
        Err(p) => Err(p),
    }
}

pub fn run_job<S: Service>(config: &Config, name: &str, job: &Value, tw: &mut TraceWriter, summary: &mut Summary) {
    let cfg = &job["cfg"];
    let (fq, lq, nq, idmax) = (num(cfg, "fq"), num(cfg, "lq"), num(cfg, "nq"), num(cfg, "idmax"));
    let variant = job["variant"].as_str().unwrap_or("ipc");
    let sname = ServiceName::new(name).expect("service name");
    let mut w = World::<S> {
        notifiers: BTreeMap::new(),
        listeners: BTreeMap::new(),
        facts: BTreeMap::new(),
        nodes: BTreeMap::new(),
    };
    let node1 = NodeBuilder::new().config(config).create::<S>().expect("node 1");
    let created = flat(guarded(|| {
        node1
            .service_builder(&sname)
            .event()
            .max_notifiers(fq as usize)
            .max_listeners(lq as usize)
            .max_nodes(nq as usize)
            .event_id_max_value(idmax as usize)
            .disable_deadline()
            .disable_notifier_created_event()
            .disable_notifier_dropped_event()
            .disable_notifier_dead_event()
            .create()
            .map_err(|e| format!("{e:?}"))
    }));
    w.nodes.insert(1, node1);
    let (cres, eff) = match created {
        Ok(f) => {
            let s = f.static_config();
            let e = (s.max_notifiers() as u64, s.max_listeners() as u64, s.max_nodes() as u64, s.event_id_max_value() as u64);
            w.facts.insert(1, f);
            ("ok".to_string(), e)
        }
        Err(e) => (e, (0, 0, 0, 0)),
    };
    let (nf, nl, nn) = w.counts();
    tw.emit(&json!({"k": "reset", "pat": "ev", "variant": variant, "svc": name, "fq": fq, "lq": lq, "nq": nq,
                    "idmax": idmax, "cres": cres, "feff": eff.0, "leff": eff.1, "neff": eff.2, "ideff": eff.3,
                    "nf": nf, "nl": nl, "nn": nn}));
    summary.count("create", &cres);
    if cres != "ok" {
        return;
    }
    let empty = Vec::new();
    // a step the world cannot execute (the real API deviated from what the program was written for, or
    // the program is wrong) ends the program: the recorded prefix is judged, the truncation is reported
    let mut trunc: Option<String> = None;
    let mut done = 0u64;
    'prog: for step in job["program"].as_array().unwrap_or(&empty) {
        let a = step["a"].as_str().unwrap_or("");
        let (o, n, x, y) = (num(step, "o"), num(step, "n"), num(step, "x"), num(step, "y"));
        let (x3, x4) = (num(step, "x3"), num(step, "x4"));
        let mut res = "ok".to_string();
        let mut cnt = 0u64;
        let mut ids: Vec<u64> = Vec::new();
        match a {
            // open with requirements x = notifiers, y = listeners, x3 = nodes, x4 = max event id (0 = not set)
            "open" => {
                if w.facts.contains_key(&n) {
                    trunc = Some("node has the service open".to_string());
                    break 'prog;
                }
                if !w.nodes.contains_key(&n) {
                    w.nodes.insert(n, NodeBuilder::new().config(config).create::<S>().expect("node"));
                }
                let node = &w.nodes[&n];
                let r = flat(guarded(|| {
                    let mut b = node.service_builder(&sname).event();
                    if x > 0 {
                        b = b.max_notifiers(x as usize);
                    }
                    if y > 0 {
                        b = b.max_listeners(y as usize);
                    }
                    if x3 > 0 {
                        b = b.max_nodes(x3 as usize);
                    }
                    if x4 > 0 {
                        b = b.event_id_max_value(x4 as usize);
                    }
                    b.open().map_err(|e| format!("{e:?}"))
                }));
                match r {
                    Ok(f) => {
                        w.facts.insert(n, f);
                    }
                    Err(e) => res = e,
                }
            }
            "close" => {
                if n == 1 || w.facts.remove(&n).is_none() {
                    trunc = Some("close".to_string());
                    break 'prog;
                }
            }
            // x = default event id
            "cn" => {
                if w.notifiers.contains_key(&o) || !w.facts.contains_key(&n) {
                    trunc = Some("cn".to_string());
                    break 'prog;
                }
                let f = &w.facts[&n];
                let r = flat(guarded(|| {
                    f.notifier_builder()
                        .default_event_id(EventId::new(x as usize))
                        .create()
                        .map_err(|e| format!("{e:?}"))
                }));
                match r {
                    Ok(p) => {
                        w.notifiers.insert(o, p);
                    }
                    Err(e) => res = e,
                }
            }
            "dn" => {
                let Some(p) = w.notifiers.remove(&o) else {
                    trunc = Some("dn".to_string());
                    break 'prog;
                };
                if let Err(e) = guarded(move || drop(p)) {
                    res = e;
                }
            }
            "cl" => {
                if w.listeners.contains_key(&o) || !w.facts.contains_key(&n) {
                    trunc = Some("cl".to_string());
                    break 'prog;
                }
                let f = &w.facts[&n];
                match flat(guarded(|| f.listener_builder().create().map_err(|e| format!("{e:?}")))) {
                    Ok(p) => {
                        w.listeners.insert(o, p);
                    }
                    Err(e) => res = e,
                }
            }
            "dl" => {
                let Some(p) = w.listeners.remove(&o) else {
                    trunc = Some("dl".to_string());
                    break 'prog;
                };
                if let Err(e) = guarded(move || drop(p)) {
                    res = e;
                }
            }
            // y = 0: notify() with the default id, y = 1: notify_with_custom_event_id(x)
            "nt" => {
                let Some(p) = w.notifiers.get(&o) else {
                    trunc = Some("nt".to_string());
                    break 'prog;
                };
                let r = flat(guarded(|| {
                    if y == 0 { p.notify() } else { p.notify_with_custom_event_id(EventId::new(x as usize)) }
                        .map_err(|e| format!("{e:?}"))
                }));
                match r {
                    Ok(c) => cnt = c as u64,
                    Err(e) => res = e,
                }
            }
            "wt" => {
                let Some(p) = w.listeners.get(&o) else {
                    trunc = Some("wt".to_string());
                    break 'prog;
                };
                let mut got = BTreeSet::new();
                let r = flat(guarded(|| {
                    let mut total = 0u64;
                    // the socket based back-ends deliver one datagram per call: drain until empty
                    loop {
                        let mut round = 0u64;
                        p.try_wait(|act| {
                            got.insert(act.id.as_value() as u64);
                            round += act.count;
                        })
                        .map_err(|e| format!("{e:?}"))?;
                        total += round;
                        if round == 0 {
                            break;
                        }
                    }
                    Ok(total)
                }));
                match r {
                    Ok(c) => cnt = c.min(1 << 30),
                    Err(e) => res = e,
                }
                ids = got.into_iter().map(|i| i.min(1 << 30)).collect();
            }
            _ => bad_program("unknown action", step),
        }
        let (nf, nl, nn) = w.counts();
        tw.emit(&json!({"k": "op", "a": a, "o": o, "n": n, "x": x, "y": y, "x3": x3, "x4": x4, "res": res,
                        "cnt": cnt, "ids": ids, "nf": nf, "nl": nl, "nn": nn}));
        summary.count(a, &res);
        done += 1;
        tw.flush(); // a later abort of the code under test must not lose what was observed
    }
    if trunc.is_some() {
        summary.truncated += 1;
    }
    tw.emit(&json!({"k": "end", "trunc": trunc.is_some() as u64, "why": trunc.unwrap_or_default(), "done": done}));
    let World { notifiers, listeners, mut facts, nodes } = w;
    drop(notifiers);
    drop(listeners);
    let creator = facts.remove(&1);
    drop(facts);
    drop(creator);
    drop(nodes);
}
