//! C19 (b), "everything an application creates lives under its configured root path and prefix": two REAL
//! domains create EVERY kind of resource (node, the four messaging patterns, the eight port kinds, dynamic data
//! segments, dead-node cleanup, orderly shutdown), one step at a time, while the process (and its helper
//! processes) run under harness/sysshim with IOX2_VERIF_ROOT=/ - every path that a step creates (open with
//! O_CREAT, shm_open with O_CREAT, mkdir, bind of a unix socket, rename target) or removes (unlink, remove, rmdir,
//! shm_unlink, rename source), wherever it is, is fed into the trace as a `created` / `removed` record attributed
//! to the domain that issued the step. DomainsTrace.tla judges every path (CreatedUnderDomain, RemovedUnderDomain)
//! and the cal-level management functions list / does_exist / remove of every concept called with the other
//! domain's names (ConceptListIsolated, ConceptExistsIsolated, ConceptExistsComplete, ConceptRemoveIsolated).

use std::collections::{BTreeSet, HashMap};
use std::io::{BufRead, BufReader, Read, Seek, SeekFrom};
use std::process::{Command, Stdio};

use iceoryx2::port::client::Client;
use iceoryx2::port::listener::Listener;
use iceoryx2::port::notifier::Notifier;
use iceoryx2::port::publisher::Publisher;
use iceoryx2::port::reader::Reader;
use iceoryx2::port::server::Server;
use iceoryx2::port::subscriber::Subscriber;
use iceoryx2::port::writer::Writer;
use iceoryx2::prelude::*;
use iceoryx2::service::port_factory::{blackboard, event, publish_subscribe, request_response};
use iceoryx2_cal::named_concept::{NamedConceptConfiguration, NamedConceptMgmt};
use iceoryx2_cal::shm_allocator::bump_allocator::BumpAllocator;
use iceoryx2_cal::shm_allocator::pool_allocator::PoolAllocator;
use vlib::trace::TraceWriter;
use vlib::{Args, Value, json};

type S = ipc::Service;

const O_CREAT: i64 = 0o100;

/// the records the shim has appended since the last call
pub struct SysLog {
    file: std::fs::File,
    off: u64,
    rest: Vec<u8>,
    pub records: u64,
}

impl SysLog {
    pub fn open(path: &str) -> Self {
        let file = std::fs::OpenOptions::new().read(true).open(path).unwrap_or_else(|e| panic!("cannot open the shim log {path}: {e}"));
        SysLog { file, off: 0, rest: vec![], records: 0 }
    }

    pub fn delta(&mut self) -> Vec<Value> {
        let len = self.file.metadata().expect("shim log metadata").len();
        let mut out = vec![];
        if len <= self.off {
            return out;
        }
        self.file.seek(SeekFrom::Start(self.off)).expect("seek");
        let mut buf = vec![0u8; (len - self.off) as usize];
        self.file.read_exact(&mut buf).expect("read shim log");
        self.off = len;
        self.rest.extend_from_slice(&buf);
        while let Some(p) = self.rest.iter().position(|b| *b == b'\n') {
            let line: Vec<u8> = self.rest.drain(..=p).collect();
            if let Ok(v) = serde_json::from_slice::<Value>(&line[..line.len() - 1]) {
                self.records += 1;
                out.push(v);
            }
        }
        out
    }
}

/// (path, kind) of everything the records create / remove
fn classify(recs: &[Value]) -> (Vec<(String, &'static str)>, Vec<(String, &'static str)>) {
    let mut created = vec![];
    let mut removed = vec![];
    for r in recs {
        if r["k"] != "sys" {
            continue;
        }
        let call = r["call"].as_str().unwrap_or("");
        let path = r["path"].as_str().unwrap_or("").to_string();
        let ret = r["ret"].as_i64().unwrap_or(-1);
        let flags = r["flags"].as_i64().unwrap_or(0);
        match call {
            "open" if ret >= 0 && flags & O_CREAT != 0 => created.push((path, "file")),
            "shm_open" if ret >= 0 && flags & O_CREAT != 0 => created.push((path, "shm")),
            "mkdir" if ret == 0 => created.push((path, "dir")),
            "bind" if ret == 0 => created.push((path, "socket")),
            "rename" if ret == 0 => {
                if let Some((a, b)) = path.split_once(" -> ") {
                    removed.push((a.to_string(), "file"));
                    created.push((b.to_string(), "file"));
                }
            }
            "unlink" | "remove" if ret == 0 => removed.push((path, "file")),
            "rmdir" if ret == 0 => removed.push((path, "dir")),
            "shm_unlink" if ret == 0 => removed.push((path, "shm")),
            _ => {}
        }
    }
    (created, removed)
}

/// "//" -> "/" (a pure normalisation of the spelling; ".." and "." are resolved by the specification)
fn squeeze(p: &str) -> String {
    let mut out = String::with_capacity(p.len());
    for c in p.chars() {
        if c == '/' && out.ends_with('/') {
            continue;
        }
        out.push(c);
    }
    out
}

struct Rec<'a> {
    w: &'a mut TraceWriter,
    per: HashMap<String, u64>,
    log: SysLog,
    kinds_seen: BTreeSet<String>,
}

impl Rec<'_> {
    fn count(&mut self, a: &str, n: u64) {
        *self.per.entry(a.to_string()).or_insert(0) += n;
    }

    /// what the shim logged since the last step, attributed to domain d
    fn step(&mut self, d: usize, step: &str) {
        let recs = self.log.delta();
        let (created, removed) = classify(&recs);
        for (a, list) in [("created", &created), ("removed", &removed)] {
            let paths: Vec<Vec<u8>> = list.iter().map(|x| squeeze(&x.0).into_bytes()).collect();
            let kinds: Vec<&str> = list.iter().map(|x| x.1).collect();
            self.w.emit(&json!({"k":"op","a":a,"d":d,"step":step,"paths":paths,"kinds":kinds}));
            self.count(a, 1);
            self.count(&format!("{a}_paths"), list.len() as u64);
            for (p, k) in list.iter() {
                self.kinds_seen.insert(format!("{a}:{k}"));
                if *k == "socket" || p.ends_with(".event") {
                    self.kinds_seen.insert(format!("{a}:listener-socket"));
                }
            }
        }
    }

    #[allow(clippy::too_many_arguments)]
    fn op(&mut self, a: &str, d: usize, id: u64, name: &str, r: &str, ids: &[u64], states: &[String], names: &[String], n: u64) {
        let nop: [Vec<u8>; 0] = [];
        self.w.emit(&json!({"k":"op","a":a,"d":d,"id":id,"name":name,"r":r,"ids":ids,"states":states,"names":names,"n":n,"paths":nop}));
        self.count(a, 1);
    }
}

#[derive(Default)]
struct Held {
    node: Option<Node<S>>,
    ps: Option<publish_subscribe::PortFactory<S, u64, ()>>,
    grow: Option<publish_subscribe::PortFactory<S, [u8], ()>>,
    ev: Option<event::PortFactory<S>>,
    rr: Option<request_response::PortFactory<S, u64, (), u64, ()>>,
    bb: Option<blackboard::PortFactory<S, u64>>,
    publisher: Option<Publisher<S, u64, ()>>,
    grower: Option<Publisher<S, [u8], ()>>,
    subscriber: Option<Subscriber<S, u64, ()>>,
    grow_sub: Option<Subscriber<S, [u8], ()>>,
    notifier: Option<Notifier<S>>,
    listener: Option<Listener<S>>,
    client: Option<Client<S, u64, (), u64, ()>>,
    server: Option<Server<S, u64, (), u64, ()>>,
    writer: Option<Writer<S, u64>>,
    reader: Option<Reader<S, u64>>,
}

pub const STEPS: [&str; 20] = [
    "node", "svc_pubsub", "publisher", "subscriber", "send", "svc_grow", "grow_publisher", "grow_subscriber", "grow", "svc_event", "listener",
    "notifier", "notify", "svc_reqres", "server", "client", "request", "svc_blackboard", "writer", "reader",
];

/// service names: the "grow" service has a name of the maximum length (255 bytes), the node a name of 128 bytes
pub fn svc_name(tag: &str, what: &str) -> String {
    let mut s = format!("{what}/{tag}");
    if what == "grow" {
        while s.len() < ServiceName::max_len() {
            s.push('x');
        }
    }
    s
}

fn sname(tag: &str, what: &str) -> ServiceName {
    svc_name(tag, what).as_str().try_into().unwrap()
}

impl Held {
    /// one creation step; Err = what went wrong (recorded, the scenario goes on)
    fn create(&mut self, cfg: &Config, tag: &str, step: &str) -> Result<(), String> {
        fn e<T: core::fmt::Debug>(x: T) -> String {
            format!("{x:?}")
        }
        let node = || -> Result<&Node<S>, String> { self.node.as_ref().ok_or("no node".to_string()) };
        match step {
            "node" => {
                let mut name = format!("n-{tag}/");
                while name.len() < NodeName::max_len() {
                    name.push('n');
                }
                let name: NodeName = name.as_str().try_into().unwrap();
                self.node = Some(NodeBuilder::new().name(&name).config(cfg).signal_handling_mode(SignalHandlingMode::Disabled).create::<S>().map_err(e)?);
            }
            "svc_pubsub" => self.ps = Some(node()?.service_builder(&sname(tag, "ps")).publish_subscribe::<u64>().create().map_err(e)?),
            "publisher" => self.publisher = Some(self.ps.as_ref().ok_or("no service")?.publisher_builder().create().map_err(e)?),
            "subscriber" => self.subscriber = Some(self.ps.as_ref().ok_or("no service")?.subscriber_builder().create().map_err(e)?),
            "send" => {
                self.publisher.as_ref().ok_or("no port")?.send_copy(7).map_err(e)?;
                let _ = self.subscriber.as_ref().ok_or("no port")?.receive().map_err(e)?;
            }
            "svc_grow" => self.grow = Some(node()?.service_builder(&sname(tag, "grow")).publish_subscribe::<[u8]>().create().map_err(e)?),
            "grow_publisher" => {
                self.grower = Some(
                    self.grow.as_ref().ok_or("no service")?.publisher_builder().initial_max_slice_len(8)
                        .allocation_strategy(AllocationStrategy::PowerOfTwo).create().map_err(e)?,
                )
            }
            "grow_subscriber" => self.grow_sub = Some(self.grow.as_ref().ok_or("no service")?.subscriber_builder().create().map_err(e)?),
            "grow" => {
                // a larger slice needs a new data segment (dynamic data segments)
                let p = self.grower.as_ref().ok_or("no port")?;
                let s = p.loan_slice_uninit(20_000).map_err(e)?.write_from_fn(|i| i as u8);
                s.send().map_err(e)?;
                let _ = self.grow_sub.as_ref().ok_or("no port")?.receive().map_err(e)?;
            }
            "svc_event" => self.ev = Some(node()?.service_builder(&sname(tag, "ev")).event().create().map_err(e)?),
            "listener" => self.listener = Some(self.ev.as_ref().ok_or("no service")?.listener_builder().create().map_err(e)?),
            "notifier" => self.notifier = Some(self.ev.as_ref().ok_or("no service")?.notifier_builder().create().map_err(e)?),
            "notify" => {
                self.notifier.as_ref().ok_or("no port")?.notify().map_err(e)?;
                let mut n = 0;
                self.listener.as_ref().ok_or("no port")?.try_wait(|_| n += 1).map_err(e)?;
                if n == 0 {
                    return Err("notification not delivered".into());
                }
            }
            "svc_reqres" => self.rr = Some(node()?.service_builder(&sname(tag, "rr")).request_response::<u64, u64>().create().map_err(e)?),
            "server" => self.server = Some(self.rr.as_ref().ok_or("no service")?.server_builder().create().map_err(e)?),
            "client" => self.client = Some(self.rr.as_ref().ok_or("no service")?.client_builder().create().map_err(e)?),
            "request" => {
                let pending = self.client.as_ref().ok_or("no port")?.send_copy(3).map_err(e)?;
                let req = self.server.as_ref().ok_or("no port")?.receive().map_err(e)?.ok_or("no request")?;
                req.send_copy(4).map_err(e)?;
                let _ = pending.receive().map_err(e)?;
            }
            "svc_blackboard" => {
                self.bb = Some(node()?.service_builder(&sname(tag, "bb")).blackboard_creator::<u64>().add::<u64>(0, 0).create().map_err(e)?)
            }
            "writer" => self.writer = Some(self.bb.as_ref().ok_or("no service")?.writer_builder().create().map_err(e)?),
            "reader" => self.reader = Some(self.bb.as_ref().ok_or("no service")?.reader_builder().create().map_err(e)?),
            other => panic!("unknown step {other}"),
        }
        Ok(())
    }

    fn drop_ports(&mut self) {
        self.publisher = None;
        self.grower = None;
        self.subscriber = None;
        self.grow_sub = None;
        self.notifier = None;
        self.listener = None;
        self.client = None;
        self.server = None;
        self.writer = None;
        self.reader = None;
    }

    fn drop_services(&mut self) {
        self.ps = None;
        self.grow = None;
        self.ev = None;
        self.rr = None;
        self.bb = None;
    }
}

/// helper process of a domain that creates everything and is then killed (`drv-names victim --all`)
pub fn victim_all(cfg: &Config, tag: &str) {
    let mut h = Held::default();
    for s in STEPS {
        if let Err(e) = h.create(cfg, tag, s) {
            println!("error {s} {e}");
            std::process::exit(3);
        }
    }
    println!("{}", h.node.as_ref().unwrap().id().value());
    use std::io::Write;
    std::io::stdout().flush().unwrap();
    loop {
        std::thread::sleep(std::time::Duration::from_secs(3600));
    }
}

pub struct Dom {
    pub root: String,
    pub prefix: String,
    pub cfg: Config,
    pub how: String,
}

/// a configuration that was written to a file and loaded with Config::from_file (custom directories and suffixes)
fn config_from_file(work: &str, label: &str, root: &str, prefix: &str) -> Config {
    let path = format!("{work}/{label}.toml");
    let text = format!(
        "[global]\nroot-path = \"{root}\"\nprefix = \"{prefix}\"\n\n[global.service]\ndirectory = \"svc\"\ndata-segment-suffix = \".dat\"\n\
         static-config-storage-suffix = \".sc\"\ndynamic-config-storage-suffix = \".dyn\"\nconnection-suffix = \".con\"\n\
         event-connection-suffix = \".evt\"\nblackboard-mgmt-suffix = \".bbm\"\nblackboard-data-suffix = \".bbd\"\n\n[global.node]\n\
         directory = \"nd\"\nmonitor-suffix = \".mon\"\nstatic-config-suffix = \".det\"\nservice-tag-suffix = \".stag\"\nport-tag-suffix = \".ptag\"\n"
    );
    std::fs::write(&path, text).expect("write config file");
    Config::from_file(&FilePath::new(path.as_bytes()).expect("config file path")).unwrap_or_else(|e| panic!("Config::from_file({path}): {e:?}"))
}

fn list_nodes(cfg: &Config) -> (String, Vec<u128>, Vec<String>) {
    let mut out: Vec<(u128, String)> = vec![];
    let r = Node::<S>::list(cfg, |st| {
        let s = match &st {
            NodeState::Alive(_) => "alive",
            NodeState::Dead(_) => "dead",
            NodeState::Inaccessible(_) => "inaccessible",
            NodeState::Undefined(_) => "undefined",
        };
        out.push((st.node_id().value(), s.to_string()));
        CallbackProgression::Continue
    });
    out.sort();
    (
        match r {
            Ok(_) => "ok".into(),
            Err(e) => format!("{e:?}"),
        },
        out.iter().map(|x| x.0).collect(),
        out.iter().map(|x| x.1.clone()).collect(),
    )
}

fn list_services(cfg: &Config) -> (String, Vec<String>) {
    let mut out = vec![];
    let r = S::list(cfg, |d| {
        out.push(d.static_details.name().to_string());
        CallbackProgression::Continue
    });
    out.sort();
    (
        match r {
            Ok(_) => "ok".into(),
            Err(e) => format!("{e:?}"),
        },
        out,
    )
}

// ---- cal level: the management functions of every concept the ipc service is made of ------------------------

/// the directory in which the objects of a concept configured with `cfg` live: the path hint, or /dev/shm for the
/// concepts that are shared memory objects. (The file name of an object is <prefix>..<name>..<suffix>; some concepts
/// put a type hash in front of the name or keep several objects per name, e.g. `<name>__mgmt`, `<name>__<n>`.)
fn location<C: NamedConceptConfiguration>(cfg: &C, shm: bool) -> String {
    if shm {
        "/dev/shm".to_string()
    } else {
        let p = squeeze(&cfg.get_path_hint().to_string());
        p.strip_suffix('/').map(|x| x.to_string()).unwrap_or(p)
    }
}

fn mk<C: NamedConceptConfiguration>(prefix: &FileName, suffix: &FileName, hint: &Path) -> C {
    C::default().prefix(prefix).suffix(suffix).path_hint(hint)
}

fn res_str<E: core::fmt::Debug>(r: Result<bool, E>) -> String {
    match r {
        Ok(true) => "true".to_string(),
        Ok(false) => "false".to_string(),
        Err(e) => format!("{e:?}"),
    }
}

/// list under both domains; every object listed under one domain is probed (does_exist, remove) under the OTHER.
/// `suffixes`: the suffix of the objects the calls look at (the event concept: <suffix>_mgmt)
fn concept<C: NamedConceptMgmt>(rec: &mut Rec, label: &str, shm: bool, cfgs: [&C::Configuration; 2], suffixes: [String; 2]) {
    let mut listed: [Vec<FileName>; 2] = [vec![], vec![]];
    let dirs = [location(cfgs[0], shm), location(cfgs[1], shm)];
    for d in 0..2 {
        let (r, names) = match C::list_cfg(cfgs[d]) {
            Ok(v) => ("ok".to_string(), v),
            Err(e) => (format!("{e:?}"), vec![]),
        };
        let nb: Vec<Vec<u8>> = names.iter().map(|n| n.as_bytes().to_vec()).collect();
        rec.w.emit(&json!({"k":"op","a":"concept_list","d":d,"concept":label,"shm":shm,"r":r,"dir":dirs[d].as_bytes(),"names":nb,
            "suffix":suffixes[d].as_bytes()}));
        rec.count("concept_list", 1);
        rec.count("concept_listed", names.len() as u64);
        listed[d] = names;
    }
    for d in 0..2 {
        let c = 1 - d; // the names of d are used under the configuration of c
        for n in listed[d].iter().take(6) {
            let r = res_str(C::does_exist_cfg(n, cfgs[c]));
            rec.w.emit(&json!({"k":"op","a":"concept_exists","d":c,"concept":label,"shm":shm,"r":r,"dir":dirs[c].as_bytes(),"name":n.as_bytes(),
                "suffix":suffixes[c].as_bytes()}));
            rec.count("concept_exists", 1);
            if r == "false" {
                // removing something that does not exist under this configuration must remove nothing
                let r = res_str(unsafe { C::remove_cfg(n, cfgs[c]) });
                rec.w.emit(&json!({"k":"op","a":"concept_remove","d":c,"concept":label,"shm":shm,"r":r,"dir":dirs[c].as_bytes(),"name":n.as_bytes(),
                    "suffix":suffixes[c].as_bytes()}));
                rec.count("concept_remove", 1);
                rec.step(c, &format!("concept_remove:{label}"));
            }
        }
    }
}

fn concepts(rec: &mut Rec, doms: [&Dom; 2]) {
    use iceoryx2_cal::*;
    type Static = static_storage::recommended::Ipc;
    type Dynamic = dynamic_storage::recommended::Ipc<u64>;
    type Data = shared_memory::recommended::Ipc<PoolAllocator>;
    type Resizable = resizable_shared_memory::recommended::Ipc<PoolAllocator>;
    type Payload = shared_memory::recommended::Ipc<BumpAllocator>;
    type Conn = zero_copy_connection::recommended::Ipc;
    type Ev = event::recommended::Ipc;
    type Mon = monitoring::recommended::Ipc;
    let g = |d: usize| &doms[d].cfg.global;
    macro_rules! both {
        ($C:ty, $suffix:expr, $hint:expr) => {{
            let a: <$C as NamedConceptMgmt>::Configuration = mk(&g(0).prefix, &$suffix(0), &$hint(0));
            let b: <$C as NamedConceptMgmt>::Configuration = mk(&g(1).prefix, &$suffix(1), &$hint(1));
            [a, b]
        }};
    }
    let root = |d: usize| *g(d).root_path();
    macro_rules! run {
        ($C:ty, $label:expr, $shm:expr, $suffix:expr, $hint:expr, $more:expr) => {{
            let c = both!($C, $suffix, $hint);
            let sfx = [format!("{}{}", $suffix(0), $more), format!("{}{}", $suffix(1), $more)];
            concept::<$C>(rec, $label, $shm, [&c[0], &c[1]], sfx);
        }};
    }
    run!(Static, "static_config", false, |d: usize| g(d).service.static_config_storage_suffix, |d: usize| g(d).service_dir(), "");
    run!(Dynamic, "dynamic_config", true, |d: usize| g(d).service.dynamic_config_storage_suffix, root, "");
    run!(Dynamic, "blackboard_mgmt", true, |d: usize| g(d).service.blackboard_mgmt_suffix, root, "");
    run!(Data, "data_segment", true, |d: usize| g(d).service.data_segment_suffix, root, "");
    run!(Resizable, "resizable_data_segment", true, |d: usize| g(d).service.data_segment_suffix, root, "");
    run!(Payload, "blackboard_data", true, |d: usize| g(d).service.blackboard_data_suffix, root, "");
    run!(Conn, "connection", true, |d: usize| g(d).service.connection_suffix, root, "");
    // the event concept keeps its state in a shared memory object <name><suffix>_mgmt (that is what list / does_exist
    // look at) and binds the unix datagram socket <path hint>/<prefix><name><suffix>
    run!(Ev, "event", true, |d: usize| g(d).service.event_connection_suffix, root, "_mgmt");
    run!(Mon, "monitoring", false, |d: usize| g(d).node.monitor_suffix, |d: usize| g(d).node_dir(), "");
}

/// cal level, created directly: every implementation of the named concepts that keeps something in the file system
/// or in shared memory - also the ones the ipc service does not use (file based dynamic storage and shared memory,
/// the communication channels) - under two configurations (directory, prefix, suffix). Objects "own<d>" and "both".
fn cal_scenario(rec: &mut Rec, run: u64, pair: &str, dirs: [&str; 2], prefixes: [&str; 2], suffixes: [&str; 2]) {
    use iceoryx2_cal::communication_channel::{CommunicationChannel, CommunicationChannelCreator};
    use iceoryx2_cal::dynamic_storage::{DynamicStorage, DynamicStorageBuilder};
    use iceoryx2_cal::event::{Event, ListenerBuilder};
    use iceoryx2_cal::monitoring::{Monitoring, MonitoringBuilder};
    use iceoryx2_cal::named_concept::NamedConceptBuilder;
    use iceoryx2_cal::shared_memory::{SharedMemory, SharedMemoryBuilder};
    use iceoryx2_cal::shm_allocator::ShmAllocator;
    use iceoryx2_cal::static_storage::{StaticStorage, StaticStorageBuilder};
    use iceoryx2_cal::zero_copy_connection::{ZeroCopyConnection, ZeroCopyConnectionBuilder};
    use iceoryx2_cal::*;
    use std::any::Any;
    rec.w.emit(&json!({"k":"reset","run":run,"pair":pair,
        "root0b":dirs[0].as_bytes(),"root1b":dirs[1].as_bytes(),"prefix0b":prefixes[0].as_bytes(),"prefix1b":prefixes[1].as_bytes(),
        "same_root": dirs[0] == dirs[1], "same_prefix": prefixes[0] == prefixes[1],
        "prefix0":prefixes[0],"prefix1":prefixes[1],"root0":dirs[0],"root1":dirs[1]}));
    let _ = rec.log.delta();
    let fname = |s: &str| FileName::new(s.as_bytes()).unwrap();
    let hints = [Path::new(dirs[0].as_bytes()).unwrap(), Path::new(dirs[1].as_bytes()).unwrap()];
    fn e<T: core::fmt::Debug>(x: T) -> String {
        format!("{x:?}")
    }
    macro_rules! cal {
        ($label:expr, $shm:expr, $C:ty, $more:expr, $create:expr) => {{
            let cfgs: Vec<<$C as NamedConceptMgmt>::Configuration> =
                (0..2).map(|d| mk(&fname(prefixes[d]), &fname(suffixes[d]), &hints[d])).collect();
            let mut held: Vec<(usize, Box<dyn Any>)> = vec![];
            for d in 0..2 {
                // (shared memory has no directories: with EQUAL prefixes the two configurations share the objects -
                // documented, see DomainsTrace.tla OwnedBy - so the common name is only used where it must not collide)
                let both = if $shm && prefixes[0] == prefixes[1] { format!("both{d}") } else { "both".to_string() };
                for n in [format!("own{d}"), both] {
                    let name = fname(&n);
                    let r: Result<Box<dyn Any>, String> = $create(&name, &cfgs[d]);
                    let rs = match r {
                        Ok(h) => {
                            held.push((d, h));
                            "ok".to_string()
                        }
                        Err(x) => x,
                    };
                    rec.w.emit(&json!({"k":"op","a":"port_step","d":d,"step":format!("cal:{}:{n}", $label),"r":rs}));
                    rec.count("port_step", 1);
                    rec.count("cal_create", 1);
                    rec.step(d, &format!("cal:{}", $label));
                }
            }
            let sfx = [format!("{}{}", suffixes[0], $more), format!("{}{}", suffixes[1], $more)];
            concept::<$C>(rec, $label, $shm, [&cfgs[0], &cfgs[1]], sfx);
            for d in 0..2 {
                held.retain(|h| h.0 != d);
                rec.step(d, &format!("cal_drop:{}", $label));
            }
        }};
    }
    type SFile = static_storage::file::Storage;
    cal!("static_storage::file", false, SFile, "", |n: &FileName, c: &<SFile as NamedConceptMgmt>::Configuration| {
        <SFile as StaticStorage>::Builder::new(n).config(c).has_ownership(true).create(b"x").map(|h| Box::new(h) as Box<dyn Any>).map_err(e)
    });
    type DShm = dynamic_storage::posix_shared_memory::Storage<u64>;
    cal!("dynamic_storage::posix_shared_memory", true, DShm, "", |n: &FileName, c: &<DShm as NamedConceptMgmt>::Configuration| {
        <DShm as DynamicStorage<u64>>::Builder::new(n).config(c).has_ownership(true)
            .initializer(|v, _| { v.write(7u64); true }).create().map(|h| Box::new(h) as Box<dyn Any>).map_err(e)
    });
    type DFile = dynamic_storage::file::Storage<u64>;
    cal!("dynamic_storage::file", false, DFile, "", |n: &FileName, c: &<DFile as NamedConceptMgmt>::Configuration| {
        <DFile as DynamicStorage<u64>>::Builder::new(n).config(c).has_ownership(true)
            .initializer(|v, _| { v.write(7u64); true }).create().map(|h| Box::new(h) as Box<dyn Any>).map_err(e)
    });
    type MShm = shared_memory::posix::Memory<BumpAllocator>;
    cal!("shared_memory::posix", true, MShm, "", |n: &FileName, c: &<MShm as NamedConceptMgmt>::Configuration| {
        <MShm as SharedMemory<BumpAllocator>>::Builder::new(n).config(c).size(4096)
            .create(&<BumpAllocator as ShmAllocator>::Configuration::default()).map(|h| Box::new(h) as Box<dyn Any>).map_err(e)
    });
    type MFile = shared_memory::file::Memory<BumpAllocator>;
    cal!("shared_memory::file", false, MFile, "", |n: &FileName, c: &<MFile as NamedConceptMgmt>::Configuration| {
        <MFile as SharedMemory<BumpAllocator>>::Builder::new(n).config(c).size(4096)
            .create(&<BumpAllocator as ShmAllocator>::Configuration::default()).map(|h| Box::new(h) as Box<dyn Any>).map_err(e)
    });
    type Conn = zero_copy_connection::posix_shared_memory::Connection;
    cal!("zero_copy_connection::posix_shared_memory", true, Conn, "", |n: &FileName, c: &<Conn as NamedConceptMgmt>::Configuration| {
        <Conn as ZeroCopyConnection>::Builder::new(n).config(c).create_receiver().map(|h| Box::new(h) as Box<dyn Any>).map_err(e)
    });
    type CFile = zero_copy_connection::file::Connection;
    cal!("zero_copy_connection::file", false, CFile, "", |n: &FileName, c: &<CFile as NamedConceptMgmt>::Configuration| {
        <CFile as ZeroCopyConnection>::Builder::new(n).config(c).create_receiver().map(|h| Box::new(h) as Box<dyn Any>).map_err(e)
    });
    type Ev = event::UnixDatagramShmCountingBitSet;
    cal!("event::unix_datagram_shm", true, Ev, "_mgmt", |n: &FileName, c: &<Ev as NamedConceptMgmt>::Configuration| {
        <Ev as Event<_>>::ListenerBuilder::new(n).config(c).create().map(|h| Box::new(h) as Box<dyn Any>).map_err(e)
    });
    type Mon = monitoring::file_lock::FileLockMonitoring;
    cal!("monitoring::file_lock", false, Mon, "", |n: &FileName, c: &<Mon as NamedConceptMgmt>::Configuration| {
        <Mon as Monitoring>::Builder::new(n).config(c).token().map(|h| Box::new(h) as Box<dyn Any>).map_err(e)
    });
    type ChU = communication_channel::unix_datagram::Channel<u64>;
    cal!("communication_channel::unix_datagram", false, ChU, "", |n: &FileName, c: &<ChU as NamedConceptMgmt>::Configuration| {
        <ChU as CommunicationChannel<u64>>::Creator::new(n).config(c).create_receiver().map(|h| Box::new(h) as Box<dyn Any>).map_err(e)
    });
    type ChS = communication_channel::posix_shared_memory::Channel;
    cal!("communication_channel::posix_shared_memory", true, ChS, "", |n: &FileName, c: &<ChS as NamedConceptMgmt>::Configuration| {
        <ChS as CommunicationChannel<u64>>::Creator::new(n).config(c).create_receiver().map(|h| Box::new(h) as Box<dyn Any>).map_err(e)
    });
}

fn spawn_victim(rec: &mut Rec, dom: &Dom, tag: &str) -> Option<(std::process::Child, u128)> {
    let exe = std::env::current_exe().unwrap();
    let mut cmd = Command::new(exe);
    cmd.args(["victim", "--all", "--tag", tag, "--root", &dom.root, "--prefix", &dom.prefix]);
    if dom.how != "api" {
        cmd.args(["--config-file", &dom.how]);
    }
    let mut child = cmd.stdout(Stdio::piped()).stderr(Stdio::null()).spawn().expect("spawn victim");
    let mut line = String::new();
    BufReader::new(child.stdout.take().unwrap()).read_line(&mut line).expect("victim output");
    match line.trim().parse::<u128>() {
        Ok(id) => Some((child, id)),
        Err(_) => {
            rec.count("victim_failed", 1);
            let _ = child.kill();
            let _ = child.wait();
            None
        }
    }
}

fn scenario(rec: &mut Rec, run: u64, pair: &str, doms: [&Dom; 2]) {
    let none: [u64; 0] = [];
    let nos: [String; 0] = [];
    rec.w.emit(&json!({"k":"reset","run":run,"pair":pair,
        "root0b":doms[0].root.as_bytes(),"root1b":doms[1].root.as_bytes(),
        "prefix0b":doms[0].prefix.as_bytes(),"prefix1b":doms[1].prefix.as_bytes(),
        "same_root": doms[0].root == doms[1].root, "same_prefix": doms[0].prefix == doms[1].prefix,
        "prefix0":doms[0].prefix,"prefix1":doms[1].prefix,"root0":doms[0].root,"root1":doms[1].root}));
    let _ = rec.log.delta(); // whatever happened between the scenarios belongs to nobody
    let mut held = [Held::default(), Held::default()];
    let mut ids: HashMap<u128, u64> = HashMap::new();
    let mut names: [Vec<String>; 2] = [vec![], vec![]];
    // ---- every kind of resource, one step at a time, alternating between the domains
    for s in STEPS {
        for d in 0..2 {
            let tag = format!("{pair}-{d}");
            let r = match held[d].create(&doms[d].cfg, &tag, s) {
                Ok(()) => "ok".to_string(),
                Err(e) => e,
            };
            let idx = (d as u64) * 10 + 1;
            if s == "node" {
                if let Some(n) = &held[d].node {
                    ids.insert(n.id().value(), idx);
                }
                rec.op("create_node", d, idx, "", &r, &none, &nos, &nos, 0);
            } else if let Some(what) = s.strip_prefix("svc_") {
                let what = match what {
                    "pubsub" => "ps",
                    "event" => "ev",
                    "reqres" => "rr",
                    "blackboard" => "bb",
                    o => o,
                };
                let name = svc_name(&tag, what);
                rec.op("create_service", d, idx, &name, &r, &none, &nos, &nos, 0);
                names[d].push(name);
            } else {
                rec.w.emit(&json!({"k":"op","a":"port_step","d":d,"step":s,"r":r}));
                rec.count("port_step", 1);
                if r != "ok" {
                    rec.count("port_step_failed", 1);
                }
            }
            rec.step(d, s);
        }
    }
    let observe = |rec: &mut Rec, ids: &HashMap<u128, u64>| {
        for d in 0..2 {
            let (r, l, s) = list_nodes(&doms[d].cfg);
            let l: Vec<u64> = l.iter().map(|v| *ids.get(v).unwrap_or(&999)).collect();
            let mut z: Vec<(u64, String)> = l.into_iter().zip(s).collect();
            z.sort();
            rec.op("list_nodes", d, 0, "", &r, &z.iter().map(|x| x.0).collect::<Vec<_>>(), &z.iter().map(|x| x.1.clone()).collect::<Vec<_>>(), &nos, 0);
            let (r, l) = list_services(&doms[d].cfg);
            rec.op("list_services", d, 0, "", &r, &none, &nos, &l, 0);
            rec.step(d, "observe");
        }
    };
    observe(rec, &ids);
    concepts(rec, doms);
    // ---- a process of each domain that owns everything dies; cleanup is issued in the OTHER domain first
    for d in 0..2 {
        let tag = format!("{pair}-v{d}");
        let Some((mut child, vid)) = spawn_victim(rec, doms[d], &tag) else { continue };
        let vidx = (d as u64) * 10 + 2;
        ids.insert(vid, vidx);
        rec.op("create_node", d, vidx, "", "ok", &none, &nos, &nos, 0);
        for what in ["ps", "grow", "ev", "rr", "bb"] {
            rec.op("create_service", d, vidx, &svc_name(&tag, what), "ok", &none, &nos, &nos, 0);
        }
        rec.step(d, "victim");
        child.kill().expect("kill victim");
        child.wait().expect("wait victim");
        rec.op("kill", d, vidx, "", "ok", &none, &nos, &nos, 0);
        for c in [1 - d, d] {
            if let Some(n) = &held[c].node {
                let st = n.try_cleanup_dead_nodes();
                rec.op("cleanup", c, (c as u64) * 10 + 1, "", &st.failed_cleanups.to_string(), &none, &nos, &nos, st.cleanups);
                rec.step(c, "cleanup");
            }
            observe(rec, &ids);
        }
    }
    // ---- orderly shutdown, one domain after the other
    for d in 0..2 {
        held[d].drop_ports();
        rec.step(d, "drop_ports");
        held[d].drop_services();
        for name in names[d].iter() {
            rec.op("drop_service", d, (d as u64) * 10 + 1, name, "ok", &none, &nos, &nos, 0);
        }
        rec.step(d, "drop_services");
        held[d].node = None;
        rec.op("drop_node", d, (d as u64) * 10 + 1, "", "ok", &none, &nos, &nos, 0);
        rec.step(d, "drop_node");
        observe(rec, &ids);
    }
}

pub fn make_config(root: &str, prefix: &str) -> Config {
    let mut c = Config::default();
    c.global.prefix = FileName::new(prefix.as_bytes()).expect("prefix");
    c.global.set_root_path(&Path::new(root.as_bytes()).expect("root"));
    c
}

pub fn main(args: &Args) {
    let work = args.get("work").expect("--work");
    let tag = args.get_or("tag", "t");
    let syslog = args.get("syslog").or_else(|| std::env::var("IOX2_VERIF_SYSLOG").ok()).expect("--syslog or IOX2_VERIF_SYSLOG");
    let only = args.get("pairs");
    let mut w = TraceWriter::create(&args.get("out").expect("--out"));
    let mut rec = Rec { w: &mut w, per: HashMap::new(), log: SysLog::open(&syslog), kinds_seen: BTreeSet::new() };
    // (short roots: the path of a unix socket is limited to 107 bytes)
    let r1 = format!("{work}/1");
    let r2 = format!("{work}/2");
    let api = |root: &str, p: String| Dom { root: root.to_string(), prefix: p.clone(), cfg: make_config(root, &p), how: "api".into() };
    let file = |label: &str, root: &str, p: String| {
        let cfg = config_from_file(&work, label, root, &p);
        Dom { root: root.to_string(), prefix: p, cfg, how: format!("{work}/{label}.toml") }
    };
    let pairs: Vec<(&str, Dom, Dom)> = vec![
        ("res-diff-root-diff-prefix", api(&r1, format!("{tag}a_")), api(&r2, format!("{tag}b_"))),
        ("res-same-root-diff-prefix", api(&r1, format!("{tag}c_")), api(&r1, format!("{tag}d_"))),
        ("res-diff-root-same-prefix", api(&r1, format!("{tag}e_")), api(&r2, format!("{tag}e_"))),
        ("res-config-file-custom-names", file("f0", &r1, format!("{tag}f_")), api(&r2, format!("{tag}g_"))),
        // thorough tier (--more)
        ("res-config-files-same-root", file("h0", &r2, format!("{tag}h_")), file("h1", &r2, format!("{tag}i_"))),
        ("res-nested-roots", api(&r1, format!("{tag}j_")), api(&format!("{r1}/nodes"), format!("{tag}k_"))),
    ];
    let mut run = 0;
    for (i, (name, d0, d1)) in pairs.iter().enumerate() {
        if !args.flag("more") && i >= 4 {
            continue;
        }
        if let Some(o) = &only {
            if !o.split(',').any(|x| x == *name) {
                continue;
            }
        }
        run += 1;
        scenario(&mut rec, run, name, [d0, d1]);
    }
    // cal level: (directory, prefix, suffix) differ / only the prefix differs / only the directory differs
    let ca = format!("{work}/ca");
    let cb = format!("{work}/cb");
    let cals: Vec<(&str, [&str; 2], [String; 2], [&str; 2])> = vec![
        ("cal-diff-dir-diff-prefix", [&ca, &cb], [format!("{tag}x_"), format!("{tag}y_")], [".o1", ".o2"]),
        ("cal-same-dir-diff-prefix", [&ca, &ca], [format!("{tag}u_"), format!("{tag}v_")], [".o1", ".o1"]),
        ("cal-diff-dir-same-prefix", [&ca, &cb], [format!("{tag}w_"), format!("{tag}w_")], [".o1", ".o1"]),
    ];
    for (i, (name, dirs, prefixes, suffixes)) in cals.iter().enumerate() {
        if !args.flag("more") && i >= 2 {
            continue;
        }
        if let Some(o) = &only {
            if !o.split(',').any(|x| x == *name) {
                continue;
            }
        }
        run += 1;
        cal_scenario(&mut rec, run, name, *dirs, [&prefixes[0], &prefixes[1]], *suffixes);
    }
    let per = rec.per.clone();
    let kinds: Vec<String> = rec.kinds_seen.iter().cloned().collect();
    let shim_records = rec.log.records;
    w.flush();
    println!("{}", json!({"pairs":run,"events":w.lines,"per_action":per,"kinds":kinds,"shim_records":shim_records}));
}
