pub fn enumerate(_args: &vlib::Args) {}
pub fn edits(_args: &vlib::Args) {}
