//! C19 (a): the REAL semantic string types against the TLC oracle table (all byte strings up to a
//! length) and random edit sequences recorded for trace validation.

use std::collections::{HashMap, HashSet};

use iceoryx2::node::node_name::NodeName;
use iceoryx2::service::service_name::ServiceName;
use iceoryx2_bb_container::semantic_string::SemanticString;
use iceoryx2_bb_system_types::file_name::{FileName, RestrictedFileName};
use iceoryx2_bb_system_types::file_path::FilePath;
use iceoryx2_bb_system_types::path::Path;
use vlib::trace::TraceWriter;
use vlib::{Args, Value, json};

pub const TYPES: [&str; 7] = ["FileName", "Path", "FilePath", "ServiceName", "NodeName", "RFileName2", "Str8"];

/// constructor verdict of the real type: None = not constructible from these bytes (the &str based
/// types cannot be fed invalid UTF-8), Some((accepted, bytes read back))
fn construct(ty: &str, b: &[u8]) -> Option<(bool, Vec<u8>)> {
    fn sem<const N: usize, T: SemanticString<N>>(b: &[u8]) -> Option<(bool, Vec<u8>)> {
        match T::new(b) {
            Ok(v) => Some((true, v.as_bytes().to_vec())),
            Err(_) => Some((false, vec![])),
        }
    }
    match ty {
        "FileName" => sem::<255, FileName>(b),
        "Path" => sem::<255, Path>(b),
        "FilePath" => sem::<255, FilePath>(b),
        "RFileName2" => sem::<2, RestrictedFileName<2>>(b),
        "Str8" => match iceoryx2_bb_container::string::StaticString::<8>::from_bytes(b) {
            Ok(v) => Some((true, iceoryx2_bb_container::string::String::as_bytes(&v).to_vec())),
            Err(_) => Some((false, vec![])),
        },
        "ServiceName" => {
            let s = core::str::from_utf8(b).ok()?;
            match ServiceName::new(s) {
                Ok(v) => Some((true, v.as_str().as_bytes().to_vec())),
                Err(_) => Some((false, vec![])),
            }
        }
        "NodeName" => {
            let s = core::str::from_utf8(b).ok()?;
            match NodeName::new(s) {
                Ok(v) => Some((true, v.as_str().as_bytes().to_vec())),
                Err(_) => Some((false, vec![])),
            }
        }
        _ => panic!("unknown type {ty}"),
    }
}

fn code(classes: &[u8]) -> u32 {
    let mut c = (classes.len() as u32) << 12;
    for (i, k) in classes.iter().enumerate() {
        c |= (*k as u32) << (8 - 4 * i);
    }
    c
}

pub fn enumerate(args: &Args) {
    let oracle: Value = serde_json::from_str(&std::fs::read_to_string(args.get("oracle").expect("--oracle")).unwrap()).unwrap();
    let max_len = args.num("len", 2) as usize;
    let sample = args.num("sample", 0);
    let map: Vec<u8> = oracle["map"].as_array().unwrap().iter().map(|v| v.as_u64().unwrap() as u8).collect();
    assert_eq!(map.len(), 256);
    let mut accept: HashMap<&str, HashSet<u32>> = HashMap::new();
    for ty in TYPES {
        let set = oracle["accept"][ty]
            .as_array()
            .unwrap_or_else(|| panic!("oracle has no type {ty}"))
            .iter()
            .map(|t| code(&t.as_array().unwrap().iter().map(|v| v.as_u64().unwrap() as u8).collect::<Vec<_>>()))
            .collect();
        accept.insert(ty, set);
    }
    let mut evaluated = 0u64;
    let mut strings = 0u64;
    let mut skipped = 0u64;
    let mut mismatches = 0u64;
    let mut first: Vec<Value> = vec![];
    let mut accepted: HashMap<&str, u64> = HashMap::new();
    let mut tuples: HashSet<u32> = HashSet::new();
    let mut c_calls = 0u64;
    let mut check = |b: &[u8]| {
        strings += 1;
        let cls: Vec<u8> = b.iter().map(|x| map[*x as usize]).collect();
        let c = code(&cls);
        tuples.insert(c);
        // the C string entry point (what the language bindings call): the string ends at its first NUL and is
        // judged as a whole. All types up to length 2; RestrictedFileName<2> and StaticString<8> also at length 3
        // (one byte more than the capacity of the former).
        let eff = b.iter().position(|x| *x == 0).map(|p| &b[..p]).unwrap_or(b);
        let ceff = code(&cls[..eff.len()]);
        for ty in ["FileName", "Path", "FilePath", "RFileName2", "Str8"] {
            if b.len() > 2 && ty != "RFileName2" && ty != "Str8" {
                continue;
            }
            let exp = accept[ty].contains(&ceff);
            let (acc, back) = match crate::ctors::make(ty, "from_c_str", b) {
                Some(Ok(back)) => (true, back),
                _ => (false, vec![]),
            };
            c_calls += 1;
            evaluated += 1;
            let bad_verdict = acc != exp;
            let bad_rt = acc && back != eff;
            if bad_verdict || bad_rt {
                mismatches += 1;
                if first.len() < 10 {
                    first.push(json!({"ty":ty,"via":"from_c_str","bytes":b,"classes":cls,"oracle_accepts":exp,"real_accepts":acc,
                        "read_back":back,"kind": if bad_verdict {"verdict"} else {"roundtrip"}}));
                }
            }
        }
        for ty in TYPES {
            let exp = accept[ty].contains(&c);
            match construct(ty, b) {
                None => skipped += 1,
                Some((acc, back)) => {
                    evaluated += 1;
                    if acc {
                        *accepted.entry(ty).or_insert(0) += 1;
                    }
                    let bad_verdict = acc != exp;
                    let bad_rt = acc && back != b;
                    if bad_verdict || bad_rt {
                        mismatches += 1;
                        if first.len() < 10 {
                            first.push(json!({"ty":ty,"via":"new","bytes":b,"classes":cls,"oracle_accepts":exp,"real_accepts":acc,
                                "read_back":back,"kind": if bad_verdict {"verdict"} else {"roundtrip"}}));
                        }
                    }
                }
            }
        }
    };
    check(&[]);
    for a in 0..=255u8 {
        check(&[a]);
    }
    if max_len >= 2 {
        for a in 0..=255u8 {
            for b in 0..=255u8 {
                check(&[a, b]);
            }
        }
    }
    if max_len >= 3 {
        for a in 0..=255u8 {
            for b in 0..=255u8 {
                for c in 0..=255u8 {
                    check(&[a, b, c]);
                }
            }
        }
    } else if sample > 0 {
        let mut rng = vlib::rng::Rng::new(vlib::seed_from_env().wrapping_mul(31).wrapping_add(5));
        // half uniform, half biased towards the bytes that matter
        let hot: [u8; 16] = [0, 1, 31, 32, b'.', b'/', b'\\', b'*', b'<', b':', b'a', 127, 128, 0xC3, 0xA9, 255];
        for i in 0..sample {
            let mut s = [0u8; 3];
            for x in s.iter_mut() {
                *x = if i % 2 == 0 { rng.below(256) as u8 } else { *rng.pick(&hot) };
            }
            check(&s);
        }
    }
    println!(
        "{}",
        json!({"max_len":max_len,"sample":sample,"strings":strings,"evaluated":evaluated,"skipped_not_utf8":skipped,
            "class_tuples_covered":tuples.len(),"mismatches":mismatches,"first":first,"accepted":accepted,
            "from_c_str_calls":c_calls})
    );
}

// ------------------------------------------------------------------------------------------------

pub fn rand_string(rng: &mut vlib::rng::Rng, cap: usize, utf8_only: bool) -> Vec<u8> {
    let len = match rng.below(10) {
        0 => 0,
        1 => 1,
        2 => 2,
        3 => cap.saturating_sub(1),
        4 => cap,
        5 => cap + 1,
        6 => cap + rng.below(40) as usize,
        _ => rng.below(cap as u64 + 1) as usize,
    };
    let pieces: [&[u8]; 24] = [
        b"a", b"b", b"Z", b"0", b"_", b"-", b" ", b".", b"..", b"/", b"/.", b"/..", b"//", b"\\", b":", b"~",
        b"iox2://", b"iox2:/", b"abc", b"x.y", b"\x7f", b"tmp", b"node", b"svc",
    ];
    let evil: [&[u8]; 10] = [b"\0", b"\x01", b"\x1f", b"*", b"?", b"<", b">", b"|", b"\"", b"\n"];
    let hi: [&[u8]; 4] = ["\u{e9}".as_bytes(), "\u{20ac}".as_bytes(), b"\x80", b"\xff"];
    let spice = rng.below(4); // 0,1: clean  2: one evil byte  3: a high byte
    let mut s: Vec<u8> = vec![];
    while s.len() < len {
        let p: &[u8] = pieces[rng.below(pieces.len() as u64) as usize];
        s.extend_from_slice(p);
    }
    s.truncate(len);
    if !s.is_empty() {
        if spice == 2 {
            let p = rng.below(s.len() as u64) as usize;
            s[p] = rng.pick(&evil)[0];
        } else if spice == 3 {
            let h = if utf8_only { hi[rng.below(2) as usize] } else { *rng.pick(&hi) };
            let p = rng.below(s.len() as u64) as usize;
            if p + h.len() <= s.len() {
                s[p..p + h.len()].copy_from_slice(h);
            }
        }
    }
    if utf8_only && core::str::from_utf8(&s).is_err() {
        return String::from_utf8_lossy(&s).as_bytes().to_vec();
    }
    s
}

fn ev(w: &mut TraceWriter, per: &mut HashMap<String, u64>, a: &str, idx: usize, arg: &[u8], r: &str, s: &[u8]) {
    ev2(w, per, a, idx, 0, arg, r, s)
}

#[allow(clippy::too_many_arguments)]
fn ev2(w: &mut TraceWriter, per: &mut HashMap<String, u64>, a: &str, idx: usize, idx2: usize, arg: &[u8], r: &str, s: &[u8]) {
    let none: [u8; 0] = [];
    w.emit(&json!({"k":"op","a":a,"via":"new","idx":idx,"idx2":idx2,"arg":arg,"arg2":none,"r":r,"s":s,"out":none}));
    let cls = if ["ok", "true", "false", "none"].contains(&r) { r } else { "err" };
    *per.entry(format!("{a}:{cls}")).or_insert(0) += 1;
}

fn edit_run<const N: usize, T: SemanticString<N>>(
    w: &mut TraceWriter,
    per: &mut HashMap<String, u64>,
    rng: &mut vlib::rng::Rng,
    ops: u64,
) {
    // a few constructor calls, then an edit sequence on the last accepted value
    let mut val: Option<T> = None;
    for _ in 0..4 {
        let b = rand_string(rng, N, false);
        match T::new(&b) {
            Ok(v) => {
                ev(w, per, "new", 0, &b, "ok", v.as_bytes());
                val = Some(v);
            }
            Err(e) => {
                // the model keeps the previous content when a constructor fails; mirror that
                let cur = val.as_ref().map(|v| v.as_bytes().to_vec()).unwrap_or_default();
                ev(w, per, "new", 0, &b, &format!("{e:?}"), &cur);
            }
        }
    }
    let Some(mut v) = val else { return };
    // `new` in the model replaces the content; re-establish it from the accepted value
    let cur = v.as_bytes().to_vec();
    ev(w, per, "new", 0, &cur, "ok", v.as_bytes());
    let bytes: [u8; 14] = [b'a', b'.', b'/', b'\\', b'*', 0, 1, b':', b'b', 0x80, b'<', b' ', 0x7f, b'_'];
    for _ in 0..ops {
        let len = v.len();
        let res = |r: Result<(), _>| match r {
            Ok(()) => "ok".to_string(),
            Err(e) => format!("{e:?}"),
        };
        let _: &dyn Fn(Result<(), iceoryx2_bb_container::semantic_string::SemanticStringError>) -> String = &res;
        match rng.below(12) {
            9 => {
                // push_bytes: several bytes at the end
                let k = rng.range(1, 4) as usize;
                let arg: Vec<u8> = (0..k).map(|_| *rng.pick(&bytes)).collect();
                let r = res(v.push_bytes(&arg));
                ev(w, per, "push", 0, &arg, &r, v.as_bytes());
            }
            10 => {
                let idx = rng.below(len as u64 + 1) as usize;
                let n = rng.below((len - idx) as u64 + 1) as usize;
                let r = res(v.remove_range(idx, n));
                ev2(w, per, "remove_range", idx, n, &[], &r, v.as_bytes());
            }
            11 => {
                // retain removes every byte for which the closure returns true
                let k = rng.range(1, 2) as usize;
                let cur = v.as_bytes().to_vec();
                let arg: Vec<u8> = (0..k).map(|_| if !cur.is_empty() && rng.chance(3, 4) { *rng.pick(&cur) } else { *rng.pick(&bytes) }).collect();
                let r = res(v.retain(|b| arg.contains(&b)));
                ev(w, per, "retain", 0, &arg, &r, v.as_bytes());
            }
            0 => {
                let b = *rng.pick(&bytes);
                let r = res(v.push(b));
                ev(w, per, "push", 0, &[b], &r, v.as_bytes());
            }
            1 => {
                let b = *rng.pick(&bytes);
                let idx = rng.below(len as u64 + 1) as usize;
                let r = res(v.insert(idx, b));
                ev(w, per, "insert", idx, &[b], &r, v.as_bytes());
            }
            2 => {
                let k = rng.range(1, 4) as usize;
                let arg: Vec<u8> = (0..k).map(|_| *rng.pick(&bytes)).collect();
                let idx = rng.below(len as u64 + 1) as usize;
                let r = res(v.insert_bytes(idx, &arg));
                ev(w, per, "insert", idx, &arg, &r, v.as_bytes());
            }
            3 if len > 0 => {
                let idx = rng.below(len as u64) as usize;
                let r = match v.remove(idx) {
                    Ok(_) => "ok".to_string(),
                    Err(e) => format!("{e:?}"),
                };
                ev(w, per, "remove", idx, &[], &r, v.as_bytes());
            }
            4 => {
                let r = match v.pop() {
                    Ok(Some(_)) => "ok".to_string(),
                    Ok(None) => "none".to_string(),
                    Err(e) => format!("{e:?}"),
                };
                ev(w, per, "pop", 0, &[], &r, v.as_bytes());
            }
            5 => {
                let n = rng.below(len as u64 + 1) as usize;
                let r = res(v.truncate(n));
                ev(w, per, "truncate", n, &[], &r, v.as_bytes());
            }
            6 | 7 => {
                // strip a real prefix / suffix of the content (most of the time) or an arbitrary one
                let cur = v.as_bytes().to_vec();
                let k = rng.range(1, 3).min(len.max(1) as u64) as usize;
                let pre = rng.chance(1, 2);
                let arg: Vec<u8> = if len >= k && rng.chance(3, 4) {
                    if pre { cur[..k].to_vec() } else { cur[len - k..].to_vec() }
                } else {
                    (0..k).map(|_| *rng.pick(&[b'a', b'.', b'/', b'_'])).collect()
                };
                let r = if pre { v.strip_prefix(&arg) } else { v.strip_suffix(&arg) };
                let r = match r {
                    Ok(true) => "true".to_string(),
                    Ok(false) => "false".to_string(),
                    Err(e) => format!("{e:?}"),
                };
                ev(w, per, if pre { "strip_prefix" } else { "strip_suffix" }, 0, &arg, &r, v.as_bytes());
            }
            _ => {
                // grow towards the capacity
                let b = *rng.pick(&[b'a', b'b', b'.', b'/']);
                let r = res(v.push(b));
                ev(w, per, "push", 0, &[b], &r, v.as_bytes());
            }
        }
    }
}

pub fn edits(args: &Args) {
    let runs = args.num("runs", 60);
    let ops = args.num("ops", 25);
    let mut w = TraceWriter::create(&args.get("out").expect("--out"));
    let mut rng = vlib::rng::Rng::new(vlib::seed_from_env().wrapping_mul(7).wrapping_add(11));
    let mut per: HashMap<String, u64> = HashMap::new();
    for run in 0..runs {
        let ty = TYPES[(run % 7) as usize];
        w.emit(&json!({"k":"reset","run":run,"ty":ty,"cls":"edits"}));
        match ty {
            "FileName" => edit_run::<255, FileName>(&mut w, &mut per, &mut rng, ops),
            "Path" => edit_run::<255, Path>(&mut w, &mut per, &mut rng, ops),
            "FilePath" => edit_run::<255, FilePath>(&mut w, &mut per, &mut rng, ops),
            "RFileName2" => edit_run::<2, RestrictedFileName<2>>(&mut w, &mut per, &mut rng, ops),
            _ => {
                let cap = crate::ctors::cap(ty);
                let mut cur: Vec<u8> = vec![];
                for _ in 0..(4 + ops / 2) {
                    let b = rand_string(&mut rng, cap, true);
                    match construct(ty, &b) {
                        Some((true, back)) => {
                            ev(&mut w, &mut per, "new", 0, &b, "ok", &back);
                            cur = back;
                        }
                        Some((false, _)) => ev(&mut w, &mut per, "new", 0, &b, "rejected", &cur),
                        None => {}
                    }
                }
            }
        }
    }
    w.flush();
    println!("{}", json!({"runs":runs,"events":w.lines,"per_action":per}));
}
