//! Two REAL iceoryx2 domains (configurations that differ in `global.prefix` and/or root path) in one
//! temporary tree. Nodes and services are created in one domain; listing, existence checks, opening
//! and cleanup of dead nodes are issued in the other. Every observation is recorded; the
//! Isolation / RoundTrip clauses of spec/data/Domains.tla are evaluated by TLC.

use std::collections::{BTreeSet, HashMap};
use std::io::{BufRead, BufReader};
use std::process::{Command, Stdio};

use iceoryx2::node::NodeState;
use iceoryx2::prelude::*;
use iceoryx2::service::Service;
use vlib::trace::TraceWriter;
use vlib::{Args, json};

fn make_config(root: &str, prefix: &str) -> Config {
    let mut c = Config::default();
    c.global.prefix = FileName::new(prefix.as_bytes()).expect("prefix");
    c.global.set_root_path(&Path::new(root.as_bytes()).expect("root"));
    c
}

pub fn victim(args: &Args) {
    let cfg = match args.get("config-file") {
        Some(f) => Config::from_file(&FilePath::new(f.as_bytes()).expect("config file path")).expect("victim config file"),
        None => make_config(&args.get("root").unwrap(), &args.get("prefix").unwrap()),
    };
    if args.flag("all") {
        // every messaging pattern and port kind (drv-names resources)
        crate::resources::victim_all(&cfg, &args.get("tag").unwrap());
        return;
    }
    let node = NodeBuilder::new()
        .config(&cfg)
        .signal_handling_mode(SignalHandlingMode::Disabled)
        .create::<ipc::Service>()
        .expect("victim node");
    let name = args.get("service").unwrap();
    let service = node
        .service_builder(&name.as_str().try_into().unwrap())
        .publish_subscribe::<u64>()
        .open_or_create()
        .expect("victim service");
    let _publisher = service.publisher_builder().create().expect("victim publisher");
    println!("{}", node.id().value());
    use std::io::Write;
    std::io::stdout().flush().unwrap();
    loop {
        std::thread::sleep(std::time::Duration::from_secs(3600));
    }
}

struct Ids {
    map: HashMap<u128, u64>,
    next_unknown: u64,
}

impl Ids {
    fn known(&mut self, v: u128, idx: u64) {
        self.map.insert(v, idx);
    }
    fn get(&mut self, v: u128) -> u64 {
        if let Some(i) = self.map.get(&v) {
            return *i;
        }
        self.next_unknown += 1;
        let i = 100 + self.next_unknown;
        self.map.insert(v, i);
        i
    }
}

struct Rec<'a> {
    w: &'a mut TraceWriter,
    per: HashMap<String, u64>,
}

impl Rec<'_> {
    #[allow(clippy::too_many_arguments)]
    fn op(&mut self, a: &str, d: usize, id: u64, name: &str, r: &str, ids: &[u64], states: &[String], names: &[String], n: u64) {
        let nop: [Vec<u8>; 0] = [];
        self.w.emit(&json!({"k":"op","a":a,"d":d,"id":id,"name":name,"r":r,"ids":ids,"states":states,"names":names,"n":n,"paths":nop}));
        *self.per.entry(a.to_string()).or_insert(0) += 1;
    }

    /// the regular files / shared memory objects that appeared since the last scan, attributed to
    /// the domain that was the only one creating anything in between
    fn created(&mut self, d: usize, scan: &mut Scan) {
        let now = scan.scan();
        let new: Vec<Vec<u8>> = now.difference(&scan.last).map(|p| p.as_bytes().to_vec()).collect();
        scan.last = now;
        let none: [u64; 0] = [];
        let nos: [String; 0] = [];
        self.w.emit(&json!({"k":"op","a":"created_files","d":d,"id":0,"name":"","r":"ok","ids":none,"states":nos,"names":nos,
            "n":new.len(),"paths":new}));
        *self.per.entry("created_files".to_string()).or_insert(0) += 1;
        *self.per.entry("created_paths".to_string()).or_insert(0) += new.len() as u64;
    }
}

struct Scan {
    roots: Vec<String>,
    tag: String,
    last: BTreeSet<String>,
}

impl Scan {
    fn walk(dir: &std::path::Path, out: &mut BTreeSet<String>) {
        if let Ok(rd) = std::fs::read_dir(dir) {
            for e in rd.flatten() {
                let p = e.path();
                match e.file_type() {
                    Ok(t) if t.is_dir() => Self::walk(&p, out),
                    Ok(_) => {
                        out.insert(p.to_string_lossy().to_string());
                    }
                    Err(_) => {}
                }
            }
        }
    }
    fn scan(&self) -> BTreeSet<String> {
        let mut out = BTreeSet::new();
        for r in self.roots.iter() {
            Self::walk(std::path::Path::new(r), &mut out);
        }
        if let Ok(rd) = std::fs::read_dir("/dev/shm") {
            for e in rd.flatten() {
                let n = e.file_name().to_string_lossy().to_string();
                if n.starts_with(&self.tag) {
                    out.insert(format!("/dev/shm/{n}"));
                }
            }
        }
        // the other plausible locations (the temp directory, the default iceoryx2 root, the current directory):
        // entries that carry the tag of this run (other processes work there as well; `drv-names resources` sees
        // EVERY path through the shim)
        let mut others: Vec<std::path::PathBuf> = vec!["/tmp".into(), std::env::temp_dir(), "/tmp/iceoryx2".into()];
        if let Ok(c) = std::env::current_dir() {
            others.push(c);
        }
        others.sort();
        others.dedup();
        for dir in others {
            if self.roots.iter().any(|r| std::path::Path::new(r).starts_with(&dir) && std::path::Path::new(r) == dir) {
                continue;
            }
            if let Ok(rd) = std::fs::read_dir(&dir) {
                for e in rd.flatten() {
                    let n = e.file_name().to_string_lossy().to_string();
                    if n.contains(&self.tag) {
                        out.insert(e.path().to_string_lossy().to_string());
                    }
                }
            }
        }
        // unix sockets (bound paths and abstract names) that carry the tag
        if let Ok(t) = std::fs::read_to_string("/proc/net/unix") {
            for line in t.lines().skip(1) {
                if let Some(p) = line.split_whitespace().nth(7) {
                    if p.contains(&self.tag) && !self.roots.iter().any(|r| p.starts_with(r.as_str())) {
                        out.insert(p.to_string());
                    }
                }
            }
        }
        out
    }
}

fn list_nodes(cfg: &Config, ids: &mut Ids) -> (String, Vec<u64>, Vec<String>) {
    let mut out: Vec<(u64, String)> = vec![];
    let r = Node::<ipc::Service>::list(cfg, |st| {
        let s = match &st {
            NodeState::Alive(_) => "alive",
            NodeState::Dead(_) => "dead",
            NodeState::Inaccessible(_) => "inaccessible",
            NodeState::Undefined(_) => "undefined",
        };
        out.push((ids.get(st.node_id().value()), s.to_string()));
        CallbackProgression::Continue
    });
    out.sort();
    (
        match r { Ok(_) => "ok".into(), Err(e) => format!("{e:?}") },
        out.iter().map(|x| x.0).collect(),
        out.iter().map(|x| x.1.clone()).collect(),
    )
}

fn list_services(cfg: &Config) -> (String, Vec<String>) {
    let mut out = vec![];
    let r = ipc::Service::list(cfg, |d| {
        out.push(d.static_details.name().to_string());
        CallbackProgression::Continue
    });
    out.sort();
    (match r { Ok(_) => "ok".into(), Err(e) => format!("{e:?}") }, out)
}

fn spawn_victim(root: &str, prefix: &str, service: &str) -> (std::process::Child, u128) {
    let exe = std::env::current_exe().unwrap();
    let mut child = Command::new(exe)
        .args(["victim", "--root", root, "--prefix", prefix, "--service", service])
        .stdout(Stdio::piped())
        .stderr(Stdio::null())
        .spawn()
        .expect("spawn victim");
    let mut line = String::new();
    BufReader::new(child.stdout.take().unwrap()).read_line(&mut line).expect("victim output");
    let id: u128 = line.trim().parse().unwrap_or_else(|_| panic!("victim printed {line:?}"));
    (child, id)
}

struct Dom {
    root: String,
    prefix: String,
    cfg: Config,
}

fn scenario(rec: &mut Rec, run: u64, tag: &str, doms: [&Dom; 2], shm_tag: &str) {
    let mut ids = Ids { map: HashMap::new(), next_unknown: 0 };
    let mut scan = Scan { roots: vec![doms[0].root.clone(), doms[1].root.clone()], tag: shm_tag.to_string(), last: BTreeSet::new() };
    scan.roots.dedup();
    scan.last = scan.scan();
    rec.w.emit(&json!({"k":"reset","run":run,"pair":tag,
        "root0b":doms[0].root.as_bytes(),"root1b":doms[1].root.as_bytes(),
        "prefix0b":doms[0].prefix.as_bytes(),"prefix1b":doms[1].prefix.as_bytes(),
        "same_root": doms[0].root == doms[1].root, "same_prefix": doms[0].prefix == doms[1].prefix,
        "prefix0":doms[0].prefix,"prefix1":doms[1].prefix,"root0":doms[0].root,"root1":doms[1].root}));
    let none: [u64; 0] = [];
    let nos: [String; 0] = [];
    // ---- live nodes and services in both domains
    let mut nodes = vec![];
    for d in 0..2 {
        match NodeBuilder::new().config(&doms[d].cfg).signal_handling_mode(SignalHandlingMode::Disabled).create::<ipc::Service>() {
            Ok(n) => {
                let idx = (d as u64) * 10 + 1;
                ids.known(n.id().value(), idx);
                rec.op("create_node", d, idx, "", "ok", &none, &nos, &nos, 0);
                nodes.push(Some(n));
            }
            Err(e) => {
                rec.op("create_node", d, 0, "", &format!("{e:?}"), &none, &nos, &nos, 0);
                nodes.push(None);
            }
        }
        rec.created(d, &mut scan);
    }
    let mut services = vec![];
    for d in 0..2 {
        for name in [format!("own{d}/{tag}"), "common".to_string()] {
            if let Some(n) = &nodes[d] {
                let r = n.service_builder(&name.as_str().try_into().unwrap()).publish_subscribe::<u64>().create();
                match r {
                    Ok(s) => {
                        rec.op("create_service", d, (d as u64) * 10 + 1, &name, "ok", &none, &nos, &nos, 0);
                        services.push((d, name.clone(), s));
                    }
                    Err(e) => rec.op("create_service", d, (d as u64) * 10 + 1, &name, &format!("{e:?}"), &none, &nos, &nos, 0),
                }
            }
        }
        rec.created(d, &mut scan);
    }
    let observe = |rec: &mut Rec, ids: &mut Ids, names: &[String]| {
        for d in 0..2 {
            let (r, l, s) = list_nodes(&doms[d].cfg, ids);
            rec.op("list_nodes", d, 0, "", &r, &l, &s, &nos, 0);
            let (r, l) = list_services(&doms[d].cfg);
            rec.op("list_services", d, 0, "", &r, &none, &nos, &l, 0);
            for name in names {
                let sn: ServiceName = name.as_str().try_into().unwrap();
                let r = match ipc::Service::does_exist(&sn, &doms[d].cfg, MessagingPattern::PublishSubscribe) {
                    Ok(true) => "true".to_string(),
                    Ok(false) => "false".to_string(),
                    Err(e) => format!("{e:?}"),
                };
                rec.op("exists", d, 0, name, &r, &none, &nos, &nos, 0);
            }
        }
    };
    let mut all_names = vec![format!("own0/{tag}"), format!("own1/{tag}"), "common".to_string(), "nowhere".to_string()];
    observe(rec, &mut ids, &all_names);
    // ---- open a service of the other domain (must not be found) and an own one
    for d in 0..2 {
        if let Some(n) = &nodes[d] {
            for name in [format!("own{}/{tag}", 1 - d), format!("own{d}/{tag}")] {
                let r = match n.service_builder(&name.as_str().try_into().unwrap()).publish_subscribe::<u64>().open() {
                    Ok(_) => "ok".to_string(),
                    Err(e) => format!("{e:?}"),
                };
                rec.op("open", d, (d as u64) * 10 + 1, &name, &r, &none, &nos, &nos, 0);
            }
        }
    }
    // ---- a process of each domain dies; cleanup is issued in the OTHER domain first
    for d in 0..2 {
        let vname = format!("victim{d}/{tag}");
        let (mut child, vid) = spawn_victim(&doms[d].root, &doms[d].prefix, &vname);
        let vidx = (d as u64) * 10 + 2;
        ids.known(vid, vidx);
        rec.op("create_node", d, vidx, "", "ok", &none, &nos, &nos, 0);
        rec.op("create_service", d, vidx, &vname, "ok", &none, &nos, &nos, 0);
        rec.created(d, &mut scan);
        all_names.push(vname.clone());
        observe(rec, &mut ids, &all_names);
        child.kill().expect("kill victim");
        child.wait().expect("wait victim");
        rec.op("kill", d, vidx, "", "ok", &none, &nos, &nos, 0);
        observe(rec, &mut ids, &all_names);
        for c in [1 - d, d] {
            if let Some(n) = &nodes[c] {
                let st = n.try_cleanup_dead_nodes();
                rec.op("cleanup", c, (c as u64) * 10 + 1, "", &st.failed_cleanups.to_string(), &none, &nos, &nos, st.cleanups);
            }
            observe(rec, &mut ids, &all_names);
        }
    }
    // ---- orderly shutdown of one domain must not disturb the other
    for d in 0..2 {
        while let Some(i) = services.iter().position(|x| x.0 == d) {
            let (_, name, handle) = services.remove(i);
            drop(handle);
            rec.op("drop_service", d, (d as u64) * 10 + 1, &name, "ok", &none, &nos, &nos, 0);
        }
        if let Some(n) = nodes[d].take() {
            drop(n);
            rec.op("drop_node", d, (d as u64) * 10 + 1, "", "ok", &none, &nos, &nos, 0);
        }
        observe(rec, &mut ids, &all_names);
    }
}

/// cal level (named_concept.rs path_for / extract_name_from_file): two configurations of the file
/// based static storage and of the shared-memory based dynamic storage that share directory AND
/// prefix and differ in the suffix only (the situation of every iceoryx2 domain: `.service`,
/// `.dynamic`, `.data`, `.connection`, ... objects side by side). Reported with the service events.
fn concept_scenario(rec: &mut Rec, run: u64, work: &str, tag: &str) {
    use iceoryx2_cal::dynamic_storage::posix_shared_memory::Storage as ShmStorage;
    use iceoryx2_cal::dynamic_storage::{DynamicStorage, DynamicStorageBuilder};
    use iceoryx2_cal::named_concept::{NamedConceptBuilder, NamedConceptConfiguration, NamedConceptMgmt};
    use iceoryx2_cal::static_storage::file::Storage as FileStorage;
    use iceoryx2_cal::static_storage::{StaticStorage, StaticStorageBuilder};
    let none: [u64; 0] = [];
    let nos: [String; 0] = [];
    let dir = format!("{work}/concepts");
    // (variant, prefixes, suffixes)
    let variants = [
        ("same-prefix-different-suffix", [format!("{tag}cs_"), format!("{tag}cs_")], [".s1", ".t2"]),
        ("different-prefix-same-suffix", [format!("{tag}cp_"), format!("{tag}dq_")], [".s1", ".s1"]),
    ];
    for (kind, variant) in [("file", 0usize), ("shm", 0), ("file", 1), ("shm", 1)] {
        let (vname, prefixes, suffixes) = &variants[variant];
        rec.w.emit(&json!({"k":"reset","run":run,"pair":format!("concept-{kind}-{vname}"),
            "root0b":dir.as_bytes(),"root1b":dir.as_bytes(),"prefix0b":prefixes[0].as_bytes(),"prefix1b":prefixes[1].as_bytes(),
            "same_root": true, "same_prefix": prefixes[0] == prefixes[1],
            "prefix0":prefixes[0],"prefix1":prefixes[1],"root0":dir,"root1":dir}));
        let names: [[&str; 2]; 2] = [["alpha", "both"], ["beta", "both"]];
        let fcfg: Vec<_> = (0..2).map(|d| <FileStorage as NamedConceptMgmt>::Configuration::default()
            .prefix(&FileName::new(prefixes[d].as_bytes()).unwrap())
            .suffix(&FileName::new(suffixes[d].as_bytes()).unwrap())
            .path_hint(&Path::new(dir.as_bytes()).unwrap())).collect();
        let scfg: Vec<_> = (0..2).map(|d| <ShmStorage<u64> as NamedConceptMgmt>::Configuration::default()
            .prefix(&FileName::new(prefixes[d].as_bytes()).unwrap())
            .suffix(&FileName::new(suffixes[d].as_bytes()).unwrap())
            .path_hint(&Path::new(dir.as_bytes()).unwrap())).collect();
        let mut files = vec![];
        let mut shms = vec![];
        let observe = |rec: &mut Rec| {
            for d in 0..2 {
                let (r, mut l): (String, Vec<String>) = if kind == "file" {
                    match FileStorage::list_cfg(&fcfg[d]) {
                        Ok(v) => ("ok".into(), v.iter().map(|n| n.to_string()).collect()),
                        Err(e) => (format!("{e:?}"), vec![]),
                    }
                } else {
                    match <ShmStorage<u64> as NamedConceptMgmt>::list_cfg(&scfg[d]) {
                        Ok(v) => ("ok".into(), v.iter().map(|n| n.to_string()).collect()),
                        Err(e) => (format!("{e:?}"), vec![]),
                    }
                };
                l.sort();
                rec.op("list_services", d, 0, "", &r, &none, &nos, &l, 0);
                for n in ["alpha", "beta", "both", "nowhere"] {
                    let fname = FileName::new(n.as_bytes()).unwrap();
                    let r = if kind == "file" {
                        FileStorage::does_exist_cfg(&fname, &fcfg[d]).map_err(|e| format!("{e:?}"))
                    } else {
                        <ShmStorage<u64> as NamedConceptMgmt>::does_exist_cfg(&fname, &scfg[d]).map_err(|e| format!("{e:?}"))
                    };
                    let r = match r { Ok(true) => "true".to_string(), Ok(false) => "false".to_string(), Err(e) => e };
                    rec.op("exists", d, 0, n, &r, &none, &nos, &nos, 0);
                }
            }
        };
        for d in 0..2 {
            for n in names[d] {
                let fname = FileName::new(n.as_bytes()).unwrap();
                let r = if kind == "file" {
                    match <FileStorage as StaticStorage>::Builder::new(&fname).config(&fcfg[d]).has_ownership(true).create(b"x") {
                        Ok(s) => { files.push((d, n, s)); "ok".to_string() }
                        Err(e) => format!("{e:?}"),
                    }
                } else {
                    match <ShmStorage<u64> as DynamicStorage<u64>>::Builder::new(&fname).config(&scfg[d]).has_ownership(true)
                        .initializer(|v, _| { v.write(7u64); true }).create() {
                        Ok(s) => { shms.push((d, n, s)); "ok".to_string() }
                        Err(e) => format!("{e:?}"),
                    }
                };
                rec.op("create_service", d, 0, n, &r, &none, &nos, &nos, 0);
                observe(rec);
            }
        }
        for d in 0..2 {
            while let Some(i) = files.iter().position(|x| x.0 == d) {
                let (_, n, h) = files.remove(i);
                drop(h);
                rec.op("drop_service", d, 0, n, "ok", &none, &nos, &nos, 0);
                observe(rec);
            }
            while let Some(i) = shms.iter().position(|x| x.0 == d) {
                let (_, n, h) = shms.remove(i);
                drop(h);
                rec.op("drop_service", d, 0, n, "ok", &none, &nos, &nos, 0);
                observe(rec);
            }
        }
    }
}

pub fn main(args: &Args) {
    let work = args.get("work").expect("--work");
    let tag = args.get_or("tag", "t");
    let mut w = TraceWriter::create(&args.get("out").expect("--out"));
    let only = args.get("pairs");
    let mut rec = Rec { w: &mut w, per: HashMap::new() };
    let r1 = format!("{work}/r1");
    let r2 = format!("{work}/r2");
    // (name, root0, prefix0, root1, prefix1)
    let pairs: Vec<(&str, &str, String, &str, String)> = vec![
        ("same-root-unrelated", &r1, format!("{tag}x_"), &r1, format!("{tag}y_")),
        ("same-root-digit-ext", &r1, format!("{tag}a_"), &r1, format!("{tag}a_1")),
        ("same-root-hex-ext", &r1, format!("{tag}b"), &r1, format!("{tag}bb")),
        ("diff-root-same-prefix", &r1, format!("{tag}s_"), &r2, format!("{tag}s_")),
        ("diff-root-diff-prefix", &r1, format!("{tag}p_"), &r2, format!("{tag}q_")),
        ("diff-root-digit-ext", &r1, format!("{tag}c_"), &r2, format!("{tag}c_1")),
        // thorough tier (--more)
        ("same-root-letter-ext", &r1, format!("{tag}g"), &r1, format!("{tag}gh")),
        ("same-root-2digit-ext-swapped", &r1, format!("{tag}d_42"), &r1, format!("{tag}d_")),
        ("same-root-digit-ext-nodelim", &r1, format!("{tag}k"), &r1, format!("{tag}k7")),
        ("same-root-suffix-like", &r1, format!("{tag}m_"), &r1, format!("{tag}m_.node_monitor")),
    ];
    let mut run = 0;
    for (name, root0, p0, root1, p1) in pairs.iter() {
        if !args.flag("more") && pairs.iter().position(|p| p.0 == *name).unwrap() >= 6 {
            continue;
        }
        if let Some(o) = &only {
            if !o.split(',').any(|x| x == *name) {
                continue;
            }
        }
        let d0 = Dom { root: root0.to_string(), prefix: p0.clone(), cfg: make_config(root0, p0) };
        let d1 = Dom { root: root1.to_string(), prefix: p1.clone(), cfg: make_config(root1, p1) };
        run += 1;
        scenario(&mut rec, run, name, [&d0, &d1], &tag);
    }
    if only.is_none() || only.as_deref() == Some("concepts") {
        run += 1;
        concept_scenario(&mut rec, run, &work, &tag);
    }
    let per = rec.per.clone();
    w.flush();
    println!("{}", json!({"pairs":run,"events":w.lines,"per_action":per}));
}
