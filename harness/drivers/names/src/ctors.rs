//! C19 (a): EVERY public construction path of the name types with arguments around the capacity, the
//! derived constructors and the accessors of an accepted value, recorded for NamesTrace.tla.
//!
//! Entry points (listed from the source; spec/data/MC_Names.tla `Vias` names the same ones):
//!   SemanticString types (FileName, Path, FilePath, RestrictedFileName<2>):
//!       new(&[u8]), from_c_str(*const c_char), TryFrom<&str>, serde Deserialize (visit_str),
//!       conversions From<FileName>/From<&FileName> for Path, From<FilePath>/From<&FilePath> for Path,
//!       From<FileName> for FilePath, From<RestrictedFileName<N>> for FileName,
//!       TryFrom<&FileName> for RestrictedFileName<N>,
//!       FilePath::from_path_and_file, Path::new_normalized, Path::add_path_entry (edit),
//!       FilePath::file_name() / path(), Path::entries() (derived values)
//!   ServiceName / NodeName: new(&str), TryInto<_> for &str, serde Deserialize
//!   StaticString<8> (the plain string below all of them): from_bytes, TryFrom<&[u8]>, TryFrom<&str>,
//!       FromStr, from_c_str, serde Deserialize, from_bytes_truncated, from_str_truncated
//! Every call is wrapped in catch_unwind: a panic of the code under test is an observation ("panic").

use std::collections::HashMap;
use std::panic::{AssertUnwindSafe, catch_unwind};
use std::str::FromStr;

use iceoryx2::node::node_name::NodeName;
use iceoryx2::service::service_name::ServiceName;
use iceoryx2_bb_container::semantic_string::SemanticString;
use iceoryx2_bb_container::string::{StaticString, String as IoxString};
use iceoryx2_bb_system_types::file_name::{FileName, RestrictedFileName};
use iceoryx2_bb_system_types::file_path::FilePath;
use iceoryx2_bb_system_types::path::Path;
use vlib::trace::TraceWriter;
use vlib::{Args, json};

type RFileName2 = RestrictedFileName<2>;
type Str8 = StaticString<8>;

pub struct Out<'a> {
    pub w: &'a mut TraceWriter,
    pub per: HashMap<String, u64>,
}

pub struct Ev<'a> {
    pub a: &'a str,
    pub via: &'a str,
    pub idx: usize,
    pub idx2: usize,
    pub arg: &'a [u8],
    pub arg2: &'a [u8],
    pub r: &'a str,
    pub s: &'a [u8],
    pub out: &'a [u8],
}

impl Default for Ev<'_> {
    fn default() -> Self {
        Ev { a: "new", via: "new", idx: 0, idx2: 0, arg: &[], arg2: &[], r: "ok", s: &[], out: &[] }
    }
}

impl Out<'_> {
    pub fn ev(&mut self, e: Ev) {
        self.w.emit(&json!({"k":"op","a":e.a,"via":e.via,"idx":e.idx,"idx2":e.idx2,"arg":e.arg,"arg2":e.arg2,"r":e.r,
            "s":e.s,"out":e.out}));
        let cls = if ["ok", "true", "false", "none"].contains(&e.r) { e.r } else { "err" };
        *self.per.entry(format!("{}:{cls}", e.a)).or_insert(0) += 1;
        if e.a == "new" {
            *self.per.entry(format!("via:{}:{cls}", e.via)).or_insert(0) += 1;
            if e.r == "panic" {
                *self.per.entry("panics".to_string()).or_insert(0) += 1;
            }
        }
    }
}

fn guarded<R>(f: impl FnOnce() -> R) -> Result<R, String> {
    catch_unwind(AssertUnwindSafe(f)).map_err(|_| "panic".to_string())
}

/// C string: the bytes, the terminator and a canary tail that must never be looked at
fn c_buf(b: &[u8]) -> Vec<u8> {
    let mut v = b.to_vec();
    v.push(0);
    v.extend_from_slice(b"\0\0\0\0");
    v
}

fn json_str(s: &str) -> String {
    serde_json::to_string(s).unwrap()
}

type Made = Option<Result<Vec<u8>, String>>; // None: this entry point cannot be fed these bytes

macro_rules! sem_via {
    ($T:ty, $via:expr, $b:expr) => {{
        let b: &[u8] = $b;
        let utf8 = core::str::from_utf8(b).ok();
        let fin = |r: Result<Result<$T, String>, String>| -> Made {
            Some(match r {
                Ok(Ok(v)) => Ok(v.as_bytes().to_vec()),
                Ok(Err(e)) => Err(e),
                Err(p) => Err(p),
            })
        };
        match $via {
            "new" => fin(guarded(|| <$T>::new(b).map_err(|e| format!("{e:?}")))),
            "from_c_str" => {
                let buf = c_buf(b);
                fin(guarded(|| unsafe { <$T>::from_c_str(buf.as_ptr().cast()) }.map_err(|e| format!("{e:?}"))))
            }
            "try_from_str" => utf8.and_then(|s| fin(guarded(|| <$T>::try_from(s).map_err(|e| format!("{e:?}"))))),
            "serde_json" => utf8.and_then(|s| {
                let doc = json_str(s);
                fin(guarded(|| serde_json::from_str::<$T>(&doc).map_err(|_| "rejected".to_string())))
            }),
            other => panic!("unknown entry point {other}"),
        }
    }};
}

fn str_via(ty: &str, via: &str, b: &[u8]) -> Made {
    let s = core::str::from_utf8(b).ok()?;
    let doc = json_str(s);
    let r: Result<Result<Vec<u8>, String>, String> = match (ty, via) {
        ("ServiceName", "new") => guarded(|| ServiceName::new(s).map(|v| v.as_str().as_bytes().to_vec()).map_err(|e| format!("{e:?}"))),
        ("ServiceName", "try_into") => guarded(|| {
            let r: Result<ServiceName, _> = s.try_into();
            r.map(|v| v.as_str().as_bytes().to_vec()).map_err(|e| format!("{e:?}"))
        }),
        ("ServiceName", "serde_json") => guarded(|| {
            serde_json::from_str::<ServiceName>(&doc).map(|v| v.as_str().as_bytes().to_vec()).map_err(|_| "rejected".to_string())
        }),
        ("NodeName", "new") => guarded(|| NodeName::new(s).map(|v| v.as_str().as_bytes().to_vec()).map_err(|e| format!("{e:?}"))),
        ("NodeName", "try_into") => guarded(|| {
            let r: Result<NodeName, _> = s.try_into();
            r.map(|v| v.as_str().as_bytes().to_vec()).map_err(|e| format!("{e:?}"))
        }),
        ("NodeName", "serde_json") => guarded(|| {
            serde_json::from_str::<NodeName>(&doc).map(|v| v.as_str().as_bytes().to_vec()).map_err(|_| "rejected".to_string())
        }),
        other => panic!("unknown entry point {other:?}"),
    };
    Some(match r {
        Ok(x) => x,
        Err(p) => Err(p),
    })
}

fn str8_via(via: &str, b: &[u8]) -> Made {
    let utf8 = core::str::from_utf8(b).ok();
    let fin = |r: Result<Result<Str8, String>, String>| -> Made {
        Some(match r {
            Ok(Ok(v)) => Ok(v.as_bytes().to_vec()),
            Ok(Err(e)) => Err(e),
            Err(p) => Err(p),
        })
    };
    let e = |e| format!("{e:?}");
    match via {
        "from_bytes" => fin(guarded(|| Str8::from_bytes(b).map_err(e))),
        "try_from_bytes" => fin(guarded(|| Str8::try_from(b).map_err(e))),
        "try_from_str" => utf8.and_then(|s| fin(guarded(|| Str8::try_from(s).map_err(e)))),
        "from_str" => utf8.and_then(|s| fin(guarded(|| Str8::from_str(s).map_err(e)))),
        "from_c_str" => {
            let buf = c_buf(b);
            fin(guarded(|| unsafe { Str8::from_c_str(buf.as_ptr().cast()) }.map_err(e)))
        }
        "serde_json" => utf8.and_then(|s| {
            let doc = json_str(s);
            fin(guarded(|| serde_json::from_str::<Str8>(&doc).map_err(|_| "rejected".to_string())))
        }),
        "from_bytes_truncated" => fin(guarded(|| Str8::from_bytes_truncated(b).map_err(e))),
        "from_str_truncated" => utf8.and_then(|s| fin(guarded(|| Str8::from_str_truncated(s).map_err(e)))),
        other => panic!("unknown entry point {other}"),
    }
}

pub fn vias(ty: &str) -> &'static [&'static str] {
    match ty {
        "FileName" | "Path" | "FilePath" | "RFileName2" => &["new", "from_c_str", "try_from_str", "serde_json"],
        "ServiceName" | "NodeName" => &["new", "try_into", "serde_json"],
        "Str8" => &["from_bytes", "try_from_bytes", "try_from_str", "from_str", "from_c_str", "serde_json",
            "from_bytes_truncated", "from_str_truncated"],
        _ => panic!("unknown type {ty}"),
    }
}

pub fn cap(ty: &str) -> usize {
    match ty {
        "NodeName" => 128,
        "RFileName2" => 2,
        "Str8" => 8,
        _ => 255,
    }
}

pub fn make(ty: &str, via: &str, b: &[u8]) -> Made {
    match ty {
        "FileName" => sem_via!(FileName, via, b),
        "Path" => sem_via!(Path, via, b),
        "FilePath" => sem_via!(FilePath, via, b),
        "RFileName2" => sem_via!(RFileName2, via, b),
        "ServiceName" | "NodeName" => str_via(ty, via, b),
        "Str8" => str8_via(via, b),
        _ => panic!("unknown type {ty}"),
    }
}

/// conversions between the types: (target type, name of the entry point, source type)
const CONVERSIONS: [(&str, &str, &str); 7] = [
    ("Path", "from_FileName", "FileName"),
    ("Path", "from_ref_FileName", "FileName"),
    ("Path", "from_FilePath", "FilePath"),
    ("Path", "from_ref_FilePath", "FilePath"),
    ("FilePath", "from_FileName", "FileName"),
    ("FileName", "from_RFileName2", "RFileName2"),
    ("RFileName2", "try_from_FileName", "FileName"),
];

fn convert(target: &str, via: &str, b: &[u8]) -> Made {
    let r: Result<Option<Result<Vec<u8>, String>>, String> = guarded(|| match (target, via) {
        ("Path", "from_FileName") => FileName::new(b).ok().map(|f| Ok(Path::from(f).as_bytes().to_vec())),
        ("Path", "from_ref_FileName") => FileName::new(b).ok().map(|f| Ok(Path::from(&f).as_bytes().to_vec())),
        ("Path", "from_FilePath") => FilePath::new(b).ok().map(|f| Ok(Path::from(f).as_bytes().to_vec())),
        ("Path", "from_ref_FilePath") => FilePath::new(b).ok().map(|f| Ok(Path::from(&f).as_bytes().to_vec())),
        ("FilePath", "from_FileName") => FileName::new(b).ok().map(|f| Ok(FilePath::from(f).as_bytes().to_vec())),
        ("FileName", "from_RFileName2") => RFileName2::new(b).ok().map(|f| Ok(FileName::from(f).as_bytes().to_vec())),
        ("RFileName2", "try_from_FileName") => FileName::new(b)
            .ok()
            .map(|f| RFileName2::try_from(&f).map(|v| v.as_bytes().to_vec()).map_err(|e| format!("{e:?}"))),
        other => panic!("unknown conversion {other:?}"),
    });
    match r {
        Ok(x) => x,
        Err(p) => Some(Err(p)),
    }
}

/// the accessors of an accepted value: (name, bytes delivered)
fn observe(ty: &str, cur: &[u8]) -> Vec<(&'static str, Result<Vec<u8>, String>)> {
    fn c_bytes(p: *const core::ffi::c_char) -> Vec<u8> {
        unsafe { core::ffi::CStr::from_ptr(p) }.to_bytes().to_vec()
    }
    fn ser<T: serde::Serialize>(v: &T) -> Vec<u8> {
        let doc = serde_json::to_string(v).unwrap();
        serde_json::from_str::<String>(&doc).unwrap().into_bytes()
    }
    macro_rules! sem {
        ($T:ty) => {{
            let v = <$T>::new(cur).expect("observe: value was accepted before");
            vec![
                ("as_c_str", guarded(|| c_bytes(v.as_c_str()))),
                // (Display escapes control characters; the conversion into a String must not)
                ("to_string", guarded(|| String::from(&v).into_bytes())),
                ("serialize", guarded(|| ser(&v))),
            ]
        }};
    }
    let mut out = match ty {
        "FileName" => sem!(FileName),
        "Path" => sem!(Path),
        "FilePath" => sem!(FilePath),
        "RFileName2" => sem!(RFileName2),
        "Str8" => {
            let v = Str8::from_bytes(cur).expect("observe: value was accepted before");
            vec![
                ("as_c_str", guarded(|| c_bytes(v.as_c_str()))),
                ("to_string", guarded(|| v.as_str().as_bytes().to_vec())),
                ("serialize", guarded(|| ser(&v))),
            ]
        }
        "ServiceName" => {
            let s = core::str::from_utf8(cur).unwrap();
            // (internal names cannot be re-created through `new`)
            let r: Result<ServiceName, _> = s.try_into();
            let v = r.expect("observe: value was accepted before");
            vec![("to_string", guarded(|| (*v).as_bytes().to_vec())), ("serialize", guarded(|| ser(&v)))]
        }
        "NodeName" => {
            let v = NodeName::new(core::str::from_utf8(cur).unwrap()).expect("observe: value was accepted before");
            vec![("to_string", guarded(|| (*v).as_bytes().to_vec())), ("serialize", guarded(|| ser(&v)))]
        }
        _ => vec![],
    };
    match ty {
        "FilePath" => {
            let v = FilePath::new(cur).unwrap();
            out.push(("file_name", guarded(|| v.file_name().as_bytes().to_vec())));
            out.push(("path", guarded(|| v.path().as_bytes().to_vec())));
        }
        "Path" => {
            let v = Path::new(cur).unwrap();
            out.push(("entries", guarded(|| {
                let mut o = vec![];
                for (i, e) in v.entries().iter().enumerate() {
                    if i > 0 {
                        o.push(0);
                    }
                    o.extend_from_slice(e.as_bytes());
                }
                o
            })));
            out.push(("normalize", guarded(|| v.normalize().as_bytes().to_vec())));
        }
        _ => {}
    }
    out
}

/// arguments around the capacity: lengths 0, 1, 2, 3, C-1, C, C+1, C+2, 2C-1, 2C, 2C+1, 3C+5 with contents that are
/// valid up to the capacity, invalid only beyond it, cut by a NUL before / at / after it, ...
fn inputs(ty: &str, rng: &mut vlib::rng::Rng, more: bool) -> Vec<Vec<u8>> {
    let c = cap(ty);
    let mut lens: Vec<usize> = if more {
        vec![0, 1, 2, 3, c.saturating_sub(1), c, c + 1, c + 2, 2 * c - 1, 2 * c, 2 * c + 1, 3 * c + 5]
    } else {
        vec![0, 1, 2, c.saturating_sub(1), c, c + 1, 2 * c, 2 * c + 1]
    };
    lens.sort();
    lens.dedup();
    let mut out: Vec<Vec<u8>> = vec![];
    let base = |len: usize, k: usize| -> Vec<u8> {
        // k = 0: all 'a'; k = 1: name-like with dots; k = 2: path-like (absolute, several components)
        (0..len)
            .map(|i| match k {
                0 => b'a',
                1 => {
                    if i % 7 == 3 { b'.' } else { b'a' + (i % 23) as u8 }
                }
                _ => {
                    if i % 9 == 0 { b'/' } else { b'b' + (i % 5) as u8 }
                }
            })
            .collect()
    };
    for &len in lens.iter() {
        for k in 0..3 {
            if more || len <= c + 1 || k == 0 {
                out.push(base(len, k));
            }
        }
        if len == 0 {
            continue;
        }
        // one byte of another kind at the interesting positions: first, just below / at / above the capacity, last
        let mut pos: Vec<usize> = if more || len <= 3 { vec![0, len / 2, len - 1] } else { vec![0, len - 1] };
        for p in [c.wrapping_sub(2), c.wrapping_sub(1), c, c + 1] {
            if p < len && (more || p + 1 >= c) {
                pos.push(p);
            }
        }
        pos.sort();
        pos.dedup();
        for &p in pos.iter() {
            for (k, byte) in [(0usize, 0u8), (1, b'*'), (2, b'/'), (0, 1u8), (1, b'\\')] {
                // quick tier: beyond the capacity only the NUL positions and one invalid byte at the boundary matter
                if !more && len > 3 && byte != 0 && !(byte == b'*' && (p == c || p + 1 == c || p == len - 1)) {
                    continue;
                }
                let mut s = base(len, k);
                s[p] = byte;
                out.push(s);
            }
            // a two-byte UTF-8 character straddling position p (cut in the middle by a truncating constructor)
            if p + 1 < len && (more || p + 2 >= c) {
                let mut s = base(len, 0);
                s[p] = 0xC3;
                s[p + 1] = 0xA9;
                out.push(s);
            }
        }
        // two different names that share their first C bytes
        if len > c {
            let mut s = base(len, 1);
            s[len - 1] = b'Z';
            out.push(s);
        }
    }
    for t in [&b"."[..], b"..", b"...", b"/", b"//", b"/.", b"/..", b"a/", b"a/.", b"a/..", b"./a", b"../a", b"a/../b", b"a//b", b"/a/b/",
        b"iox2://", b"iox2://a", b"iox2:/a", b"a\0b", b"\0", b"\0a", b"a\\b", b"C:\\a", b" ", b"a b", b"\x7f", b"\x80", b"\xff"] {
        out.push(t.to_vec());
    }
    let n = if more { 120 } else { 12 };
    for _ in 0..n {
        let utf8 = rng.chance(1, 2);
        out.push(super::strings::rand_string(rng, c, utf8));
    }
    out
}

fn run_type(o: &mut Out, ty: &str, rng: &mut vlib::rng::Rng, more: bool) {
    let mut cur: Vec<u8> = vec![];
    let ins = inputs(ty, rng, more);
    for b in ins.iter() {
        let mut accepted_any = false;
        for via in vias(ty) {
            match make(ty, via, b) {
                None => {}
                Some(Ok(back)) => {
                    cur = back;
                    accepted_any = true;
                    o.ev(Ev { via, arg: b, r: "ok", s: &cur, ..Default::default() });
                }
                Some(Err(e)) => o.ev(Ev { via, arg: b, r: &e, s: &cur, ..Default::default() }),
            }
        }
        for (target, via, _src) in CONVERSIONS.iter().filter(|c| c.0 == ty) {
            match convert(target, via, b) {
                None => {}
                Some(Ok(back)) => {
                    cur = back;
                    accepted_any = true;
                    o.ev(Ev { via, arg: b, r: "ok", s: &cur, ..Default::default() });
                }
                Some(Err(e)) => o.ev(Ev { via, arg: b, r: &e, s: &cur, ..Default::default() }),
            }
        }
        if accepted_any && (more || cur.len() <= 4 || cur.len() + 2 >= cap(ty) || rng.chance(1, 4)) {
            for (a, r) in observe(ty, &cur) {
                match r {
                    Ok(out) => o.ev(Ev { a, r: "ok", s: &cur, out: &out, ..Default::default() }),
                    Err(e) => o.ev(Ev { a, r: &e, s: &cur, out: b"\xff", ..Default::default() }),
                }
            }
        }
    }
}

/// FilePath::from_path_and_file, Path::new_normalized, Path::add_path_entry with lengths around the capacity
fn derived(o: &mut Out, run: &mut u64, rng: &mut vlib::rng::Rng, more: bool) {
    let part = |len: usize, k: usize| -> Vec<u8> {
        (0..len).map(|i| if k == 1 && i % 11 == 5 { b'/' } else if k == 2 && i % 6 == 1 { b'.' } else { b'p' + (i % 3) as u8 }).collect()
    };
    // ---- from_path_and_file
    *run += 1;
    o.w.emit(&json!({"k":"reset","run":*run,"ty":"FilePath","cls":"derived"}));
    let mut cur: Vec<u8> = vec![];
    let mut cases: Vec<(Vec<u8>, Vec<u8>)> = vec![];
    for (pl, fl) in [(0usize, 1usize), (0, 255), (1, 1), (1, 253), (1, 254), (1, 255), (100, 100), (100, 153), (100, 154), (100, 155), (200, 53),
        (200, 54), (200, 55), (253, 1), (254, 1), (255, 1), (250, 3), (250, 4), (250, 5), (255, 255), (3, 3)] {
        for k in 0..2 {
            let mut p = part(pl, k);
            cases.push((p.clone(), part(fl, 2)));
            if pl > 0 {
                *p.last_mut().unwrap() = b'/'; // path with a trailing separator: no separator is added
                cases.push((p.clone(), part(fl, 0)));
                p[0] = b'/';
                cases.push((p, part(fl, 0)));
            }
        }
    }
    cases.push((b"/".to_vec(), b"f".to_vec()));
    cases.push((b"a/..".to_vec(), b"f".to_vec()));
    cases.push((b"..".to_vec(), b"f".to_vec()));
    cases.push((b".".to_vec(), b"..f".to_vec()));
    // the results that end within two bytes of the capacity: one run each (class "fpaf-capacity", see NamesTrace.tla
    // TolerateFpafPanic), after the others
    cases.sort_by_key(|(p, f)| (p.len() + f.len() + 2 >= 255 && p.len() + f.len() <= 255) as u8);
    for (p, f) in cases.iter() {
        let (Ok(pp), Ok(ff)) = (Path::new(p), FileName::new(f)) else { continue };
        if p.len() + f.len() + 2 >= 255 && p.len() + f.len() <= 255 {
            *run += 1;
            o.w.emit(&json!({"k":"reset","run":*run,"ty":"FilePath","cls":"fpaf-capacity"}));
            cur.clear();
        }
        let r = guarded(|| FilePath::from_path_and_file(&pp, &ff).map(|v| v.as_bytes().to_vec()).map_err(|e| format!("{e:?}")));
        match r {
            Ok(Ok(back)) => {
                cur = back;
                o.ev(Ev { a: "from_path_and_file", arg: p, arg2: f, r: "ok", s: &cur, ..Default::default() });
                if more || rng.chance(1, 3) {
                    for (a, r) in observe("FilePath", &cur) {
                        match r {
                            Ok(out) => o.ev(Ev { a, r: "ok", s: &cur, out: &out, ..Default::default() }),
                            Err(e) => o.ev(Ev { a, r: &e, s: &cur, out: b"\xff", ..Default::default() }),
                        }
                    }
                }
            }
            Ok(Err(e)) | Err(e) => o.ev(Ev { a: "from_path_and_file", arg: p, arg2: f, r: &e, s: &cur, ..Default::default() }),
        }
    }
    // ---- new_normalized and add_path_entry
    *run += 1;
    o.w.emit(&json!({"k":"reset","run":*run,"ty":"Path","cls":"derived"}));
    let mut cur: Vec<u8> = vec![];
    let mut raws: Vec<Vec<u8>> = vec![b"".to_vec(), b"/".to_vec(), b"//".to_vec(), b"a".to_vec(), b"a/".to_vec(), b"/a//b/./c/".to_vec(),
        b"./a".to_vec(), b"a/./".to_vec(), b"../a/..".to_vec(), b".".to_vec(), b"./.".to_vec(), b"/./".to_vec(), b"a*b".to_vec(), b"a\0".to_vec()];
    for len in [254usize, 255, 256, 300] {
        raws.push(part(len, 1));
        let mut s = part(len, 1);
        for i in (0..len).step_by(2) {
            s[i] = b'/';
        }
        raws.push(s);
        let mut s = part(len, 0);
        s[len - 1] = b'/';
        s[0] = b'/';
        raws.push(s);
    }
    for b in raws.iter() {
        match guarded(|| Path::new_normalized(b).map(|v| v.as_bytes().to_vec()).map_err(|e| format!("{e:?}"))) {
            Ok(Ok(back)) => {
                cur = back;
                o.ev(Ev { a: "new_normalized", arg: b, r: "ok", s: &cur, ..Default::default() });
            }
            Ok(Err(e)) | Err(e) => o.ev(Ev { a: "new_normalized", arg: b, r: &e, s: &cur, ..Default::default() }),
        }
    }
    for (bl, el) in [(0usize, 1usize), (0, 255), (1, 1), (1, 253), (1, 254), (100, 154), (100, 155), (254, 1), (255, 1), (255, 0), (253, 1), (253, 2),
        (10, 0), (200, 54), (200, 55), (200, 56)] {
        for slash in [false, true] {
            let mut base = part(bl, 0);
            if slash && bl > 0 {
                *base.last_mut().unwrap() = b'/';
            }
            let entry = part(el, if slash { 1 } else { 0 });
            let (Ok(mut v), Ok(e)) = (Path::new(&base), Path::new(&entry)) else { continue };
            o.ev(Ev { arg: &base, r: "ok", s: v.as_bytes(), ..Default::default() });
            let r = guarded(AssertUnwindSafe(|| v.add_path_entry(&e).map_err(|e| format!("{e:?}"))));
            let r = match r {
                Ok(Ok(())) => "ok".to_string(),
                Ok(Err(e)) | Err(e) => e,
            };
            o.ev(Ev { a: "add_path_entry", arg: &entry, r: &r, s: v.as_bytes(), ..Default::default() });
        }
    }
}

pub fn main(args: &Args) {
    let mut w = TraceWriter::create(&args.get("out").expect("--out"));
    let more = args.flag("more");
    let mut rng = vlib::rng::Rng::new(vlib::seed_from_env().wrapping_mul(13).wrapping_add(3));
    let mut o = Out { w: &mut w, per: HashMap::new() };
    let mut run = 0u64;
    for ty in super::strings::TYPES {
        run += 1;
        o.w.emit(&json!({"k":"reset","run":run,"ty":ty,"cls":"ctors"}));
        run_type(&mut o, ty, &mut rng, more);
    }
    derived(&mut o, &mut run, &mut rng, more);
    let per = o.per.clone();
    w.flush();
    println!("{}", json!({"runs":run,"events":w.lines,"per_action":per}));
}
