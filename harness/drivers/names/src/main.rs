//! Conformance driver for C19 (names are validated, domains are isolated).
//!   enumerate --oracle <json> --len 2|3 [--sample N] ...   all byte strings vs. the TLC oracle table
//!   edits --runs N --out <trace>                           structured random strings + edit sequences
//!   ctors --out <trace> [--more]                           every construction path, lengths around the capacity
//!   domains --work <dir> --tag <t> --out <trace>           two REAL domains in one temporary tree
//!   resources --work <dir> --tag <t> --out <trace>         every kind of resource of two domains, run under harness/sysshim
//!                                                          (IOX2_VERIF_ROOT=/, IOX2_VERIF_SYSLOG=<log>): created / removed paths
//!   victim --root <dir> --prefix <p> --service <name>      helper process that is killed by `domains`
//! The traces are validated by TLC (spec/data/NamesTrace.tla, DomainsTrace.tla).

extern crate iceoryx2_bb_loggers;

mod ctors;
mod domains;
mod resources;
mod strings;

fn main() {
    let args = vlib::Args::from_env();
    if std::env::var("VERIF_LOUD").is_err() {
        std::panic::set_hook(Box::new(|_| {}));
    }
    match args.positional(0).as_deref() {
        Some("enumerate") => strings::enumerate(&args),
        Some("edits") => strings::edits(&args),
        Some("ctors") => ctors::main(&args),
        Some("domains") => domains::main(&args),
        Some("resources") => resources::main(&args),
        Some("victim") => domains::victim(&args),
        other => {
            eprintln!("unknown sub-command {other:?}");
            std::process::exit(2);
        }
    }
}
