//! Spawns one child process per drop order, with a watchdog, `jobs` at a time.

use std::io::Read;
use std::process::{Command, Stdio};
use std::sync::atomic::{AtomicUsize, Ordering};
use std::sync::{Arc, Mutex};
use std::time::{Duration, Instant};

use vlib::{Args, Value, json};

const WATCHDOG: Duration = Duration::from_secs(40);

fn order_arg(v: &Value) -> String {
    v.as_array()
        .map(|a| {
            a.iter()
                .map(|s| {
                    format!(
                        "{}:{}",
                        s["o"].as_str().unwrap_or("?"),
                        s["how"].as_str().unwrap_or("drop")
                    )
                })
                .collect::<Vec<_>>()
                .join(",")
        })
        .unwrap_or_default()
}

pub fn cleanup(root: &str, tag: &str) {
    let _ = std::fs::remove_dir_all(root);
    if let Ok(rd) = std::fs::read_dir("/dev/shm") {
        for e in rd.flatten() {
            if e.file_name().to_string_lossy().starts_with(tag) {
                let _ = std::fs::remove_file(e.path());
            }
        }
    }
}

fn run_one(exe: &std::path::Path, item: &Value, root: &str, tag: &str) -> (Vec<String>, String) {
    let mut child = Command::new(exe)
        .arg("child")
        .args(["--pat", item["pat"].as_str().unwrap_or("")])
        .args(["--var", item["var"].as_str().unwrap_or("")])
        .args(["--order", &order_arg(&item["order"])])
        .args(["--root", root])
        .args(["--tag", tag])
        .env("IOX2_LOG_LEVEL", "fatal")
        .stdin(Stdio::null())
        .stdout(Stdio::piped())
        .stderr(Stdio::null())
        .spawn()
        .expect("spawn child");
    let mut out = child.stdout.take().unwrap();
    // the child's output is small (< 64 KiB pipe buffer is not guaranteed): read it in a thread
    let reader = std::thread::spawn(move || {
        let mut s = String::new();
        let _ = out.read_to_string(&mut s);
        s
    });
    let t0 = Instant::now();
    let status = loop {
        match child.try_wait() {
            Ok(Some(st)) => {
                use std::os::unix::process::ExitStatusExt;
                break if st.success() {
                    "ok".to_string()
                } else if let Some(sig) = st.signal() {
                    format!("signal:{sig}")
                } else if st.code() == Some(101) {
                    "panic".to_string()
                } else {
                    format!("exit:{}", st.code().unwrap_or(-1))
                };
            }
            Ok(None) => {
                if t0.elapsed() > WATCHDOG {
                    let _ = child.kill();
                    let _ = child.wait();
                    break "hang".to_string();
                }
                std::thread::sleep(Duration::from_millis(2));
            }
            Err(e) => break format!("waiterror:{e}"),
        }
    };
    let text = reader.join().unwrap_or_default();
    let lines = text
        .lines()
        .filter(|l| l.starts_with('{'))
        .map(|l| l.to_string())
        .collect();
    (lines, status)
}

pub fn main(args: &Args) {
    let plan = vlib::trace::read_ndjson(&args.get("plan").expect("--plan"));
    let root = args.get_or("root", "/tmp/verif-droporder");
    let tag = args.get_or("tag", "vdo_");
    let out = args.get("out").expect("--out");
    let jobs = args.num("jobs", 8) as usize;
    let exe = std::env::current_exe().expect("current_exe");
    let _ = std::fs::create_dir_all(&root);

    let next = Arc::new(AtomicUsize::new(0));
    let results: Arc<Mutex<Vec<Option<(Vec<String>, String)>>>> =
        Arc::new(Mutex::new((0..plan.len()).map(|_| None).collect()));
    let plan = Arc::new(plan);
    let mut handles = vec![];
    for _ in 0..jobs.max(1) {
        let (next, results, plan, exe, root, tag) = (
            next.clone(),
            results.clone(),
            plan.clone(),
            exe.clone(),
            root.clone(),
            tag.clone(),
        );
        handles.push(std::thread::spawn(move || {
            loop {
                let i = next.fetch_add(1, Ordering::SeqCst);
                if i >= plan.len() {
                    break;
                }
                let r = format!("{root}/{i}");
                let t = format!("{tag}{i}_");
                cleanup(&r, &t);
                let res = run_one(&exe, &plan[i], &r, &t);
                cleanup(&r, &t);
                results.lock().unwrap()[i] = Some(res);
            }
        }));
    }
    for h in handles {
        let _ = h.join();
    }
    let mut tw = vlib::trace::TraceWriter::create(&out);
    let mut statuses = std::collections::BTreeMap::<String, u64>::new();
    let mut records = 0u64;
    let results = results.lock().unwrap();
    for (i, r) in results.iter().enumerate() {
        let (lines, status) = r.clone().unwrap_or((vec![], "notrun".into()));
        *statuses.entry(status.clone()).or_insert(0) += 1;
        let mut saw_reset = false;
        for l in &lines {
            if let Ok(v) = serde_json::from_str::<Value>(l) {
                if v["k"] == "reset" {
                    saw_reset = true;
                }
                tw.emit(&v);
                records += 1;
            }
        }
        if !saw_reset {
            tw.emit(&json!({"k":"reset","pat":plan[i]["pat"],"var":plan[i]["var"],"run":i}));
        }
        tw.emit(&json!({"k":"end","status":status,"run":i}));
    }
    tw.flush();
    println!("{}", json!({"runs":plan.len(),"records":records,"status":statuses}));
}
