//! Runs the drop orders of a plan in child processes, with a watchdog, `jobs` children at a time.
//!
//! A child process executes a BATCH of orders one after the other (every order in an isolated domain
//! of its own: prefix <tag><index>_ and root <dir>/<index>), printing `begin` / `done` markers
//! around each.  If the child panics, aborts or hangs, that is DATA of the order that was in
//! progress (`end` record with status panic / signal:N / exit:N / hang); the orders of the batch that
//! had not been started are executed again in a fresh child.  So every order is observed in a
//! process that ran to the point of that order without incident, and no incident is lost or blamed
//! on another order.

use std::collections::VecDeque;
use std::io::{BufRead, BufReader};
use std::process::{Command, Stdio};
use std::sync::mpsc;
use std::sync::{Arc, Mutex};
use std::time::{Duration, Instant};

use vlib::{Args, Value, json};

const WATCHDOG: Duration = Duration::from_secs(60);

pub fn order_arg(v: &Value) -> String {
    v.as_array()
        .map(|a| {
            a.iter()
                .map(|s| {
                    format!(
                        "{}:{}",
                        s["o"].as_str().unwrap_or("?"),
                        s["how"].as_str().unwrap_or("drop")
                    )
                })
                .collect::<Vec<_>>()
                .join(",")
        })
        .unwrap_or_default()
}

pub fn cleanup(root: &str, tag: &str) {
    let _ = std::fs::remove_dir_all(root);
    if let Ok(rd) = std::fs::read_dir("/dev/shm") {
        for e in rd.flatten() {
            if e.file_name().to_string_lossy().starts_with(tag) {
                let _ = std::fs::remove_file(e.path());
            }
        }
    }
}

struct Outcome {
    lines: Vec<String>,
    status: String,
}

/// Executes the batch; returns the outcomes of the orders that were started and the indices that
/// were not.
fn run_batch(
    exe: &std::path::Path,
    plan: &[Value],
    batch: &[usize],
    root: &str,
    tag: &str,
    serial: usize,
) -> (Vec<(usize, Outcome)>, Vec<usize>) {
    let bf = format!("{root}/batch_{serial}.ndjson");
    {
        let mut tw = vlib::trace::TraceWriter::create(&bf);
        for &i in batch {
            cleanup(&format!("{root}/{i}"), &format!("{tag}{i}_"));
            tw.emit(&json!({"i":i,"pat":plan[i]["pat"],"var":plan[i]["var"],"order":order_arg(&plan[i]["order"]),
                            "root":format!("{root}/{i}"),"tag":format!("{tag}{i}_")}));
        }
        tw.flush();
    }
    let mut child = Command::new(exe)
        .arg("child")
        .args(["--batch", &bf])
        .env("IOX2_LOG_LEVEL", "fatal")
        .stdin(Stdio::null())
        .stdout(Stdio::piped())
        .stderr(Stdio::null())
        .spawn()
        .expect("spawn child");
    let out = child.stdout.take().unwrap();
    let (tx, rx) = mpsc::channel::<String>();
    let reader = std::thread::spawn(move || {
        for l in BufReader::new(out).lines().map_while(Result::ok) {
            if tx.send(l).is_err() {
                break;
            }
        }
    });
    let mut done: Vec<(usize, Outcome)> = vec![];
    let mut current: Option<(usize, Vec<String>)> = None;
    let mut last = Instant::now();
    let mut hung = false;
    loop {
        match rx.recv_timeout(Duration::from_millis(200)) {
            Ok(l) => {
                last = Instant::now();
                if !l.starts_with('{') {
                    continue;
                }
                if let Ok(v) = serde_json::from_str::<Value>(&l) {
                    if v["k"] == "begin" {
                        current = Some((v["i"].as_u64().unwrap_or(0) as usize, vec![]));
                        continue;
                    }
                    if v["k"] == "done" {
                        if let Some((i, lines)) = current.take() {
                            done.push((i, Outcome { lines, status: "ok".into() }));
                        }
                        continue;
                    }
                }
                if let Some((_, lines)) = current.as_mut() {
                    lines.push(l);
                }
            }
            Err(mpsc::RecvTimeoutError::Timeout) => {
                if last.elapsed() > WATCHDOG {
                    hung = true;
                    let _ = child.kill();
                    break;
                }
            }
            Err(mpsc::RecvTimeoutError::Disconnected) => break,
        }
    }
    let st = child.wait();
    let _ = reader.join();
    let status = if hung {
        "hang".to_string()
    } else {
        match st {
            Ok(st) => {
                use std::os::unix::process::ExitStatusExt;
                if st.success() {
                    "ok".to_string()
                } else if let Some(sig) = st.signal() {
                    format!("signal:{sig}")
                } else if st.code() == Some(101) {
                    "panic".to_string()
                } else {
                    format!("exit:{}", st.code().unwrap_or(-1))
                }
            }
            Err(e) => format!("waiterror:{e}"),
        }
    };
    if let Some((i, lines)) = current.take() {
        // the order in progress when the child ended
        done.push((i, Outcome { lines, status: if status == "ok" { "exit-without-done".into() } else { status.clone() } }));
    } else if status != "ok" {
        // the child did not end normally between two orders: blame the last one it executed
        if let Some(l) = done.last_mut() {
            l.1.status = status.clone();
        }
    }
    let started: Vec<usize> = done.iter().map(|d| d.0).collect();
    let not_started: Vec<usize> = batch.iter().copied().filter(|i| !started.contains(i)).collect();
    for &i in batch {
        cleanup(&format!("{root}/{i}"), &format!("{tag}{i}_"));
    }
    let _ = std::fs::remove_file(&bf);
    if started.is_empty() && !not_started.is_empty() {
        // the child could not even start its first order: report it against that order
        let i = not_started[0];
        done.push((i, Outcome { lines: vec![], status: if status == "ok" { "no-output".into() } else { status } }));
        return (done, not_started[1..].to_vec());
    }
    (done, not_started)
}

pub fn main(args: &Args) {
    let plan = vlib::trace::read_ndjson(&args.get("plan").expect("--plan"));
    let root = args.get_or("root", "/tmp/verif-droporder");
    let tag = args.get_or("tag", "vdo_");
    let out = args.get("out").expect("--out");
    let jobs = args.num("jobs", 8) as usize;
    let bsize = args.num("batch", 16).max(1) as usize;
    let exe = std::env::current_exe().expect("current_exe");
    let _ = std::fs::create_dir_all(&root);

    let mut q = VecDeque::new();
    let idx: Vec<usize> = (0..plan.len()).collect();
    for c in idx.chunks(bsize) {
        q.push_back(c.to_vec());
    }
    let queue = Arc::new(Mutex::new(q));
    let serial = Arc::new(Mutex::new(0usize));
    let results: Arc<Mutex<Vec<Option<Outcome>>>> = Arc::new(Mutex::new((0..plan.len()).map(|_| None).collect()));
    let plan = Arc::new(plan);
    let children = Arc::new(Mutex::new(0u64));
    let mut handles = vec![];
    for _ in 0..jobs.max(1) {
        let (queue, results, plan, exe, root, tag, serial, children) = (
            queue.clone(),
            results.clone(),
            plan.clone(),
            exe.clone(),
            root.clone(),
            tag.clone(),
            serial.clone(),
            children.clone(),
        );
        handles.push(std::thread::spawn(move || {
            loop {
                let batch = match queue.lock().unwrap().pop_front() {
                    Some(b) => b,
                    None => break,
                };
                let s = {
                    let mut g = serial.lock().unwrap();
                    *g += 1;
                    *g
                };
                *children.lock().unwrap() += 1;
                let (done, rest) = run_batch(&exe, &plan, &batch, &root, &tag, s);
                {
                    let mut r = results.lock().unwrap();
                    for (i, o) in done {
                        r[i] = Some(o);
                    }
                }
                if !rest.is_empty() {
                    queue.lock().unwrap().push_front(rest);
                }
            }
        }));
    }
    for h in handles {
        let _ = h.join();
    }
    let mut tw = vlib::trace::TraceWriter::create(&out);
    let mut statuses = std::collections::BTreeMap::<String, u64>::new();
    let mut records = 0u64;
    let results = results.lock().unwrap();
    for (i, r) in results.iter().enumerate() {
        let (lines, status) = match r {
            Some(o) => (o.lines.clone(), o.status.clone()),
            None => (vec![], "notrun".to_string()),
        };
        *statuses.entry(status.clone()).or_insert(0) += 1;
        let mut saw_reset = false;
        for l in &lines {
            if let Ok(v) = serde_json::from_str::<Value>(l) {
                if v["k"] == "reset" {
                    saw_reset = true;
                }
                tw.emit(&v);
                records += 1;
            }
        }
        if !saw_reset {
            tw.emit(&json!({"k":"reset","pat":plan[i]["pat"],"var":plan[i]["var"],"nodeids":[],"run":i}));
        }
        tw.emit(&json!({"k":"end","status":status,"run":i}));
    }
    tw.flush();
    println!(
        "{}",
        json!({"runs":plan.len(),"records":records,"status":statuses,"child_processes":*children.lock().unwrap()})
    );
}
