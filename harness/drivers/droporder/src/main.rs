//! Conformance driver for C17 (orderly shutdown in any order leaves nothing behind).
//!
//!   run   --plan <plan.ndjson> --root <dir> --tag <prefix> --out <trace.ndjson> [--jobs n] [--batch k]
//!         executes every line {"pat":…,"var":…,"order":[{"o":…,"how":…},…]} of the plan in a CHILD
//!         PROCESS (k orders per child, one after the other, each in an isolated domain: prefix
//!         <tag><index>_ and root <dir>/<index>) with a watchdog; a panic, abort or hang of the child
//!         is data of the order in progress (`end` record), the orders not yet started are re-run in
//!         a fresh child (see parent.rs).
//!   child --batch <file> | --pat <pattern> --var <variant> --order o:how,… --root <dir> --tag <prefix>
//!         builds the object graph on the real API, drops the objects in the given order, uses
//!         every survivor after each drop and prints one ndjson record per observation.
//!
//! Patterns: pubsub6 pubsub8 event6 event8 reqres8 reqres8n bb6 bb8 (spec/api/DropOrder.tla).
//! Variants: ipc local ipc_threadsafe local_threadsafe.

extern crate iceoryx2_bb_loggers;

mod child;
mod parent;

fn main() {
    let args = vlib::Args::from_env();
    match args.positional(0).as_deref() {
        Some("run") => parent::main(&args),
        Some("child") => child::main(&args),
        other => {
            eprintln!("unknown sub-command {other:?}");
            std::process::exit(2);
        }
    }
}
