//! One drop order on the real API (runs in a process of its own).

use core::time::Duration;
use std::io::Write;

use iceoryx2::active_request::ActiveRequest;
use iceoryx2::pending_response::PendingResponse;
use iceoryx2::port::client::Client;
use iceoryx2::port::listener::Listener;
use iceoryx2::port::notifier::Notifier;
use iceoryx2::port::publisher::Publisher;
use iceoryx2::port::reader::{EntryHandle, Reader};
use iceoryx2::port::server::Server;
use iceoryx2::port::subscriber::Subscriber;
use iceoryx2::port::writer::{EntryHandleMut, Writer};
use iceoryx2::prelude::*;
use iceoryx2::response::Response;
use iceoryx2::response_mut::ResponseMut;
use iceoryx2::sample::Sample;
use iceoryx2::sample_mut::SampleMut;
use iceoryx2::service::port_factory::{blackboard, event, publish_subscribe, request_response};
use iceoryx2::waitset::{WaitSet, WaitSetAttachmentId, WaitSetGuard};
use iceoryx2_bb_posix::file_descriptor_set::SynchronousMultiplexing;
use iceoryx2_cal::event::Event;
use iceoryx2_cal::event::event_state::counting_bit_set::RelocatableCountingBitSet;
use vlib::{Args, Value, json};

type Out = (String, i64, i64);

fn emit(v: Value) {
    let mut o = std::io::stdout().lock();
    let _ = writeln!(o, "{v}");
    let _ = o.flush();
}

fn err<E: core::fmt::Debug>(e: E) -> String {
    // `SendError(ConnectionBroken…)` -> innermost variant name
    let s = format!("{e:?}");
    let inner = s.trim_end_matches(')');
    let name = inner.rsplit('(').next().unwrap_or(inner);
    format!("err:{name}")
}

struct Env {
    dup: bool,
    config: Config,
    name: ServiceName,
    root: String,
    tag: String,
    two: bool,
}

trait Graph {
    fn objs(&self) -> Vec<&'static str>;
    fn is_live(&self, o: &str) -> bool;
    fn drop_obj(&mut self, o: &str, how: &str) -> (String, i64);
    fn node_ids(&self) -> Vec<String>;
    fn use_obj(&mut self, o: &str, k: i64) -> Out;
    fn setup_vals(&self) -> Vec<i64>;
}

fn make_node<S: Service>(env: &Env) -> Node<S> {
    NodeBuilder::new()
        .config(&env.config)
        .signal_handling_mode(SignalHandlingMode::Disabled)
        .create::<S>()
        .expect("node")
}

fn use_node<S: Service>(n: &Node<S>) -> Out {
    // touches the shared node state: id, name, configuration
    let ok = n.id().value() != 0 && n.name().as_bytes().len() < 256 && !n.config().global.prefix.as_bytes().is_empty();
    (if ok { "ok".into() } else { "err:NodeStateCorrupted".into() }, 0, 0)
}

fn nid<S: Service>(n: &Option<Node<S>>) -> Vec<String> {
    n.iter().map(|n| format!("{}", n.id().value())).collect()
}

fn use_handle<F: iceoryx2::service::port_factory::PortFactory>(f: &F) -> Out {
    let mut cnt = 0;
    let _ = f.name();
    match f.nodes(|_| {
        cnt += 1;
        CallbackProgression::Continue
    }) {
        Ok(()) => ("ok".into(), 0, cnt),
        Err(e) => (err(e), 0, 0),
    }
}

macro_rules! live {
    ($self:ident, $o:ident, $( $name:literal => $field:ident ),* ) => {
        match $o { $( $name => $self.$field.is_some(), )* _ => false }
    };
}

// ------------------------------------------------------------------------------------------
struct PubSub<S: Service> {
    n1: Option<Node<S>>,
    n2: Option<Node<S>>,
    s1: Option<publish_subscribe::PortFactory<S, u64, ()>>,
    s2: Option<publish_subscribe::PortFactory<S, u64, ()>>,
    p: Option<Publisher<S, u64, ()>>,
    u: Option<Subscriber<S, u64, ()>>,
    lm: Option<SampleMut<S, u64, ()>>,
    rs: Option<Sample<S, u64, ()>>,
    two: bool,
    dup: bool,
}

fn pubsub_create<S: Service>(n: &Node<S>, name: &ServiceName, open: bool) -> Result<publish_subscribe::PortFactory<S, u64, ()>, String> {
    let b = n
        .service_builder(name)
        .publish_subscribe::<u64>()
        .subscriber_max_buffer_size(16)
        .subscriber_max_borrowed_samples(4)
        .history_size(0)
        .enable_safe_overflow(true);
    if open { b.open().map_err(err) } else { b.create().map_err(err) }
}

impl<S: Service> PubSub<S> {
    fn build(env: &Env) -> Self {
        let n1 = make_node::<S>(env);
        let n2 = if env.two { Some(make_node::<S>(env)) } else { None };
        let s1 = pubsub_create(&n1, &env.name, false).expect("create");
        let s2 = if env.dup {
            Some(pubsub_create(&n1, &env.name, true).expect("open (same node)"))
        } else {
            n2.as_ref().map(|n| pubsub_create(n, &env.name, true).expect("open"))
        };
        let p = s1.publisher_builder().max_loaned_samples(4).create().expect("publisher");
        let u = s2.as_ref().unwrap_or(&s1).subscriber_builder().create().expect("subscriber");
        p.send_copy(11).expect("send");
        p.send_copy(12).expect("send");
        let rs = u.receive().expect("receive").expect("sample");
        assert_eq!(*rs.payload(), 11);
        let mut lm = p.loan().expect("loan");
        *lm.payload_mut() = 77;
        PubSub { n1: Some(n1), n2, s1: Some(s1), s2, p: Some(p), u: Some(u), lm: Some(lm), rs: Some(rs), two: env.two, dup: env.dup }
    }
}

impl<S: Service> Graph for PubSub<S> {
    fn objs(&self) -> Vec<&'static str> {
        if self.two {
            vec!["N1", "N2", "S1", "S2", "P", "U", "LM", "RS"]
        } else if self.dup {
            vec!["N1", "S1", "S2", "P", "U", "LM", "RS"]
        } else {
            vec!["N1", "S1", "P", "U", "LM", "RS"]
        }
    }
    fn setup_vals(&self) -> Vec<i64> {
        vec![11, 12]
    }
    fn node_ids(&self) -> Vec<String> {
        let mut v = nid(&self.n1);
        v.extend(nid(&self.n2));
        v
    }
    fn is_live(&self, o: &str) -> bool {
        live!(self, o, "N1" => n1, "N2" => n2, "S1" => s1, "S2" => s2, "P" => p, "U" => u, "LM" => lm, "RS" => rs)
    }
    fn drop_obj(&mut self, o: &str, how: &str) -> (String, i64) {
        match o {
            "N1" => drop(self.n1.take()),
            "N2" => drop(self.n2.take()),
            "S1" => drop(self.s1.take()),
            "S2" => drop(self.s2.take()),
            "P" => drop(self.p.take()),
            "U" => drop(self.u.take()),
            "RS" => drop(self.rs.take()),
            "LM" => {
                let lm = self.lm.take().unwrap();
                if how == "send" {
                    let v = *lm.payload() as i64;
                    return match lm.send() {
                        Ok(_) => ("ok".into(), v),
                        Err(e) => (err(e), v),
                    };
                }
                drop(lm);
            }
            _ => return ("err:unknown".into(), 0),
        }
        ("ok".into(), 0)
    }
    fn use_obj(&mut self, o: &str, k: i64) -> Out {
        match o {
            "N1" => use_node(self.n1.as_ref().unwrap()),
            "N2" => use_node(self.n2.as_ref().unwrap()),
            "S1" => use_handle(self.s1.as_ref().unwrap()),
            "S2" => use_handle(self.s2.as_ref().unwrap()),
            "P" => match self.p.as_ref().unwrap().send_copy(100 + k as u64) {
                Ok(_) => ("ok".into(), 100 + k, 0),
                Err(e) => (err(e), 0, 0),
            },
            "U" => match self.u.as_ref().unwrap().receive() {
                Ok(None) => ("none".into(), 0, 0),
                Ok(Some(s)) => ("some".into(), *s.payload() as i64, 0),
                Err(e) => (err(e), 0, 0),
            },
            "LM" => {
                let lm = self.lm.as_mut().unwrap();
                *lm.payload_mut() = 78;
                ("ok".into(), *lm.payload() as i64, 78)
            }
            "RS" => ("some".into(), *self.rs.as_ref().unwrap().payload() as i64, 11),
            _ => ("err:unknown".into(), 0, 0),
        }
    }
}

// ------------------------------------------------------------------------------------------
struct Ev<S: Service + 'static>
where
    <S::Event as Event<RelocatableCountingBitSet>>::Listener: SynchronousMultiplexing,
{
    n1: Option<Node<S>>,
    n2: Option<Node<S>>,
    s1: Option<event::PortFactory<S>>,
    s2: Option<event::PortFactory<S>>,
    no: Option<Notifier<S>>,
    li: Option<Box<Listener<S>>>,
    ws: Option<Box<WaitSet<S>>>,
    g: Option<WaitSetGuard<'static, 'static, S>>,
    two: bool,
}

impl<S: Service + 'static> Ev<S>
where
    <S::Event as Event<RelocatableCountingBitSet>>::Listener: SynchronousMultiplexing,
{
    fn build(env: &Env) -> Self {
        let n1 = make_node::<S>(env);
        let n2 = if env.two { Some(make_node::<S>(env)) } else { None };
        let s1 = n1.service_builder(&env.name).event().create().expect("create");
        let s2 = n2.as_ref().map(|n| n.service_builder(&env.name).event().open().expect("open"));
        let no = s1.notifier_builder().create().expect("notifier");
        let li = Box::new(s2.as_ref().unwrap_or(&s1).listener_builder().create().expect("listener"));
        let ws = Box::new(
            WaitSetBuilder::new()
                .signal_handling_mode(SignalHandlingMode::Disabled)
                .create::<S>()
                .expect("waitset"),
        );
        // the guard borrows the listener and the wait set; the drop orders executed respect the
        // borrow (DropOrder.tla `Borrows`), the boxes never move
        let li_ref: &'static Listener<S> = unsafe { &*(&*li as *const Listener<S>) };
        let ws_ref: &'static WaitSet<S> = unsafe { &*(&*ws as *const WaitSet<S>) };
        let g = ws_ref.attach_notification(li_ref).expect("attach");
        no.notify().expect("notify");
        Ev { n1: Some(n1), n2, s1: Some(s1), s2, no: Some(no), li: Some(li), ws: Some(ws), g: Some(g), two: env.two }
    }
}

impl<S: Service + 'static> Graph for Ev<S>
where
    <S::Event as Event<RelocatableCountingBitSet>>::Listener: SynchronousMultiplexing,
{
    fn objs(&self) -> Vec<&'static str> {
        if self.two { vec!["N1", "N2", "S1", "S2", "NO", "LI", "WS", "G"] } else { vec!["N1", "S1", "NO", "LI", "WS", "G"] }
    }
    fn setup_vals(&self) -> Vec<i64> {
        vec![0]
    }
    fn node_ids(&self) -> Vec<String> {
        let mut v = nid(&self.n1);
        v.extend(nid(&self.n2));
        v
    }
    fn is_live(&self, o: &str) -> bool {
        live!(self, o, "N1" => n1, "N2" => n2, "S1" => s1, "S2" => s2, "NO" => no, "LI" => li, "WS" => ws, "G" => g)
    }
    fn drop_obj(&mut self, o: &str, _how: &str) -> (String, i64) {
        match o {
            "N1" => drop(self.n1.take()),
            "N2" => drop(self.n2.take()),
            "S1" => drop(self.s1.take()),
            "S2" => drop(self.s2.take()),
            "NO" => drop(self.no.take()),
            "G" => drop(self.g.take()),
            "LI" => {
                if self.g.is_some() {
                    return ("err:borrowed".into(), 0);
                }
                drop(self.li.take())
            }
            "WS" => {
                if self.g.is_some() {
                    return ("err:borrowed".into(), 0);
                }
                drop(self.ws.take())
            }
            _ => return ("err:unknown".into(), 0),
        }
        ("ok".into(), 0)
    }
    fn use_obj(&mut self, o: &str, _k: i64) -> Out {
        match o {
            "N1" => use_node(self.n1.as_ref().unwrap()),
            "N2" => use_node(self.n2.as_ref().unwrap()),
            "S1" => use_handle(self.s1.as_ref().unwrap()),
            "S2" => use_handle(self.s2.as_ref().unwrap()),
            "NO" => match self.no.as_ref().unwrap().notify() {
                Ok(_) => ("ok".into(), 0, 0),
                Err(e) => (err(e), 0, 0),
            },
            "LI" => match self.li.as_ref().unwrap().try_wait(|_| {}) {
                Ok(0) => ("none".into(), 0, 0),
                Ok(_) => ("some".into(), 0, 0),
                Err(e) => (err(e), 0, 0),
            },
            "WS" => {
                let mut n = 0;
                let r = self.ws.as_ref().unwrap().wait_and_process_once_with_timeout(
                    |_| {
                        n += 1;
                        CallbackProgression::Continue
                    },
                    Duration::ZERO,
                );
                match r {
                    Ok(v) => (format!("{v:?}"), 0, n),
                    Err(e) => (format!("{e:?}"), 0, n),
                }
            }
            "G" => {
                let g = self.g.as_ref().unwrap();
                let id = WaitSetAttachmentId::from_guard(g);
                if id.has_event_from(g) && !id.has_missed_deadline(g) {
                    ("ok".into(), 0, 0)
                } else {
                    ("err:GuardIdMismatch".into(), 0, 0)
                }
            }
            _ => ("err:unknown".into(), 0, 0),
        }
    }
}

// ------------------------------------------------------------------------------------------
type RR<S> = request_response::PortFactory<S, u64, (), u64, ()>;

struct ReqRes<S: Service> {
    n1: Option<Node<S>>,
    n2: Option<Node<S>>,
    s1: Option<RR<S>>,
    s2: Option<RR<S>>,
    c: Option<Client<S, u64, (), u64, ()>>,
    v: Option<Server<S, u64, (), u64, ()>>,
    pr: Option<PendingResponse<S, u64, (), u64, ()>>,
    ar: Option<ActiveRequest<S, u64, (), u64, ()>>,
    rsp: Option<Response<S, u64, ()>>,
    lr: Option<ResponseMut<S, u64, ()>>,
    two: bool,
}

fn reqres_create<S: Service>(n: &Node<S>, name: &ServiceName, open: bool) -> Result<RR<S>, String> {
    let b = n
        .service_builder(name)
        .request_response::<u64, u64>()
        .max_active_requests_per_client(8)
        .max_response_buffer_size(16)
        .max_borrowed_responses_per_pending_response(4)
        .enable_safe_overflow_for_requests(true)
        .enable_safe_overflow_for_responses(true);
    if open { b.open().map_err(err) } else { b.create().map_err(err) }
}

impl<S: Service> ReqRes<S> {
    fn build(env: &Env) -> Self {
        let n1 = make_node::<S>(env);
        let n2 = if env.two { Some(make_node::<S>(env)) } else { None };
        let s1 = reqres_create(&n1, &env.name, false).expect("create");
        let s2 = n2.as_ref().map(|n| reqres_create(n, &env.name, true).expect("open"));
        let c = s1.client_builder().create().expect("client");
        let v = s2.as_ref().unwrap_or(&s1).server_builder().max_loaned_responses_per_request(4).create().expect("server");
        let pr = c.send_copy(5).expect("request");
        let ar = v.receive().expect("receive").expect("active request");
        assert_eq!(*ar.payload(), 5);
        ar.send_copy(50).expect("response");
        let (rsp, lr) = if env.two {
            (None, None)
        } else {
            let rsp = pr.receive().expect("receive response").expect("response");
            assert_eq!(*rsp.payload(), 50);
            let lr = ar.loan_uninit().expect("loan response").write_payload(51);
            (Some(rsp), Some(lr))
        };
        ReqRes { n1: Some(n1), n2, s1: Some(s1), s2, c: Some(c), v: Some(v), pr: Some(pr), ar: Some(ar), rsp, lr, two: env.two }
    }
}

impl<S: Service> Graph for ReqRes<S> {
    fn objs(&self) -> Vec<&'static str> {
        if self.two { vec!["N1", "N2", "S1", "S2", "C", "V", "PR", "AR"] } else { vec!["N1", "S1", "C", "V", "PR", "AR", "RSP", "LR"] }
    }
    fn setup_vals(&self) -> Vec<i64> {
        vec![5, 50]
    }
    fn node_ids(&self) -> Vec<String> {
        let mut v = nid(&self.n1);
        v.extend(nid(&self.n2));
        v
    }
    fn is_live(&self, o: &str) -> bool {
        live!(self, o, "N1" => n1, "N2" => n2, "S1" => s1, "S2" => s2, "C" => c, "V" => v, "PR" => pr, "AR" => ar, "RSP" => rsp, "LR" => lr)
    }
    fn drop_obj(&mut self, o: &str, how: &str) -> (String, i64) {
        match o {
            "N1" => drop(self.n1.take()),
            "N2" => drop(self.n2.take()),
            "S1" => drop(self.s1.take()),
            "S2" => drop(self.s2.take()),
            "C" => drop(self.c.take()),
            "V" => drop(self.v.take()),
            "PR" => drop(self.pr.take()),
            "AR" => drop(self.ar.take()),
            "RSP" => drop(self.rsp.take()),
            "LR" => {
                let lr = self.lr.take().unwrap();
                if how == "send" {
                    let v = *lr.payload() as i64;
                    return match lr.send() {
                        Ok(_) => ("ok".into(), v),
                        Err(e) => (err(e), v),
                    };
                }
                drop(lr);
            }
            _ => return ("err:unknown".into(), 0),
        }
        ("ok".into(), 0)
    }
    fn use_obj(&mut self, o: &str, k: i64) -> Out {
        match o {
            "N1" => use_node(self.n1.as_ref().unwrap()),
            "N2" => use_node(self.n2.as_ref().unwrap()),
            "S1" => use_handle(self.s1.as_ref().unwrap()),
            "S2" => use_handle(self.s2.as_ref().unwrap()),
            "C" => match self.c.as_ref().unwrap().send_copy(200 + k as u64) {
                Ok(pr) => {
                    drop(pr);
                    ("ok".into(), 200 + k, 0)
                }
                Err(e) => (err(e), 0, 0),
            },
            "V" => match self.v.as_ref().unwrap().receive() {
                Ok(None) => ("none".into(), 0, 0),
                Ok(Some(ar)) => ("some".into(), *ar.payload() as i64, 0),
                Err(e) => (err(e), 0, 0),
            },
            "PR" => match self.pr.as_ref().unwrap().receive() {
                Ok(None) => ("none".into(), 0, 0),
                Ok(Some(r)) => ("some".into(), *r.payload() as i64, 0),
                Err(e) => (err(e), 0, 0),
            },
            "AR" => match self.ar.as_ref().unwrap().send_copy(300 + k as u64) {
                Ok(()) => ("ok".into(), 300 + k, 0),
                Err(e) => (err(e), 0, 0),
            },
            "RSP" => ("some".into(), *self.rsp.as_ref().unwrap().payload() as i64, 50),
            "LR" => {
                let lr = self.lr.as_mut().unwrap();
                *lr.payload_mut() = 52;
                ("ok".into(), *lr.payload() as i64, 52)
            }
            _ => ("err:unknown".into(), 0, 0),
        }
    }
}

// ------------------------------------------------------------------------------------------
struct Bb<S: Service> {
    n1: Option<Node<S>>,
    n2: Option<Node<S>>,
    s1: Option<blackboard::PortFactory<S, u64>>,
    s2: Option<blackboard::PortFactory<S, u64>>,
    w: Option<Writer<S, u64>>,
    r: Option<Reader<S, u64>>,
    em: Option<EntryHandleMut<S, u64, u64>>,
    eh: Option<EntryHandle<S, u64, u64>>,
    two: bool,
}

fn bb_create<S: Service>(n: &Node<S>, name: &ServiceName) -> Result<blackboard::PortFactory<S, u64>, String> {
    n.service_builder(name)
        .blackboard_creator::<u64>()
        .add::<u64>(1, 10)
        .add::<u64>(2, 20)
        .create()
        .map_err(err)
}

impl<S: Service> Bb<S> {
    fn build(env: &Env) -> Self {
        let n1 = make_node::<S>(env);
        let n2 = if env.two { Some(make_node::<S>(env)) } else { None };
        let s1 = bb_create(&n1, &env.name).expect("create");
        let s2 = n2.as_ref().map(|n| n.service_builder(&env.name).blackboard_opener::<u64>().open().expect("open"));
        let w = s1.writer_builder().create().expect("writer");
        let r = s2.as_ref().unwrap_or(&s1).reader_builder().create().expect("reader");
        let em = w.entry::<u64>(&1).expect("entry mut");
        let eh = r.entry::<u64>(&1).expect("entry");
        Bb { n1: Some(n1), n2, s1: Some(s1), s2, w: Some(w), r: Some(r), em: Some(em), eh: Some(eh), two: env.two }
    }
}

impl<S: Service> Graph for Bb<S> {
    fn objs(&self) -> Vec<&'static str> {
        if self.two { vec!["N1", "N2", "S1", "S2", "W", "R", "EM", "EH"] } else { vec!["N1", "S1", "W", "R", "EM", "EH"] }
    }
    fn setup_vals(&self) -> Vec<i64> {
        vec![10, 20]
    }
    fn node_ids(&self) -> Vec<String> {
        let mut v = nid(&self.n1);
        v.extend(nid(&self.n2));
        v
    }
    fn is_live(&self, o: &str) -> bool {
        live!(self, o, "N1" => n1, "N2" => n2, "S1" => s1, "S2" => s2, "W" => w, "R" => r, "EM" => em, "EH" => eh)
    }
    fn drop_obj(&mut self, o: &str, _how: &str) -> (String, i64) {
        match o {
            "N1" => drop(self.n1.take()),
            "N2" => drop(self.n2.take()),
            "S1" => drop(self.s1.take()),
            "S2" => drop(self.s2.take()),
            "W" => drop(self.w.take()),
            "R" => drop(self.r.take()),
            "EM" => drop(self.em.take()),
            "EH" => drop(self.eh.take()),
            _ => return ("err:unknown".into(), 0),
        }
        ("ok".into(), 0)
    }
    fn use_obj(&mut self, o: &str, k: i64) -> Out {
        match o {
            "N1" => use_node(self.n1.as_ref().unwrap()),
            "N2" => use_node(self.n2.as_ref().unwrap()),
            "S1" => use_handle(self.s1.as_ref().unwrap()),
            "S2" => use_handle(self.s2.as_ref().unwrap()),
            "W" => match self.w.as_ref().unwrap().entry::<u64>(&2) {
                Ok(h) => {
                    h.update_with_copy(400 + k as u64);
                    ("ok".into(), 400 + k, 0)
                }
                Err(e) => (err(e), 0, 0),
            },
            "R" => match self.r.as_ref().unwrap().entry::<u64>(&2) {
                Ok(h) => ("some".into(), *h.get() as i64, 0),
                Err(e) => (err(e), 0, 0),
            },
            "EM" => {
                self.em.as_ref().unwrap().update_with_copy(500 + k as u64);
                ("ok".into(), 500 + k, 0)
            }
            "EH" => ("some".into(), *self.eh.as_ref().unwrap().get() as i64, 0),
            _ => ("err:unknown".into(), 0, 0),
        }
    }
}

// ------------------------------------------------------------------------------------------
fn count_nodes<S: Service>(config: &Config) -> i64 {
    let mut n = 0;
    match Node::<S>::list(config, |_| {
        n += 1;
        CallbackProgression::Continue
    }) {
        Ok(()) => n,
        Err(_) => -1,
    }
}

fn svc_exists<S: Service>(env: &Env, mp: MessagingPattern) -> i64 {
    match S::does_exist(&env.name, &env.config, mp) {
        Ok(true) => 1,
        Ok(false) => 0,
        Err(_) => 2,
    }
}

/// Everything below the root path and every /dev/shm entry carrying the run's prefix that is not
/// documented to persist per domain: the two domain-wide directories (config.global.node.directory,
/// config.global.service.directory) and the global management segment (suffix
/// config.global.node.global_mgmt_suffix, GlobalManagementSegment is created with
/// has_ownership(false)).
fn leftovers(env: &Env) -> Vec<String> {
    let mut out = vec![];
    let allowed_dirs = [
        format!("{}", env.config.global.node.directory),
        format!("{}", env.config.global.service.directory),
    ];
    fn walk(dir: &std::path::Path, rel: &str, allowed: &[String], out: &mut Vec<String>) {
        if let Ok(rd) = std::fs::read_dir(dir) {
            for e in rd.flatten() {
                let name = e.file_name().to_string_lossy().to_string();
                let r = if rel.is_empty() { name.clone() } else { format!("{rel}/{name}") };
                let is_dir = e.file_type().map(|t| t.is_dir()).unwrap_or(false);
                if is_dir {
                    if !(rel.is_empty() && allowed.contains(&name)) {
                        out.push(format!("dir:{r}"));
                    }
                    walk(&e.path(), &r, allowed, out);
                } else {
                    out.push(format!("file:{r}"));
                }
            }
        }
    }
    walk(std::path::Path::new(&env.root), "", &allowed_dirs, &mut out);
    let mgmt = format!("{}", env.config.global.node.global_mgmt_suffix);
    if let Ok(rd) = std::fs::read_dir("/dev/shm") {
        for e in rd.flatten() {
            let name = e.file_name().to_string_lossy().to_string();
            if name.starts_with(&env.tag) && !name.ends_with(&mgmt) {
                out.push(format!("shm:{name}"));
            }
        }
    }
    out.sort();
    out
}

fn run<S: Service, G: Graph>(env: &Env, pat: &str, var: &str, mp: MessagingPattern, order: &[(String, String)],
                             build: impl FnOnce(&Env) -> G, recreate: impl FnOnce(&Env) -> String) {
    let mut g = build(env);
    emit(json!({"k":"reset","pat":pat,"var":var,"objs":g.objs(),"nodeids":g.node_ids()}));
    emit(json!({"k":"op","a":"setup","vals":g.setup_vals()}));
    for (i, (o, how)) in order.iter().enumerate() {
        if !g.is_live(o) {
            continue;
        }
        let (r, v) = g.drop_obj(o, how);
        emit(json!({"k":"op","a":"drop","o":o,"how":how,"r":r,"v":v}));
        emit(json!({"k":"op","a":"obs","nodes":count_nodes::<S>(&env.config),"svc":svc_exists::<S>(env, mp)}));
        for s in g.objs() {
            if g.is_live(s) {
                let (r, v, n) = g.use_obj(s, i as i64);
                emit(json!({"k":"op","a":"use","o":s,"r":r,"v":v,"n":n}));
            }
        }
    }
    let all_dropped = g.objs().iter().all(|o| !g.is_live(o));
    if !all_dropped {
        return;
    }
    drop(g);
    let nodes = count_nodes::<S>(&env.config);
    let svc = svc_exists::<S>(env, mp);
    let mut left = leftovers(env);
    let rec = recreate(env);
    left.extend(leftovers(env).into_iter().map(|s| format!("after-recreate:{s}")));
    emit(json!({"k":"op","a":"final","nodes":nodes,"svc":svc,"left":left.len(),"names":left,"recreate":rec}));
}

fn recreate_with<S: Service, T>(env: &Env, f: impl FnOnce(&Node<S>, &ServiceName) -> Result<T, String>) -> String {
    let n = make_node::<S>(env);
    match f(&n, &env.name) {
        Ok(s) => {
            drop(s);
            drop(n);
            "ok".into()
        }
        Err(e) => e,
    }
}

fn dispatch<S: Service + 'static>(env: &Env, pat: &str, var: &str, order: &[(String, String)])
where
    <S::Event as Event<RelocatableCountingBitSet>>::Listener: SynchronousMultiplexing,
{
    match pat {
        "pubsub6" | "pubsub7" | "pubsub8" => run::<S, _>(env, pat, var, MessagingPattern::PublishSubscribe, order, PubSub::<S>::build,
            |e| recreate_with::<S, _>(e, |n, name| pubsub_create(n, name, false))),
        "event6" | "event8" => run::<S, _>(env, pat, var, MessagingPattern::Event, order, Ev::<S>::build,
            |e| recreate_with::<S, _>(e, |n, name| n.service_builder(name).event().create().map_err(err))),
        "reqres8" | "reqres8n" => run::<S, _>(env, pat, var, MessagingPattern::RequestResponse, order, ReqRes::<S>::build,
            |e| recreate_with::<S, _>(e, |n, name| reqres_create(n, name, false))),
        "bb6" | "bb8" => run::<S, _>(env, pat, var, MessagingPattern::Blackboard, order, Bb::<S>::build,
            |e| recreate_with::<S, _>(e, |n, name| bb_create(n, name))),
        _ => {
            eprintln!("unknown pattern {pat}");
            std::process::exit(2);
        }
    }
}

fn run_item(pat: &str, var: &str, order_s: &str, root: String, tag: String) {
    let order: Vec<(String, String)> = order_s
        .split(',')
        .filter(|s| !s.is_empty())
        .map(|s| {
            let mut it = s.split(':');
            (it.next().unwrap_or("").to_string(), it.next().unwrap_or("drop").to_string())
        })
        .collect();
    let _ = std::fs::create_dir_all(&root);
    let mut config = Config::default();
    config.global.prefix = FileName::new(tag.as_bytes()).expect("prefix");
    config.global.set_root_path(&Path::new(root.as_bytes()).expect("root"));
    let env = Env {
        config,
        name: "verif/droporder".try_into().expect("service name"),
        root,
        tag,
        two: matches!(pat, "pubsub8" | "event8" | "reqres8n" | "bb8"),
        dup: pat == "pubsub7",
    };
    match var {
        "ipc" => dispatch::<ipc::Service>(&env, pat, var, &order),
        "local" => dispatch::<local::Service>(&env, pat, var, &order),
        "ipc_threadsafe" => dispatch::<ipc_threadsafe::Service>(&env, pat, var, &order),
        "local_threadsafe" => dispatch::<local_threadsafe::Service>(&env, pat, var, &order),
        _ => {
            eprintln!("unknown variant {var}");
            std::process::exit(2);
        }
    }
}

pub fn main(args: &Args) {
    set_log_level(LogLevel::Fatal);
    if let Some(b) = args.get("batch") {
        // several orders, one after the other, each in a domain of its own; `begin` / `done` tell the
        // parent which order a crash or hang belongs to
        for item in vlib::trace::read_ndjson(&b) {
            let s = |k: &str| item[k].as_str().unwrap_or("").to_string();
            emit(json!({"k":"begin","i":item["i"]}));
            run_item(&s("pat"), &s("var"), &s("order"), s("root"), s("tag"));
            emit(json!({"k":"done","i":item["i"]}));
        }
        return;
    }
    run_item(
        &args.get_or("pat", "pubsub6"),
        &args.get_or("var", "ipc"),
        &args.get_or("order", ""),
        args.get_or("root", "/tmp/verif-droporder/x"),
        args.get_or("tag", "vdo_x_"),
    );
}
