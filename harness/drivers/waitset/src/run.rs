//! Program execution on the real WaitSet and trace recording.

use core::time::Duration;
use std::cell::{Cell, RefCell};

use iceoryx2::prelude::*;
use iceoryx2::waitset::{WaitSet, WaitSetAttachmentError, WaitSetGuard};
use iceoryx2_bb_posix::file_descriptor_set::SynchronousMultiplexing;
use iceoryx2_cal::event::Event;
use iceoryx2_cal::event::event_state::counting_bit_set::RelocatableCountingBitSet;
use vlib::rng::Rng;
use vlib::{Args, Value, json};

use crate::world::{ListenerObjs, Objs, SelService, SockObjs};

const SHORT: Duration = Duration::from_nanos(1);
const LONG: Duration = Duration::from_secs(3600);
const SETTLE: Duration = Duration::from_micros(300);
/// "mid" duration class of interval attachments (scripted timed programs only) and a sleep of more than 1.5 periods:
/// after such a sleep at least one period boundary lies between two examinations of the deadlines, whatever the
/// scheduling delays were (no verdict depends on how long anything really took beyond "at least")
const MID: Duration = Duration::from_millis(120);
const MIDSLEEP: Duration = Duration::from_millis(200);
const FD_SETSIZE: usize = 1024;

#[derive(Clone, Debug)]
pub struct Program {
    nl: usize,
    ng: usize,
    cap: usize,
    nsvc: usize,
    steps: Vec<Value>,
    random: Option<(u64, usize)>,
}

#[derive(Default)]
struct Stats {
    programs: u64,
    ops: std::collections::BTreeMap<String, u64>,
    refused: std::collections::BTreeMap<String, u64>,
    callbacks: u64,
    inject: u64,
    stops: u64,
    reattach_same_fd: u64,
    recreate_same_fd: u64,
    skipped: u64,
    residue_observable: bool,
    panics: u64,
}

impl Stats {
    fn op(&mut self, a: &str) {
        *self.ops.entry(a.to_string()).or_insert(0) += 1;
    }
}

trait Sink {
    fn emit(&mut self, v: Value);
}

struct FileSink(vlib::trace::TraceWriter);
impl Sink for FileSink {
    fn emit(&mut self, v: Value) {
        self.0.emit(&v)
    }
}

/// selfd: no descriptor may be opened while the sockets occupy 0..1023 - buffer in memory
struct MemSink(Vec<Value>);
impl Sink for MemSink {
    fn emit(&mut self, v: Value) {
        self.0.push(v)
    }
}

fn attach_err(e: WaitSetAttachmentError) -> &'static str {
    match e {
        WaitSetAttachmentError::InsufficientCapacity => "InsufficientCapacity",
        WaitSetAttachmentError::AlreadyAttached => "AlreadyAttached",
        WaitSetAttachmentError::InternalError => "InternalError",
        WaitSetAttachmentError::InsufficientResources => "InsufficientResources",
    }
}

/// Number of entries of the two descriptor<->deadline maps as far as the Debug representation of
/// the wait set shows them; -1 if the representation has another shape in this build.
fn residue<S: Service>(ws: &WaitSet<S>) -> i64 {
    let s = format!("{ws:?}");
    let mut total = 0i64;
    for key in ["attachment_to_deadline:", "deadline_to_attachment:"] {
        let Some(p) = s.find(key) else { return -1 };
        let rest = &s[p + key.len()..];
        // skip the cell wrapper up to the opening brace of the map itself: the map is the first
        // brace group that directly contains `k: v` entries or is empty
        let Some(n) = count_map_entries(rest) else { return -1 };
        total += n;
    }
    total
}

/// Parses `RefCell { value: {5: DeadlineQueueIndex(0), 7: …} }` (or `{…}` directly).
fn count_map_entries(s: &str) -> Option<i64> {
    let b = s.as_bytes();
    let mut i = 0;
    // find the first '{' whose preceding non-space token is ':' followed by nothing but the brace,
    // i.e. a map literal (a struct brace is preceded by an identifier)
    loop {
        while i < b.len() && b[i] != b'{' {
            if b[i] == b',' && i > 0 {
                // left the field without finding a map
            }
            i += 1;
        }
        if i >= b.len() {
            return None;
        }
        // look at the previous non-space byte
        let mut j = i;
        while j > 0 && b[j - 1] == b' ' {
            j -= 1;
        }
        if j == 0 || b[j - 1] == b':' {
            break; // `field: {` => map literal
        }
        i += 1; // struct brace, descend
    }
    // count top-level commas of this brace group
    let mut depth = 0i32;
    let mut entries = 0i64;
    let mut nonempty = false;
    let mut k = i;
    while k < b.len() {
        match b[k] {
            b'{' | b'(' | b'[' => depth += 1,
            b'}' | b')' | b']' => {
                depth -= 1;
                if depth == 0 {
                    return Some(if nonempty { entries + 1 } else { 0 });
                }
            }
            b',' if depth == 1 => entries += 1,
            b' ' => {}
            _ if depth == 1 => nonempty = true,
            _ => {}
        }
        k += 1;
    }
    None
}

struct Slot<S: Service + 'static> {
    guard: WaitSetGuard<'static, 'static, S>,
    ty: char,
    l: usize,
    fd: i32,
}

struct Model {
    nl: usize,
    ng: usize,
    occupied: Vec<bool>,
    attached_l: Vec<bool>,
}

/// on-line seeded generator: proposes the next step from what is currently possible
fn random_step(rng: &mut Rng, m: &Model, nsvc: usize, can_recreate: bool) -> Value {
    loop {
        let r = rng.below(100);
        let free: Vec<usize> = (1..=m.ng).filter(|g| !m.occupied[*g - 1]).collect();
        let used: Vec<usize> = (1..=m.ng).filter(|g| m.occupied[*g - 1]).collect();
        let cls = if rng.chance(1, 2) { "s" } else { "l" };
        if r < 30 {
            if free.is_empty() {
                continue;
            }
            let g = *rng.pick(&free);
            let l = rng.range(1, m.nl as u64);
            return match rng.below(3) {
                0 => json!({"a":"attach","g":g,"ty":"n","l":l,"c":"-"}),
                1 => json!({"a":"attach","g":g,"ty":"d","l":l,"c":cls}),
                _ => json!({"a":"attach","g":g,"ty":"i","l":0,"c":cls}),
            };
        } else if r < 45 {
            if used.is_empty() {
                continue;
            }
            return json!({"a":"drop","g":*rng.pick(&used)});
        } else if r < 65 {
            return json!({"a":"notify","s":rng.range(1, nsvc as u64)});
        } else if r < 70 {
            return json!({"a":"drain","l":rng.range(1, m.nl as u64)});
        } else if r < 75 {
            let l = rng.range(1, m.nl as u64) as usize;
            if !can_recreate || m.attached_l[l - 1] {
                continue;
            }
            return json!({"a":"recreate","l":l});
        } else {
            let stop = if rng.chance(1, 4) { rng.range(1, 3) } else { 0 };
            let mut inj = vec![];
            if rng.chance(1, 3) {
                inj.push(json!([rng.range(1, 3), rng.range(1, nsvc as u64)]));
            }
            let tmo = if rng.chance(1, 5) { 1 } else { 0 };
            return json!({"a":"process","stop":stop,"inj":inj,"tmo":tmo});
        }
    }
}

fn u(v: &Value, k: &str) -> usize {
    v.get(k).and_then(|x| x.as_u64()).unwrap_or(0) as usize
}
fn st<'a>(v: &'a Value, k: &str) -> &'a str {
    v.get(k).and_then(|x| x.as_str()).unwrap_or("-")
}

#[allow(clippy::too_many_arguments)]
fn exec<S: Service + 'static, O: Objs>(
    sink: &mut dyn Sink,
    objs: &mut O,
    prog: &Program,
    mode: &str,
    run: u64,
    fill_intervals: usize,
    fill_fds: usize,
    high_fd_listener_from: usize,
    stats: &mut Stats,
) {
    let ws_box = Box::new(
        WaitSetBuilder::new()
            .signal_handling_mode(SignalHandlingMode::Disabled)
            .create::<S>()
            .expect("waitset"),
    );
    let ws_ptr = Box::into_raw(ws_box);
    let ws: &'static WaitSet<S> = unsafe { &*ws_ptr };

    let mut filler_guards: Vec<WaitSetGuard<'static, 'static, S>> = vec![];
    for _ in 0..fill_intervals {
        filler_guards.push(ws.attach_interval(LONG).expect("filler interval"));
    }
    for f in objs.fillers().into_iter().take(fill_fds) {
        filler_guards.push(ws.attach_notification(f).expect("filler descriptor"));
    }
    let nfill = filler_guards.len();
    let svc_of = objs.svc_of();
    let nsvc = *svc_of.iter().max().unwrap_or(&1);
    sink.emit(json!({"k":"reset","svc":mode,"nl":prog.nl,"ng":prog.ng,"cap":prog.cap,"fill":nfill,"sv":svc_of,"run":run}));
    stats.programs += 1;
    if residue(ws) >= 0 {
        stats.residue_observable = true;
    }

    let mut slots: Vec<Option<Slot<S>>> = (0..prog.ng).map(|_| None).collect();
    let mut last_fd_of_l: Vec<i32> = (1..=prog.nl).map(|l| objs.fd(l)).collect();
    let mut detached_fds: Vec<i32> = vec![];
    let mut rng = Rng::new(prog.random.map(|r| r.0).unwrap_or(0));
    let total = prog.random.map(|r| r.1).unwrap_or(prog.steps.len());

    for i in 0..total {
        let step = if prog.random.is_some() {
            let m = Model {
                nl: prog.nl,
                ng: prog.ng,
                occupied: slots.iter().map(|s| s.is_some()).collect(),
                attached_l: (1..=prog.nl)
                    .map(|l| slots.iter().flatten().any(|s| s.ty != 'i' && s.l == l))
                    .collect(),
            };
            random_step(&mut rng, &m, nsvc, mode != "selfd")
        } else {
            prog.steps[i].clone()
        };
        match st(&step, "a") {
            "attach" => {
                let g = u(&step, "g");
                let ty = st(&step, "ty").chars().next().unwrap_or('-');
                let l = u(&step, "l");
                let c = st(&step, "c").to_string();
                if g == 0 || g > prog.ng || slots[g - 1].is_some() || (ty != 'i' && (l == 0 || l > prog.nl)) {
                    stats.skipped += 1;
                    continue;
                }
                if ty != 'i' && l >= high_fd_listener_from {
                    // descriptor >= FD_SETSIZE: FD_SET on it would write out of bounds unless the
                    // reactor refuses first, which it does only when its set is full
                    let fd_attached = nfill - fill_intervals + slots.iter().flatten().filter(|s| s.ty != 'i').count();
                    if fd_attached < FD_SETSIZE {
                        stats.skipped += 1;
                        continue;
                    }
                }
                let d = if c == "s" { SHORT } else if c == "m" { MID } else { LONG };
                let res = match ty {
                    'n' => ws.attach_notification(objs.att(l)),
                    'd' => ws.attach_deadline(objs.att(l), d),
                    _ => ws.attach_interval(d),
                };
                let r = match res {
                    Ok(guard) => {
                        let fd = if ty == 'i' { -1 } else { objs.fd(l) };
                        if fd >= 0 && detached_fds.contains(&fd) {
                            stats.reattach_same_fd += 1;
                        }
                        slots[g - 1] = Some(Slot { guard, ty, l, fd });
                        "ok"
                    }
                    Err(e) => {
                        let n = attach_err(e);
                        *stats.refused.entry(n.to_string()).or_insert(0) += 1;
                        n
                    }
                };
                stats.op(&format!("attach_{ty}"));
                sink.emit(json!({"k":"op","a":"attach","g":g,"ty":ty.to_string(),"l":l,"c":c,"r":r,
                                 "len":ws.len() as i64 - nfill as i64,"m":residue(ws)}));
            }
            "drop" => {
                let g = u(&step, "g");
                if g == 0 || g > prog.ng || slots[g - 1].is_none() {
                    stats.skipped += 1;
                    continue;
                }
                let s = slots[g - 1].take().unwrap();
                if s.fd >= 0 {
                    detached_fds.push(s.fd);
                }
                drop(s);
                stats.op("drop");
                sink.emit(json!({"k":"op","a":"drop","g":g,"len":ws.len() as i64 - nfill as i64,"m":residue(ws)}));
            }
            "notify" => {
                let s = u(&step, "s");
                if s == 0 || s > nsvc {
                    stats.skipped += 1;
                    continue;
                }
                let n = objs.notify(s);
                stats.op("notify");
                sink.emit(json!({"k":"op","a":"notify","s":s,"in":0,"n":n}));
            }
            "drain" => {
                let l = u(&step, "l");
                if l == 0 || l > prog.nl {
                    stats.skipped += 1;
                    continue;
                }
                objs.drain(l);
                stats.op("drain");
                sink.emit(json!({"k":"op","a":"drain","l":l}));
            }
            "recreate" => {
                let l = u(&step, "l");
                if l == 0 || l > prog.nl || slots.iter().flatten().any(|s| s.ty != 'i' && s.l == l) {
                    stats.skipped += 1;
                    continue;
                }
                if !objs.recreate(l) {
                    stats.skipped += 1;
                    continue;
                }
                let fd = objs.fd(l);
                if fd == last_fd_of_l[l - 1] {
                    stats.recreate_same_fd += 1;
                }
                last_fd_of_l[l - 1] = fd;
                stats.op("recreate");
                sink.emit(json!({"k":"op","a":"recreate","l":l}));
            }
            "sleep" => {
                std::thread::sleep(MIDSLEEP);
                stats.op("sleep");
                sink.emit(json!({"k":"op","a":"sleep","in":0}));
            }
            "process" => {
                let stop = u(&step, "stop");
                // sleep inside the slp-th callback (timed programs)
                let slp = u(&step, "slp");
                let inj: Vec<(usize, usize)> = step
                    .get("inj")
                    .and_then(|x| x.as_array())
                    .map(|a| {
                        a.iter()
                            .map(|p| (p[0].as_u64().unwrap_or(0) as usize, p[1].as_u64().unwrap_or(0) as usize))
                            .filter(|(_, s)| *s >= 1 && *s <= nsvc)
                            .collect()
                    })
                    .unwrap_or_default();
                let tmo = u(&step, "tmo") as u64;
                stats.op("process");
                sink.emit(json!({"k":"op","a":"pbegin"}));
                std::thread::sleep(SETTLE);
                let ncb = Cell::new(0usize);
                let stopped = Cell::new(false);
                let ninj = Cell::new(0u64);
                let sink_cell = RefCell::new(&mut *sink);
                let slots_ref = &slots;
                let objs_ref: &O = &*objs;
                let result = ws.wait_and_process_once_with_timeout(
                    |id| {
                        ncb.set(ncb.get() + 1);
                        let mut evs = vec![];
                        let mut dls = vec![];
                        for (gi, s) in slots_ref.iter().enumerate() {
                            if let Some(s) = s {
                                if id.has_event_from(&s.guard) {
                                    evs.push(gi + 1);
                                }
                                if id.has_missed_deadline(&s.guard) {
                                    dls.push(gi + 1);
                                }
                            }
                        }
                        // a filler must never be reported
                        let filler = filler_guards
                            .iter()
                            .any(|g| id.has_event_from(g) || id.has_missed_deadline(g));
                        sink_cell
                            .borrow_mut()
                            .emit(json!({"k":"op","a":"cb","ev":evs,"dl":dls,"filler":if filler {1} else {0}}));
                        for g in &evs {
                            let s = slots_ref[*g - 1].as_ref().unwrap();
                            if s.ty != 'i' {
                                objs_ref.drain(s.l);
                            }
                        }
                        for (j, s) in &inj {
                            if *j == ncb.get() {
                                let n = objs_ref.notify(*s);
                                ninj.set(ninj.get() + 1);
                                sink_cell
                                    .borrow_mut()
                                    .emit(json!({"k":"op","a":"notify","s":*s,"in":1,"n":n}));
                            }
                        }
                        if slp > 0 && ncb.get() == slp {
                            std::thread::sleep(MIDSLEEP);
                            sink_cell.borrow_mut().emit(json!({"k":"op","a":"sleep","in":1}));
                        }
                        if stop > 0 && ncb.get() == stop {
                            stopped.set(true);
                            CallbackProgression::Stop
                        } else {
                            CallbackProgression::Continue
                        }
                    },
                    Duration::from_millis(tmo),
                );
                drop(sink_cell);
                let r = match result {
                    Ok(v) => format!("{v:?}"),
                    Err(e) => format!("{e:?}"),
                };
                stats.callbacks += ncb.get() as u64;
                stats.inject += ninj.get();
                if stopped.get() {
                    stats.stops += 1;
                }
                sink.emit(json!({"k":"op","a":"pend","r":r,"stop":if stopped.get() { stop } else { 0 },"ncb":ncb.get()}));
            }
            _ => {
                stats.skipped += 1;
            }
        }
    }
    // orderly end of the run: guards, then the wait set, (the objects are dropped by the caller)
    slots.clear();
    filler_guards.clear();
    let len_end = ws.len();
    sink.emit(json!({"k":"end","len":len_end,"m":residue(ws)}));
    drop(unsafe { Box::from_raw(ws_ptr) });
}

fn load_programs(args: &Args) -> Vec<Program> {
    let nl = args.num("nl", 3) as usize;
    let ng = args.num("ng", 4) as usize;
    let cap = args.num("cap", 99) as usize;
    let nsvc = args.num("nsvc", 2) as usize;
    if let Some(p) = args.get("programs") {
        vlib::trace::read_ndjson(&p)
            .into_iter()
            .map(|v| Program {
                nl: u(&v, "nl"),
                ng: u(&v, "ng"),
                cap: u(&v, "cap"),
                nsvc: u(&v, "nsvc").max(1),
                steps: v.get("steps").and_then(|s| s.as_array()).cloned().unwrap_or_default(),
                random: None,
            })
            .collect()
    } else {
        let n = args.num("random", 10);
        let steps = args.num("steps", 40) as usize;
        let seed = vlib::seed_from_env();
        (0..n)
            .map(|i| Program {
                nl,
                ng,
                cap,
                nsvc,
                steps: vec![],
                random: Some((seed.wrapping_mul(1_000_003).wrapping_add(i), steps)),
            })
            .collect()
    }
}

fn run_listeners<S: Service + 'static>(args: &Args, mode: &str, programs: &[Program], stats: &mut Stats)
where
    <S::Event as Event<RelocatableCountingBitSet>>::Listener: SynchronousMultiplexing,
{
    let root = args.get_or("root", "/tmp/verif-waitset");
    let tag = args.get_or("tag", "vws_");
    let out = args.get("out").expect("--out");
    let _ = std::fs::create_dir_all(&root);
    let mut sink = FileSink(vlib::trace::TraceWriter::create(&out));
    for (i, p) in programs.iter().enumerate() {
        let mut objs = ListenerObjs::<S>::new(&root, &tag, i as u64, p.nl, p.nsvc.min(p.nl));
        let fill = if mode == "sel" { FD_SETSIZE - p.cap } else { 0 };
        let res = std::panic::catch_unwind(std::panic::AssertUnwindSafe(|| {
            exec::<S, _>(&mut sink, &mut objs, p, mode, i as u64, fill, 0, usize::MAX, stats);
        }));
        if let Err(e) = res {
            let msg = e
                .downcast_ref::<String>()
                .cloned()
                .or_else(|| e.downcast_ref::<&str>().map(|s| s.to_string()))
                .unwrap_or_default();
            sink.emit(json!({"k":"op","a":"panic","msg":msg}));
            stats.panics += 1;
            // the objects of the run are in an unknown state: leak them and stop
            std::mem::forget(objs);
            break;
        }
    }
    sink.0.flush();
}

#[cfg(target_os = "linux")]
mod fdmove {
    unsafe extern "C" {
        fn fcntl(fd: i32, cmd: i32, arg: i32) -> i32;
        fn close(fd: i32) -> i32;
        fn dup2(old: i32, new: i32) -> i32;
    }
    const F_DUPFD: i32 = 0;
    const BASE: i32 = 1100;

    /// moves descriptors 0, 1, 2 above FD_SETSIZE; returns false if that is not possible
    pub fn move_stdio_up() -> bool {
        for fd in 0..3 {
            if unsafe { fcntl(fd, F_DUPFD, BASE + fd) } != BASE + fd {
                return false;
            }
        }
        for fd in 0..3 {
            unsafe { close(fd) };
        }
        true
    }
    pub fn restore_stdio() {
        for fd in 0..3 {
            unsafe {
                dup2(BASE + fd, fd);
                close(BASE + fd);
            }
        }
    }
    pub fn low_descriptors_free() -> bool {
        const F_GETFD: i32 = 1;
        (0..1024).all(|fd| unsafe { fcntl(fd, F_GETFD, 0) } < 0)
    }
}

fn run_selfd(args: &Args, programs: &[Program], stats: &mut Stats) -> Result<(), String> {
    let out = args.get("out").expect("--out");
    let mut sink = MemSink(vec![]);
    if !fdmove::move_stdio_up() {
        return Err("cannot move stdio above FD_SETSIZE".into());
    }
    std::panic::set_hook(Box::new(|_| {}));
    let mut result = Ok(());
    if !fdmove::low_descriptors_free() {
        result = Err("descriptors below 1024 are in use".to_string());
    }
    if result.is_ok() {
        for (i, p) in programs.iter().enumerate() {
            match SockObjs::new(p.nl) {
                Ok(mut objs) => {
                    let low = objs.max_low_fd_listener();
                    if p.cap < low {
                        result = Err("cap must be >= number of low descriptor listeners".into());
                        break;
                    }
                    let res = std::panic::catch_unwind(std::panic::AssertUnwindSafe(|| {
                        exec::<SelService, _>(&mut sink, &mut objs, p, "selfd", i as u64, 0, FD_SETSIZE - p.cap, low + 1, stats);
                    }));
                    if let Err(e) = res {
                        let msg = e
                            .downcast_ref::<String>()
                            .cloned()
                            .or_else(|| e.downcast_ref::<&str>().map(|s| s.to_string()))
                            .unwrap_or_default();
                        sink.emit(json!({"k":"op","a":"panic","msg":msg}));
                        stats.panics += 1;
                        std::mem::forget(objs);
                        break;
                    }
                }
                Err(e) => {
                    result = Err(e);
                    break;
                }
            }
        }
    }
    fdmove::restore_stdio();
    let mut tw = vlib::trace::TraceWriter::create(&out);
    for v in &sink.0 {
        tw.emit(v);
    }
    tw.flush();
    result
}

pub fn main(args: &Args) {
    set_log_level(LogLevel::Fatal);
    let mode = args.get_or("mode", "ipc");
    let programs = load_programs(args);
    let mut stats = Stats::default();
    let mut note = String::new();
    match mode.as_str() {
        "ipc" => run_listeners::<ipc::Service>(args, &mode, &programs, &mut stats),
        "local" => run_listeners::<local::Service>(args, &mode, &programs, &mut stats),
        "sel" => run_listeners::<SelService>(args, &mode, &programs, &mut stats),
        "selfd" => {
            if let Err(e) = run_selfd(args, &programs, &mut stats) {
                note = e;
            }
        }
        other => {
            eprintln!("unknown mode {other}");
            std::process::exit(2);
        }
    }
    println!(
        "{}",
        json!({"mode":mode,"programs":stats.programs,"ops":stats.ops,"refused":stats.refused,
               "callbacks":stats.callbacks,"inject":stats.inject,"stops":stats.stops,
               "reattach_same_fd":stats.reattach_same_fd,"recreate_same_fd":stats.recreate_same_fd,
               "skipped":stats.skipped,"residue_observable":stats.residue_observable,
               "panics":stats.panics,"unsupported":note})
    );
}

pub fn probe(args: &Args) {
    let root = args.get_or("root", "/tmp/verif-waitset-probe");
    let _ = std::fs::create_dir_all(&root);
    let objs = ListenerObjs::<ipc::Service>::new(&root, "vwsp_", 0, 2, 1);
    let ws = WaitSetBuilder::new().create::<ipc::Service>().unwrap();
    println!("{ws:?}\nresidue={}", residue(&ws));
    let g1 = ws.attach_deadline(objs.att(1), LONG).unwrap();
    let _g2 = ws.attach_interval(LONG).unwrap();
    println!("{ws:?}\nresidue={} cap={}", residue(&ws), ws.capacity());
    drop(g1);
    println!("residue={}", residue(&ws));
}
