//! Conformance driver for C20 (WaitSet dispatch is exact) - DESIGN.md 5 C20, BUILDING.md.
//!
//! Executes programs (TLC-generated or from the seeded on-line generator) on the REAL
//! `iceoryx2::waitset::WaitSet` and records, per processing call, the exact set of attachments
//! the callback was invoked for, and per attach the result.  The trace is validated by TLC with
//! `spec/api/WaitSetTrace.tla`.
//!
//! Sub-commands
//!   run   --mode ipc|local|sel|selfd --root <dir> --tag <prefix> --out <trace.ndjson>
//!         (--programs <file.ndjson> | --random <n> --steps <k> --nl <n> --ng <n> --cap <c>)
//!   probe --mode …   prints the Debug representation of a wait set (development aid)
//!
//! Modes (= the `svc` field of the reset record)
//!   ipc, local  `ipc::Service` / `local::Service`: listeners of 1..2 event services (epoll reactor;
//!               its capacity, /proc/sys/fs/epoll/max_user_watches, is not reachable => cap = 99)
//!   sel         a service variant assembled from public building blocks exactly like
//!               examples/rust/service_variant_customization, whose reactor is
//!               `reactor::posix_select::Reactor` (capacity FD_SETSIZE = 1024).  The wait set is
//!               pre-filled with 1024 - cap never-expiring interval attachments, so the model
//!               capacity `cap` is reachable; real listeners are attached.
//!   selfd       the same select based wait set, but the attachable objects are the 1024 ends of
//!               512 `StreamingSocket` pairs occupying descriptors 0..1023 (stdio is moved out of
//!               the way); 1024 - cap of them are attached as never-ready fillers.  This fills the
//!               reactor's descriptor set itself, which is the only way to reach
//!               `ReactorAttachError::CapacityExceeded` (hypothesis 5 of DESIGN.md 7).
//!
//! Determinism (no verdict depends on scheduling noise): the driver is single threaded.  Durations
//! come in two classes: "s" = 1 ns and "l" = 1 h.  Before every processing call the driver sleeps
//! 300 us, so for every class-"s" deadline `now - max(start, previous_iteration) >= 300 us > 1 ns`
//! holds no matter how the process is scheduled (a longer sleep or a preemption only makes the
//! difference larger): `DeadlineQueue::duration_until_next_deadline` returns zero, the reactor is
//! polled without blocking and `missed_deadlines` reports the deadline.  A class-"l" deadline would
//! need the run to take an hour.  The only timing dependent outcome - a class-"s" deadline whose
//! listener has an event pending is reset and re-examined a few nanoseconds later - is
//! nondeterministic in the specification (`May`).  Listener readiness is level triggered and
//! changes only through the driver's own notify / drain calls.

extern crate iceoryx2_bb_loggers;

mod run;
mod world;

fn main() {
    let args = vlib::Args::from_env();
    match args.positional(0).as_deref() {
        Some("run") => run::main(&args),
        Some("probe") => run::probe(&args),
        other => {
            eprintln!("unknown sub-command {other:?}");
            std::process::exit(2);
        }
    }
}
