//! The attachable objects of a run: real listeners of event services, or socket pair ends.

use core::fmt::Debug;

use iceoryx2::port::listener::Listener;
use iceoryx2::port::notifier::Notifier;
use iceoryx2::prelude::*;
use iceoryx2::service::port_factory::event::PortFactory;
use iceoryx2_bb_elementary_traits::testing::abandonable::Abandonable;
use iceoryx2_bb_posix::file_descriptor::FileDescriptorBased;
use iceoryx2_bb_posix::file_descriptor_set::SynchronousMultiplexing;
use iceoryx2_bb_posix::socket_pair::StreamingSocket;
use iceoryx2_cal::event::Event;
use iceoryx2_cal::event::event_state::counting_bit_set::RelocatableCountingBitSet;

/// `ipc::Service` with the select based reactor: the customisation shown in
/// /repo/examples/rust/service_variant_customization/custom_service_variant.rs
#[derive(Debug, Clone)]
pub struct SelService {}

impl iceoryx2::service::Service for SelService {
    type StaticStorage = iceoryx2_cal::static_storage::recommended::Ipc;
    type ConfigSerializer = iceoryx2_cal::serialize::recommended::Recommended;
    type PersistentDynamicStorage<T: Debug + Send + Sync + ZeroCopySend + 'static> =
        iceoryx2_cal::dynamic_storage::recommended::PersistentIpc<T>;
    type DynamicStorage<T: Debug + Send + Sync + ZeroCopySend + 'static> =
        iceoryx2_cal::dynamic_storage::recommended::Ipc<T>;
    type ServiceNameHasher = iceoryx2_cal::hash::recommended::Recommended;
    type SharedMemory = iceoryx2_cal::shared_memory::recommended::Ipc<
        iceoryx2_cal::shm_allocator::pool_allocator::PoolAllocator,
    >;
    type ResizableSharedMemory = iceoryx2_cal::resizable_shared_memory::recommended::Ipc<
        iceoryx2_cal::shm_allocator::pool_allocator::PoolAllocator,
    >;
    type Connection = iceoryx2_cal::zero_copy_connection::recommended::Ipc;
    type Event = iceoryx2_cal::event::recommended::Ipc;
    type Monitoring = iceoryx2_cal::monitoring::recommended::Ipc;
    type Reactor = iceoryx2_cal::reactor::posix_select::Reactor;
    type ArcThreadSafetyPolicy<T: Send + Debug + Abandonable> =
        iceoryx2_cal::arc_sync_policy::single_threaded::SingleThreaded<T>;
    type BlackboardMgmt<KeyType: Send + Sync + Debug + ZeroCopySend + 'static> =
        iceoryx2_cal::dynamic_storage::recommended::Ipc<KeyType>;
    type BlackboardPayload = iceoryx2_cal::shared_memory::recommended::Ipc<
        iceoryx2_cal::shm_allocator::bump_allocator::BumpAllocator,
    >;
}

impl iceoryx2::service::internal::ServiceInternal<SelService> for SelService {}

pub trait Objs {
    type A: SynchronousMultiplexing + Debug + 'static;
    /// 1-based service index of every listener
    fn svc_of(&self) -> Vec<usize>;
    fn att(&self, l: usize) -> &'static Self::A;
    fn fd(&self, l: usize) -> i32;
    /// notifies every listener of service s, returns the number of listeners notified (-1 = error)
    fn notify(&self, s: usize) -> i64;
    /// consumes everything that is pending on listener l
    fn drain(&self, l: usize);
    /// drops listener l and creates a new one in its place; false = not supported
    fn recreate(&mut self, l: usize) -> bool;
    /// never-ready objects used to fill the reactor (selfd only)
    fn fillers(&self) -> Vec<&'static Self::A>;
}

// --------------------------------------------------------------------------------------------
pub struct ListenerObjs<S: Service>
where
    <S::Event as Event<RelocatableCountingBitSet>>::Listener: SynchronousMultiplexing,
{
    listeners: Vec<*mut Listener<S>>,
    svc: Vec<usize>,
    notifiers: Vec<Notifier<S>>,
    factories: Vec<PortFactory<S>>,
    _node: Node<S>,
}

impl<S: Service + 'static> ListenerObjs<S>
where
    <S::Event as Event<RelocatableCountingBitSet>>::Listener: SynchronousMultiplexing,
{
    pub fn new(root: &str, tag: &str, run: u64, nl: usize, nsvc: usize) -> Self {
        let mut config = Config::default();
        config.global.prefix = FileName::new(tag.as_bytes()).expect("prefix");
        config
            .global
            .set_root_path(&Path::new(root.as_bytes()).expect("root path"));
        let node = NodeBuilder::new()
            .config(&config)
            .signal_handling_mode(SignalHandlingMode::Disabled)
            .create::<S>()
            .expect("node");
        let mut factories = vec![];
        let mut notifiers = vec![];
        for s in 0..nsvc {
            let name: ServiceName = format!("ws/{run}/{s}").as_str().try_into().expect("name");
            let f = node
                .service_builder(&name)
                .event()
                .open_or_create()
                .expect("event service");
            notifiers.push(f.notifier_builder().create().expect("notifier"));
            factories.push(f);
        }
        let mut listeners = vec![];
        let mut svc = vec![];
        for l in 0..nl {
            let s = l % nsvc;
            let li = factories[s].listener_builder().create().expect("listener");
            listeners.push(Box::into_raw(Box::new(li)));
            svc.push(s + 1);
        }
        ListenerObjs {
            listeners,
            svc,
            notifiers,
            factories,
            _node: node,
        }
    }
}

impl<S: Service> Drop for ListenerObjs<S>
where
    <S::Event as Event<RelocatableCountingBitSet>>::Listener: SynchronousMultiplexing,
{
    fn drop(&mut self) {
        for p in self.listeners.drain(..) {
            drop(unsafe { Box::from_raw(p) });
        }
    }
}

impl<S: Service + 'static> Objs for ListenerObjs<S>
where
    <S::Event as Event<RelocatableCountingBitSet>>::Listener: SynchronousMultiplexing,
{
    type A = Listener<S>;

    fn svc_of(&self) -> Vec<usize> {
        self.svc.clone()
    }
    fn att(&self, l: usize) -> &'static Listener<S> {
        unsafe { &*self.listeners[l - 1] }
    }
    fn fd(&self, l: usize) -> i32 {
        unsafe { self.att(l).file_descriptor().native_handle() }
    }
    fn notify(&self, s: usize) -> i64 {
        match self.notifiers[s - 1].notify() {
            Ok(n) => n as i64,
            Err(_) => -1,
        }
    }
    fn drain(&self, l: usize) {
        let _ = self.att(l).try_wait(|_| {});
    }
    fn recreate(&mut self, l: usize) -> bool {
        let s = self.svc[l - 1] - 1;
        drop(unsafe { Box::from_raw(self.listeners[l - 1]) });
        let li = self.factories[s]
            .listener_builder()
            .create()
            .expect("listener (recreate)");
        self.listeners[l - 1] = Box::into_raw(Box::new(li));
        true
    }
    fn fillers(&self) -> Vec<&'static Listener<S>> {
        vec![]
    }
}

// --------------------------------------------------------------------------------------------
/// 512 socket pairs = descriptors 0..1023, plus `extra` pairs above FD_SETSIZE.
/// listener l (1..=nl_low) = first end of pair l; its "notifier" is the second end of the pair;
/// listener nl_low + 1 (if any) = first end of the first extra pair (descriptor >= 1024).
pub struct SockObjs {
    pairs: Vec<(*mut StreamingSocket, *mut StreamingSocket)>,
    nl: usize,
    nl_low: usize,
}

impl SockObjs {
    /// Must be called while no descriptor below 1024 is open.
    pub fn new(nl: usize) -> Result<Self, String> {
        let nl_low = nl - 1;
        let mut pairs = vec![];
        for _ in 0..513 {
            let (a, b) = StreamingSocket::create_pair().map_err(|e| format!("{e:?}"))?;
            pairs.push((Box::into_raw(Box::new(a)), Box::into_raw(Box::new(b))));
        }
        let me = SockObjs { pairs, nl, nl_low };
        for (i, (a, b)) in me.pairs.iter().enumerate() {
            let (fa, fb) = unsafe {
                (
                    (**a).file_descriptor().native_handle(),
                    (**b).file_descriptor().native_handle(),
                )
            };
            let low = fa < 1024 && fb < 1024;
            if (i < 512) != low {
                return Err(format!("descriptor layout: pair {i} has descriptors {fa},{fb}"));
            }
        }
        Ok(me)
    }
    fn sock(&self, l: usize) -> (&'static StreamingSocket, &'static StreamingSocket) {
        let i = if l <= self.nl_low { l - 1 } else { 512 };
        unsafe { (&*self.pairs[i].0, &*self.pairs[i].1) }
    }
    pub fn max_low_fd_listener(&self) -> usize {
        self.nl_low
    }
}

impl Drop for SockObjs {
    fn drop(&mut self) {
        for (a, b) in self.pairs.drain(..) {
            drop(unsafe { Box::from_raw(a) });
            drop(unsafe { Box::from_raw(b) });
        }
    }
}

impl Objs for SockObjs {
    type A = StreamingSocket;

    fn svc_of(&self) -> Vec<usize> {
        (1..=self.nl).collect()
    }
    fn att(&self, l: usize) -> &'static StreamingSocket {
        self.sock(l).0
    }
    fn fd(&self, l: usize) -> i32 {
        unsafe { self.att(l).file_descriptor().native_handle() }
    }
    fn notify(&self, s: usize) -> i64 {
        match self.sock(s).1.try_send(&[1u8]) {
            Ok(_) => 1,
            Err(_) => -1,
        }
    }
    fn drain(&self, l: usize) {
        let mut buf = [0u8; 64];
        while let Ok(n) = self.att(l).try_receive(&mut buf) {
            if n == 0 {
                break;
            }
        }
    }
    fn recreate(&mut self, _l: usize) -> bool {
        false
    }
    fn fillers(&self) -> Vec<&'static StreamingSocket> {
        let mut v = vec![];
        for (i, (a, b)) in self.pairs.iter().enumerate().take(512) {
            if i >= self.nl_low {
                v.push(unsafe { &**a });
            }
            v.push(unsafe { &**b });
        }
        v
    }
}
