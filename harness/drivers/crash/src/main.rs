//! Conformance driver for C04 (crash at any instant): one command-driven agent used as victim (killed by
//! harness/sysshim before its N-th state-changing system call), as survivor (lists nodes, removes stale
//! resources, exercises the API) and as long-lived peer.  Everything lives in an isolated domain
//! (`--root`, `--prefix`).
//!
//!   drv-crash agent --global-config FILE.toml | --root R --prefix P [--no-auto-cleanup]
//!
//! Commands (one per line on stdin, one JSON answer line each):
//!   node | svc pubsub|event|reqres | bb_create | bb_open | port pub|sub|notifier|listener|client|server|writer|reader
//!   send V | recv | notify ID | wait | request V | serve | response | write V | read
//!   drop ports|service|node|all | list | cleanup | mark NAME | quit (exit without destructors)

extern crate iceoryx2_bb_loggers;

use iceoryx2::node::{NodeState, NodeView};
use iceoryx2::port::client::Client;
use iceoryx2::port::listener::Listener;
use iceoryx2::port::notifier::Notifier;
use iceoryx2::port::publisher::Publisher;
use iceoryx2::port::reader::Reader;
use iceoryx2::port::server::Server;
use iceoryx2::port::subscriber::Subscriber;
use iceoryx2::port::writer::Writer;
use iceoryx2::prelude::*;
use iceoryx2::service::port_factory::{blackboard, event, publish_subscribe, request_response};
use iceoryx2_bb_container::semantic_string::SemanticString;
use iceoryx2_bb_system_types::file_name::FileName;
use iceoryx2_bb_system_types::path::Path;
use std::io::{BufRead, Write};
use vlib::{Value, json};

type S = ipc::Service;

#[derive(Default)]
struct Agent {
    node: Option<Node<S>>,
    ps: Option<publish_subscribe::PortFactory<S, u64, ()>>,
    ev: Option<event::PortFactory<S>>,
    rr: Option<request_response::PortFactory<S, u64, (), u64, ()>>,
    bb: Option<blackboard::PortFactory<S, u64>>,
    publisher: Option<Publisher<S, u64, ()>>,
    subscriber: Option<Subscriber<S, u64, ()>>,
    notifier: Option<Notifier<S>>,
    listener: Option<Listener<S>>,
    client: Option<Client<S, u64, (), u64, ()>>,
    server: Option<Server<S, u64, (), u64, ()>>,
    pending: Option<iceoryx2::pending_response::PendingResponse<S, u64, (), u64, ()>>,
    writer: Option<Writer<S, u64>>,
    reader: Option<Reader<S, u64>>,
}

fn ok(ev: &str) -> Value {
    json!({"ev": ev, "r": "Ok"})
}

fn res<T, E: core::fmt::Debug>(ev: &str, r: &Result<T, E>) -> Value {
    match r {
        Ok(_) => ok(ev),
        Err(e) => json!({"ev": ev, "r": format!("{e:?}")}),
    }
}

macro_rules! need {
    ($opt:expr, $ev:expr) => {
        match $opt.as_ref() {
            Some(v) => v,
            None => return json!({"ev": $ev, "r": "missing"}),
        }
    };
}

impl Agent {
    fn drop_ports(&mut self) {
        self.pending = None;
        self.publisher = None;
        self.subscriber = None;
        self.notifier = None;
        self.listener = None;
        self.client = None;
        self.server = None;
        self.writer = None;
        self.reader = None;
    }

    fn drop_services(&mut self) {
        self.ps = None;
        self.ev = None;
        self.rr = None;
        self.bb = None;
    }

    fn exec(&mut self, config: &Config, line: &str) -> Value {
        let mut it = line.split_whitespace();
        let cmd = it.next().unwrap_or("");
        let arg = it.next().unwrap_or("");
        let num: u64 = arg.parse().unwrap_or(0);
        let svc_name: ServiceName = "verif/crash".try_into().unwrap();
        match cmd {
            "node" => {
                let r = NodeBuilder::new().config(config).create::<S>();
                let v = match &r {
                    Ok(n) => json!({"ev": "node", "r": "Ok", "id": format!("{}", n.id().value())}),
                    Err(e) => json!({"ev": "node", "r": format!("{e:?}")}),
                };
                self.node = r.ok();
                v
            }
            "svc" => {
                let node = need!(self.node, "svc");
                match arg {
                    "pubsub" => {
                        let r = node.service_builder(&svc_name).publish_subscribe::<u64>().open_or_create();
                        let v = res("svc", &r);
                        self.ps = r.ok();
                        v
                    }
                    "event" => {
                        let r = node.service_builder(&svc_name).event().open_or_create();
                        let v = res("svc", &r);
                        self.ev = r.ok();
                        v
                    }
                    "reqres" => {
                        let r = node.service_builder(&svc_name).request_response::<u64, u64>().open_or_create();
                        let v = res("svc", &r);
                        self.rr = r.ok();
                        v
                    }
                    _ => json!({"ev": "svc", "r": "unknown pattern"}),
                }
            }
            "bb_create" => {
                let node = need!(self.node, "svc");
                let r = node.service_builder(&svc_name).blackboard_creator::<u64>().add::<u64>(0, 0).create();
                let v = res("svc", &r);
                self.bb = r.ok();
                v
            }
            "bb_open" => {
                let node = need!(self.node, "svc");
                let r = node.service_builder(&svc_name).blackboard_opener::<u64>().open();
                let v = res("svc", &r);
                self.bb = r.ok();
                v
            }
            "port" => match arg {
                "pub" => {
                    let r = need!(self.ps, "port").publisher_builder().create();
                    let v = res("port", &r);
                    self.publisher = r.ok();
                    v
                }
                "sub" => {
                    let r = need!(self.ps, "port").subscriber_builder().create();
                    let v = res("port", &r);
                    self.subscriber = r.ok();
                    v
                }
                "notifier" => {
                    let r = need!(self.ev, "port").notifier_builder().create();
                    let v = res("port", &r);
                    self.notifier = r.ok();
                    v
                }
                "listener" => {
                    let r = need!(self.ev, "port").listener_builder().create();
                    let v = res("port", &r);
                    self.listener = r.ok();
                    v
                }
                "client" => {
                    let r = need!(self.rr, "port").client_builder().create();
                    let v = res("port", &r);
                    self.client = r.ok();
                    v
                }
                "server" => {
                    let r = need!(self.rr, "port").server_builder().create();
                    let v = res("port", &r);
                    self.server = r.ok();
                    v
                }
                "writer" => {
                    let r = need!(self.bb, "port").writer_builder().create();
                    let v = res("port", &r);
                    self.writer = r.ok();
                    v
                }
                "reader" => {
                    let r = need!(self.bb, "port").reader_builder().create();
                    let v = res("port", &r);
                    self.reader = r.ok();
                    v
                }
                _ => json!({"ev": "port", "r": "unknown kind"}),
            },
            "send" => res("send", &need!(self.publisher, "send").send_copy(num)),
            "recv" => match need!(self.subscriber, "recv").receive() {
                Ok(Some(s)) => json!({"ev": "recv", "r": "Ok", "v": *s}),
                Ok(None) => json!({"ev": "recv", "r": "Ok", "v": Value::Null}),
                Err(e) => json!({"ev": "recv", "r": format!("{e:?}")}),
            },
            "notify" => res("notify", &need!(self.notifier, "notify").notify_with_custom_event_id(EventId::new(num as usize))),
            "wait" => {
                let mut ids = vec![];
                let l = need!(self.listener, "wait");
                match l.try_wait(|a| ids.push(json!([a.id.as_value(), a.count]))) {
                    Ok(n) => json!({"ev": "wait", "r": "Ok", "n": n, "ids": ids}),
                    Err(e) => json!({"ev": "wait", "r": format!("{e:?}")}),
                }
            }
            "request" => {
                let r = need!(self.client, "request").send_copy(num);
                let v = res("request", &r);
                self.pending = r.ok();
                v
            }
            "serve" => match need!(self.server, "serve").receive() {
                Ok(Some(req)) => {
                    let val = *req;
                    let r = req.send_copy(val + 1);
                    json!({"ev": "serve", "r": match r { Ok(_) => "Ok".to_string(), Err(e) => format!("{e:?}") }, "v": val})
                }
                Ok(None) => json!({"ev": "serve", "r": "Ok", "v": Value::Null}),
                Err(e) => json!({"ev": "serve", "r": format!("{e:?}")}),
            },
            "response" => match need!(self.pending, "response").receive() {
                Ok(Some(r)) => json!({"ev": "response", "r": "Ok", "v": *r}),
                Ok(None) => json!({"ev": "response", "r": "Ok", "v": Value::Null}),
                Err(e) => json!({"ev": "response", "r": format!("{e:?}")}),
            },
            "write" => match need!(self.writer, "write").entry::<u64>(&0) {
                Ok(h) => {
                    h.update_with_copy(num);
                    ok("write")
                }
                Err(e) => json!({"ev": "write", "r": format!("{e:?}")}),
            },
            "read" => match need!(self.reader, "read").entry::<u64>(&0) {
                Ok(h) => json!({"ev": "read", "r": "Ok", "v": *h.get()}),
                Err(e) => json!({"ev": "read", "r": format!("{e:?}")}),
            },
            "drop" => {
                match arg {
                    "ports" => self.drop_ports(),
                    "service" => {
                        self.drop_ports();
                        self.drop_services();
                    }
                    _ => {
                        self.drop_ports();
                        self.drop_services();
                        self.node = None;
                    }
                }
                ok("drop")
            }
            "list" | "cleanup" => {
                let mut out = vec![];
                let r = Node::<S>::list(config, |state| {
                    let id = format!("{}", state.node_id().value());
                    match state {
                        NodeState::Alive(_) => out.push(json!({"id": id, "s": "Alive", "c": ""})),
                        NodeState::Dead(view) => {
                            let det = view.details().is_some();
                            let c = if cmd == "cleanup" { format!("{:?}", view.try_remove_stale_resources()) } else { String::new() };
                            out.push(json!({"id": id, "s": "Dead", "c": c, "details": det}));
                        }
                        NodeState::Inaccessible(_) => out.push(json!({"id": id, "s": "Inaccessible", "c": ""})),
                        NodeState::Undefined(_) => out.push(json!({"id": id, "s": "Undefined", "c": ""})),
                    }
                    CallbackProgression::Continue
                });
                json!({"ev": cmd, "r": match r { Ok(()) => "Ok".to_string(), Err(e) => format!("{e:?}") }, "nodes": out})
            }
            "mark" => {
                if let Ok(p) = std::env::var("IOX2_VERIF_SYSLOG") {
                    if let Ok(mut f) = std::fs::OpenOptions::new().append(true).create(true).open(p) {
                        let tag = std::env::var("IOX2_VERIF_TAG").unwrap_or_default();
                        let _ = f.write_all(format!("{}\n", json!({"k": "mark", "p": tag, "name": arg})).as_bytes());
                    }
                }
                json!({"ev": "mark", "r": "Ok", "name": arg})
            }
            "quit" => {
                println!("{}", json!({"ev": "quit", "r": "Ok"}));
                std::process::exit(0);
            }
            other => json!({"ev": "error", "r": format!("unknown command {other}")}),
        }
    }
}

fn main() {
    iceoryx2_log::set_log_level_from_env_or(iceoryx2_log::LogLevel::Fatal);
    let args = vlib::Args::from_env();
    if args.positional(0).as_deref() != Some("agent") {
        eprintln!("usage: drv-crash agent --root R --prefix P");
        std::process::exit(2);
    }
    // The isolated domain is installed as the GLOBAL configuration (a toml file written by the check), so that
    // code paths that fall back to Config::global_config() stay inside the domain as well.
    let config = if let Some(file) = args.get("global-config") {
        let path = iceoryx2_bb_system_types::file_path::FilePath::new(file.as_bytes()).expect("config path");
        Config::setup_global_config_from_file(&path).expect("global config").clone()
    } else {
        let mut config = Config::default();
        config
            .global
            .set_root_path(&Path::new(args.get("root").expect("--root").as_bytes()).expect("root"));
        config.global.prefix = FileName::new(args.get("prefix").expect("--prefix").as_bytes()).expect("prefix");
        if args.flag("no-auto-cleanup") {
            config.global.node.cleanup_dead_nodes_on_creation = false;
            config.global.node.cleanup_dead_nodes_on_destruction = false;
        }
        config
    };
    let mut agent = Agent::default();
    for line in std::io::stdin().lock().lines() {
        let line = line.expect("stdin");
        let line = line.trim();
        if line.is_empty() {
            continue;
        }
        // a panic of the code under test is data: report it and leave
        let r = std::panic::catch_unwind(std::panic::AssertUnwindSafe(|| agent.exec(&config, line)));
        match r {
            Ok(v) => println!("{v}"),
            Err(_) => {
                println!("{}", json!({"ev": "panic", "r": "panic", "cmd": line}));
                std::process::exit(3);
            }
        }
    }
    // end of input: orderly shutdown (ports, services, node in this order)
    agent.drop_ports();
    agent.drop_services();
    agent.node = None;
    println!("{}", json!({"ev": "end", "r": "Ok"}));
}
