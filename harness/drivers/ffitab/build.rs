//! Generates $OUT_DIR/api_mod.rs = /repo/iceoryx2-ffi/c/src/api/mod.rs with
//!   * its inner attributes removed (not allowed in an `include!`d file),
//!   * every `mod x;` turned into `#[path = "<api dir>/x.rs"] mod x;` (the real files are compiled),
//!   * `src/errtab.rs` of this crate appended, so that it lives INSIDE the `api` module and can see
//!     the private trait `IntoCInt`.
use std::{env, fs, path::PathBuf};

const API_DIR: &str = "/repo/iceoryx2-ffi/c/src/api";

fn main() {
    let api = PathBuf::from(API_DIR);
    let manifest = env::var("CARGO_MANIFEST_DIR").unwrap();
    let body = fs::read_to_string(api.join("mod.rs")).expect("read api/mod.rs");
    let mut out = String::new();
    let mut mods = 0;
    for line in body.lines() {
        let t = line.trim();
        if t.starts_with("#![") {
            continue;
        }
        if let Some(rest) = t.strip_prefix("mod ") {
            if let Some(name) = rest.strip_suffix(';') {
                out.push_str(&format!("#[path = \"{}/{}.rs\"]\nmod {};\n", api.display(), name, name));
                mods += 1;
                continue;
            }
        }
        out.push_str(line);
        out.push('\n');
    }
    assert!(mods > 50, "api/mod.rs does not look as expected ({mods} modules)");
    out.push_str(&format!("include!(\"{manifest}/src/errtab.rs\");\n"));
    fs::write(PathBuf::from(env::var("OUT_DIR").unwrap()).join("api_mod.rs"), out).unwrap();
    println!("cargo:rerun-if-changed={}", api.join("mod.rs").display());
    println!("cargo:rerun-if-changed=build.rs");
    println!("cargo:rerun-if-changed=src/errtab.rs");
}
