//! drv-ffitab - dumps the error mapping table of the C binding (property C18, spec/data/FfiTable.tla).
//!
//!   drv-ffitab dump --out table.ndjson
//!       one `row` record per (Rust error enum, variant): the C int `IntoCInt::into_c_int()` returns for it
//!       and the printable name of that code (CStrRepr, what iox2_*_string returns); one `const` record per
//!       constant of every C error enum the table refers to.  Rows are evaluated in a CHILD process: a
//!       conversion that crashes (stack overflow) or never returns (CPU-time watchdog, not wall clock)
//!       yields a row with st = "crash:<signal>" / "diverges" and code = -1 instead of killing the dump.
//!   drv-ffitab rows --from K            (child mode) evaluates rows K.. and prints one JSON line per row
//!
//! The sources of the C binding are compiled into this binary a second time (see build.rs), because the
//! trait `IntoCInt` is private to the `api` module of iceoryx2-ffi-c.

#![allow(non_camel_case_types)]
#![allow(clippy::missing_safety_doc)]
#![allow(dead_code)]
#![allow(unused_imports)]
#![allow(unused_unsafe)]

extern crate alloc;
extern crate iceoryx2_bb_loggers;

mod api {
    include!(concat!(env!("OUT_DIR"), "/api_mod.rs"));
}
pub use api::*;

use serde_json::{Value, json};
use std::io::{BufRead, BufReader, Write};
use std::os::unix::process::ExitStatusExt;
use std::process::{Command, Stdio};
use std::sync::mpsc;
use std::time::Duration;

fn arg(name: &str) -> Option<String> {
    let a: Vec<String> = std::env::args().collect();
    a.iter().position(|x| x == &format!("--{name}")).and_then(|i| a.get(i + 1).cloned())
}

/// "ExceedsMaxLoans" -> "exceeds max loans" (the convention of the CStrRepr derive)
fn words(name: &str) -> String {
    let mut out = String::new();
    let cs: Vec<char> = name.chars().collect();
    for (i, c) in cs.iter().enumerate() {
        if c.is_uppercase() && i > 0 && (cs[i - 1].is_lowercase() || cs[i - 1].is_ascii_digit()) {
            out.push(' ');
        }
        out.extend(c.to_lowercase());
    }
    out
}

/// candidate printable names of a variant path: every suffix of the path, in words
/// `SendError(LoanError(OutOfMemory))` -> ["send error loan error out of memory", "loan error out of memory", "out of memory"]
fn candidates(variant: &str) -> Vec<String> {
    let parts: Vec<String> = variant.split(['(', ')']).filter(|s| !s.is_empty()).map(words).collect();
    (0..parts.len()).map(|i| parts[i..].join(" ")).collect()
}

/// CPU time (user + system) of a process in clock ticks
fn cpu_ticks(pid: u32) -> u64 {
    let s = std::fs::read_to_string(format!("/proc/{pid}/stat")).unwrap_or_default();
    // fields after the last ')' : state ppid ... utime(14) stime(15)
    let rest = s.rsplit(')').next().unwrap_or("");
    let f: Vec<&str> = rest.split_whitespace().collect();
    let g = |i: usize| f.get(i).and_then(|x| x.parse::<u64>().ok()).unwrap_or(0);
    g(11) + g(12)
}

fn child_rows(from: usize) {
    let rows = api::verif_errtab::table();
    let out = std::io::stdout();
    for (i, r) in rows.iter().enumerate().skip(from) {
        let code = (r.code)();
        let cname = (r.cname)(code);
        let mut o = out.lock();
        writeln!(o, "{}", json!({"i": i, "code": code, "cname": cname})).unwrap();
        o.flush().unwrap();
    }
}

fn dump(out_path: &str) {
    let rows = api::verif_errtab::table();
    let n = rows.len();
    let exe = std::env::current_exe().expect("current exe");
    let mut results: Vec<Option<(i64, String, String)>> = vec![None; n]; // (code, cname, st)
    let mut next = 0usize;
    let mut restarts = 0;
    while next < n {
        let mut child = Command::new(&exe)
            .args(["rows", "--from", &next.to_string()])
            .stdout(Stdio::piped())
            .stderr(Stdio::null())
            .spawn()
            .expect("spawn child");
        let pid = child.id();
        let stdout = child.stdout.take().unwrap();
        let (tx, rx) = mpsc::channel::<Option<String>>();
        let reader = std::thread::spawn(move || {
            for line in BufReader::new(stdout).lines() {
                match line {
                    Ok(l) => {
                        if tx.send(Some(l)).is_err() {
                            return;
                        }
                    }
                    Err(_) => break,
                }
            }
            let _ = tx.send(None);
        });
        let mut cpu_at_progress = cpu_ticks(pid);
        let mut diverged = false;
        loop {
            match rx.recv_timeout(Duration::from_millis(100)) {
                Ok(Some(l)) => {
                    let v: Value = serde_json::from_str(&l).expect("child line");
                    let i = v["i"].as_u64().unwrap() as usize;
                    results[i] = Some((v["code"].as_i64().unwrap(), v["cname"].as_str().unwrap().to_string(), "ok".into()));
                    next = i + 1;
                    cpu_at_progress = cpu_ticks(pid);
                }
                Ok(None) => break,
                Err(mpsc::RecvTimeoutError::Timeout) => {
                    // 3 s of CPU time (not wall time) spent inside ONE conversion: it does not return
                    if cpu_ticks(pid).saturating_sub(cpu_at_progress) > 300 {
                        diverged = true;
                        let _ = child.kill();
                        break;
                    }
                }
                Err(mpsc::RecvTimeoutError::Disconnected) => break,
            }
        }
        let status = child.wait().expect("wait child");
        let _ = reader.join();
        // drain what the reader still delivered
        while let Ok(Some(l)) = rx.try_recv() {
            let v: Value = serde_json::from_str(&l).expect("child line");
            let i = v["i"].as_u64().unwrap() as usize;
            results[i] = Some((v["code"].as_i64().unwrap(), v["cname"].as_str().unwrap().to_string(), "ok".into()));
            next = next.max(i + 1);
        }
        if next < n && (diverged || !status.success()) {
            let st = if diverged {
                "diverges".to_string()
            } else if let Some(sig) = status.signal() {
                format!("crash:signal{sig}")
            } else {
                format!("crash:exit{}", status.code().unwrap_or(-1))
            };
            results[next] = Some((-1, String::new(), st));
            next += 1;
            restarts += 1;
        } else if next < n && status.success() {
            panic!("child ended early without a failure");
        }
    }
    let mut f = std::io::BufWriter::new(std::fs::File::create(out_path).expect("create out"));
    let mut cenums: Vec<(&'static str, fn(i32) -> String, (i32, i32))> = Vec::new();
    let mut bad = 0;
    for (i, r) in rows.iter().enumerate() {
        let (code, cname, st) = results[i].clone().expect("row evaluated");
        if st != "ok" {
            bad += 1;
        }
        writeln!(
            f,
            "{}",
            json!({"k": "row", "i": i + 1, "enum": r.renum, "variant": r.variant, "cenum": r.cenum, "code": code,
                   "cname": cname, "st": st, "cands": candidates(&r.variant)})
        )
        .unwrap();
        if !cenums.iter().any(|c| c.0 == r.cenum) {
            cenums.push((r.cenum, r.cname, r.crange));
        }
    }
    let mut consts = 0;
    for (name, f_name, (lo, hi)) in &cenums {
        for code in *lo..=*hi {
            writeln!(f, "{}", json!({"k": "const", "cenum": name, "code": code, "cname": f_name(code)})).unwrap();
            consts += 1;
        }
    }
    f.flush().unwrap();
    let enums: std::collections::BTreeSet<&str> = rows.iter().map(|r| r.renum).collect();
    println!("{}", json!({"rows": n, "enums": enums.len(), "cenums": cenums.len(), "consts": consts,
                          "not_evaluated": bad, "child_restarts": restarts}));
}

fn main() {
    let cmd = std::env::args().nth(1).unwrap_or_default();
    match cmd.as_str() {
        "rows" => child_rows(arg("from").and_then(|s| s.parse().ok()).unwrap_or(0)),
        "dump" => dump(&arg("out").expect("--out")),
        _ => {
            eprintln!("usage: drv-ffitab dump --out FILE");
            std::process::exit(2);
        }
    }
}
