// Included by build.rs at the END of the generated copy of iceoryx2-ffi/c/src/api/mod.rs, i.e. this code
// is part of the `api` module of the C binding and sees the private trait `IntoCInt`.
//
// For every error enum that the C API maps (every `impl IntoCInt for <error enum>`; the three non-error
// impls BackpressureStrategy, SignalHandlingMode and WaitSetRunResult are not part of the error
// mapping) the table lists every variant at the granularity at which the C binding distinguishes it.
// The arms of each `tab!` form an EXHAUSTIVE `match`: a variant added to a Rust error enum is a compile
// error here (= a visible tool error of the check, not a silent gap).  The `// NAME` comments record the
// C constant the arm mapped to when the table was written; they are documentation only.

pub mod verif_errtab {
    #![allow(unused_imports, clippy::all)]
    use super::*;
    use core::ffi::c_int;
    use iceoryx2::port::update_connections::ConnectionFailure;
    use iceoryx2::port::LoanError;
    use iceoryx2::port::SendError;
    use iceoryx2::service::builder::event::{EventCreateError, EventOpenError};
    use iceoryx2::service::builder::publish_subscribe::{PublishSubscribeCreateError, PublishSubscribeOpenError};
    use iceoryx2::service::builder::request_response::{RequestResponseCreateError, RequestResponseOpenError};
    use iceoryx2_bb_elementary_traits::AsCStr;
    use iceoryx2_cal::shared_memory::SharedMemoryOpenError;
    use iceoryx2_cal::zero_copy_connection::ZeroCopyCreationError;

    pub struct Row {
        /// Rust error enum
        pub renum: &'static str,
        /// variant (path below the enum, e.g. `LoanError(ExceedsMaxLoans)`)
        pub variant: String,
        /// C enum the codes belong to
        pub cenum: &'static str,
        /// evaluates `IntoCInt::into_c_int()` on a value of that variant
        pub code: Box<dyn Fn() -> c_int>,
        /// printable name of a C code (CStrRepr / iox2_*_string), "" if the code is no constant of the enum
        pub cname: fn(c_int) -> String,
        /// first and last constant of the C enum
        pub crange: (c_int, c_int),
    }

    fn label(renum: &str, pat: &str) -> String {
        // "SendError :: LoanError(LoanError :: OutOfMemory)" -> "LoanError(OutOfMemory)"
        let s: String = pat.chars().filter(|c| !c.is_whitespace()).collect();
        let s = s.replace("(_)", "").replace("(_,)", "");
        // remove every "<Type>::" qualifier
        let mut out = String::new();
        let mut word = String::new();
        let cs: Vec<char> = s.chars().collect();
        let mut i = 0;
        while i < cs.len() {
            let c = cs[i];
            if c.is_alphanumeric() || c == '_' {
                word.push(c);
                i += 1;
            } else if c == ':' && i + 1 < cs.len() && cs[i + 1] == ':' {
                word.clear();
                i += 2;
            } else {
                out.push_str(&word);
                word.clear();
                out.push(c);
                i += 1;
            }
        }
        out.push_str(&word);
        let _ = renum;
        out
    }

    fn akey() -> iceoryx2::service::attribute::AttributeKey {
        iceoryx2::service::attribute::AttributeKey::new(b"k").unwrap()
    }
    fn aval() -> iceoryx2::service::attribute::AttributeValue {
        iceoryx2::service::attribute::AttributeValue::new(b"v").unwrap()
    }

    macro_rules! tab {
        ($rows:ident, $rname:ident, $rpath:path, $cenum:ident, $first:expr, $last:expr; $( $pat:pat => $ctor:expr ),+ $(,)?) => {{
            #[allow(unused_imports)]
            use $rpath;
            // exhaustiveness: a new variant of the Rust enum must be added to this table
            #[allow(dead_code)]
            fn exhaustive(v: &$rname) {
                match v {
                    $( $pat => (), )+
                }
            }
            fn cname(code: c_int) -> String {
                let (lo, hi) = ($first as c_int, $last as c_int);
                if code < lo || code > hi {
                    return String::new();
                }
                // repr(C) enum with contiguous discriminants lo..=hi
                let e: $cenum = unsafe { core::mem::transmute::<c_int, $cenum>(code) };
                e.as_const_cstr().to_string_lossy().into_owned()
            }
            $(
                $rows.push(Row {
                    renum: stringify!($rname),
                    variant: label(stringify!($rname), stringify!($pat)),
                    cenum: stringify!($cenum),
                    code: Box::new(|| { let v: $rname = $ctor; IntoCInt::into_c_int(v) }),
                    cname,
                    crange: ($first as c_int, $last as c_int),
                });
            )+
        }};
    }

    pub fn table() -> Vec<Row> {
        let mut rows: Vec<Row> = Vec::new();
        // attribute_set.rs
        tab!(rows, AttributeVerificationError, iceoryx2::service::attribute::AttributeVerificationError, iox2_attribute_verification_error_e, iox2_attribute_verification_error_e::NON_EXISTING_KEY, iox2_attribute_verification_error_e::INCOMPATIBLE_ATTRIBUTE;
            AttributeVerificationError::IncompatibleAttribute(_) => AttributeVerificationError::IncompatibleAttribute((akey(), aval())),   // INCOMPATIBLE_ATTRIBUTE
            AttributeVerificationError::NonExistingKey(_) => AttributeVerificationError::NonExistingKey(akey()),   // NON_EXISTING_KEY
        );
        // attribute_set.rs
        tab!(rows, AttributeDefinitionError, iceoryx2::service::attribute::AttributeDefinitionError, iox2_attribute_definition_error_e, iox2_attribute_definition_error_e::EXCEEDS_MAX_SUPPORTED_ATTRIBUTES, iox2_attribute_definition_error_e::EXCEEDS_MAX_SUPPORTED_ATTRIBUTES;
            AttributeDefinitionError::ExceedsMaxSupportedAttributes => AttributeDefinitionError::ExceedsMaxSupportedAttributes,   // EXCEEDS_MAX_SUPPORTED_ATTRIBUTES
        );
        // config.rs
        tab!(rows, ConfigCreationError, iceoryx2::config::ConfigCreationError, iox2_config_creation_error_e, iox2_config_creation_error_e::FAILED_TO_READ_CONFIG_FILE_CONTENTS, iox2_config_creation_error_e::INVALID_FILE_PATH;
            ConfigCreationError::FailedToReadConfigFileContents => ConfigCreationError::FailedToReadConfigFileContents,   // FAILED_TO_READ_CONFIG_FILE_CONTENTS
            ConfigCreationError::UnableToDeserializeContents => ConfigCreationError::UnableToDeserializeContents,   // UNABLE_TO_DESERIALIZE_CONTENTS
            ConfigCreationError::InsufficientPermissions => ConfigCreationError::InsufficientPermissions,   // INSUFFICIENT_PERMISSIONS
            ConfigCreationError::ConfigFileDoesNotExist => ConfigCreationError::ConfigFileDoesNotExist,   // CONFIG_FILE_DOES_NOT_EXIST
            ConfigCreationError::UnableToOpenConfigFile => ConfigCreationError::UnableToOpenConfigFile,   // UNABLE_TO_OPEN_CONFIG_FILE
        );
        // listener.rs
        tab!(rows, ListenerWaitError, iceoryx2_cal::event::ListenerWaitError, iox2_listener_wait_error_e, iox2_listener_wait_error_e::CONTRACT_VIOLATION, iox2_listener_wait_error_e::INTERRUPT_SIGNAL;
            ListenerWaitError::ContractViolation => ListenerWaitError::ContractViolation,   // CONTRACT_VIOLATION
            ListenerWaitError::InterruptSignal => ListenerWaitError::InterruptSignal,   // INTERRUPT_SIGNAL
            ListenerWaitError::InternalFailure => ListenerWaitError::InternalFailure,   // INTERNAL_FAILURE
        );
        // mod.rs
        tab!(rows, SemanticStringError, iceoryx2_bb_container::semantic_string::SemanticStringError, iox2_semantic_string_error_e, iox2_semantic_string_error_e::INVALID_CONTENT, iox2_semantic_string_error_e::EXCEEDS_MAXIMUM_LENGTH;
            SemanticStringError::InvalidContent => SemanticStringError::InvalidContent,   // INVALID_CONTENT
            SemanticStringError::ExceedsMaximumLength => SemanticStringError::ExceedsMaximumLength,   // EXCEEDS_MAXIMUM_LENGTH
        );
        // node.rs
        tab!(rows, NodeListFailure, iceoryx2::node::NodeListFailure, iox2_node_list_failure_e, iox2_node_list_failure_e::INSUFFICIENT_PERMISSIONS, iox2_node_list_failure_e::INTERNAL_ERROR;
            NodeListFailure::InsufficientPermissions => NodeListFailure::InsufficientPermissions,   // INSUFFICIENT_PERMISSIONS
            NodeListFailure::Interrupt => NodeListFailure::Interrupt,   // INTERRUPT
            NodeListFailure::InternalError => NodeListFailure::InternalError,   // INTERNAL_ERROR
        );
        // node.rs
        tab!(rows, ServiceRemoveError, iceoryx2::service::ServiceRemoveError, iox2_service_remove_error_e, iox2_service_remove_error_e::INSUFFICIENT_PERMISSIONS, iox2_service_remove_error_e::INTERNAL_ERROR;
            ServiceRemoveError::InsufficientPermissions => ServiceRemoveError::InsufficientPermissions,   // INSUFFICIENT_PERMISSIONS
            ServiceRemoveError::InternalError => ServiceRemoveError::InternalError,   // INTERNAL_ERROR
            ServiceRemoveError::Interrupt => ServiceRemoveError::Interrupt,   // INTERRUPT
            ServiceRemoveError::VersionMismatch => ServiceRemoveError::VersionMismatch,   // INTERRUPT
        );
        // node.rs
        tab!(rows, NodeWaitFailure, iceoryx2::node::NodeWaitFailure, iox2_node_wait_failure_e, iox2_node_wait_failure_e::INTERRUPT, iox2_node_wait_failure_e::TERMINATION_REQUEST;
            NodeWaitFailure::TerminationRequest => NodeWaitFailure::TerminationRequest,   // TERMINATION_REQUEST
            NodeWaitFailure::Interrupt => NodeWaitFailure::Interrupt,   // INTERRUPT
        );
        // node.rs
        tab!(rows, NodeCleanupFailure, iceoryx2::node::NodeCleanupFailure, iox2_node_cleanup_failure_e, iox2_node_cleanup_failure_e::INTERRUPT, iox2_node_cleanup_failure_e::ANOTHER_INSTANCE_IS_CLEANING_UP_THE_NODE;
            NodeCleanupFailure::AnotherInstanceIsCleaningUpTheNode => NodeCleanupFailure::AnotherInstanceIsCleaningUpTheNode,   // ANOTHER_INSTANCE_IS_CLEANING_UP_THE_NODE
            NodeCleanupFailure::ResourcesAlreadyCleanedUp => NodeCleanupFailure::ResourcesAlreadyCleanedUp,   // RESOURCES_ALREADY_CLEANED_UP
            NodeCleanupFailure::Interrupt => NodeCleanupFailure::Interrupt,   // INTERRUPT
            NodeCleanupFailure::InternalError => NodeCleanupFailure::InternalError,   // INTERNAL_ERROR
            NodeCleanupFailure::InsufficientPermissions => NodeCleanupFailure::InsufficientPermissions,   // INSUFFICIENT_PERMISSIONS
            NodeCleanupFailure::VersionMismatch => NodeCleanupFailure::VersionMismatch,   // VERSION_MISMATCH
        );
        // node_builder.rs
        tab!(rows, NodeCreationFailure, iceoryx2::node::NodeCreationFailure, iox2_node_creation_failure_e, iox2_node_creation_failure_e::INSUFFICIENT_PERMISSIONS, iox2_node_creation_failure_e::SYSTEM_CORRUPTED;
            NodeCreationFailure::InsufficientPermissions => NodeCreationFailure::InsufficientPermissions,   // INSUFFICIENT_PERMISSIONS
            NodeCreationFailure::InternalError => NodeCreationFailure::InternalError,   // INTERNAL_ERROR
            NodeCreationFailure::SystemCorrupted => NodeCreationFailure::SystemCorrupted,   // SYSTEM_CORRUPTED
        );
        // notifier.rs
        tab!(rows, NotifierNotifyError, iceoryx2::port::notifier::NotifierNotifyError, iox2_notifier_notify_error_e, iox2_notifier_notify_error_e::EVENT_ID_OUT_OF_BOUNDS, iox2_notifier_notify_error_e::INVALID_LISTENER_KEY;
            NotifierNotifyError::EventIdOutOfBounds => NotifierNotifyError::EventIdOutOfBounds,   // EVENT_ID_OUT_OF_BOUNDS
            NotifierNotifyError::MissedDeadline => NotifierNotifyError::MissedDeadline,   // MISSED_DEADLINE
            NotifierNotifyError::UnableToAcquireElapsedTime => NotifierNotifyError::UnableToAcquireElapsedTime,   // UNABLE_TO_ACQUIRE_ELAPSED_TIME
            NotifierNotifyError::InvalidListenerKey => NotifierNotifyError::InvalidListenerKey,   // INVALID_LISTENER_KEY
        );
        // port_factory_client_builder.rs
        tab!(rows, ClientCreateError, iceoryx2::service::port_factory::client::ClientCreateError, iox2_client_create_error_e, iox2_client_create_error_e::UNABLE_TO_CREATE_DATA_SEGMENT, iox2_client_create_error_e::MAX_ACTIVE_REQUESTS_EXCEEDS_MAX_SUPPORTED_ACTIVE_REQUESTS_OF_SERVICE;
            ClientCreateError::UnableToCreateDataSegment => ClientCreateError::UnableToCreateDataSegment,   // UNABLE_TO_CREATE_DATA_SEGMENT
            ClientCreateError::ExceedsMaxSupportedClients => ClientCreateError::ExceedsMaxSupportedClients,   // EXCEEDS_MAX_SUPPORTED_CLIENTS
            ClientCreateError::FailedToDeployThreadsafetyPolicy => ClientCreateError::FailedToDeployThreadsafetyPolicy,   // FAILED_TO_DEPLOY_THREAD_SAFETY_POLICY
            ClientCreateError::UnableToCreatePortTag => ClientCreateError::UnableToCreatePortTag,   // UNABLE_TO_CREATE_PORT_TAG
            ClientCreateError::MaxActiveRequestsExceedsMaxSupportedActiveRequestsOfService => ClientCreateError::MaxActiveRequestsExceedsMaxSupportedActiveRequestsOfService,   // MAX_ACTIVE_REQUESTS_EXCEEDS_MAX_SUPPORTED_ACTIVE_REQUESTS_OF_SERVICE
        );
        // port_factory_listener_builder.rs
        tab!(rows, ListenerCreateError, iceoryx2::port::listener::ListenerCreateError, iox2_listener_create_error_e, iox2_listener_create_error_e::EXCEEDS_MAX_SUPPORTED_LISTENERS, iox2_listener_create_error_e::UNABLE_TO_CREATE_PORT_TAG;
            ListenerCreateError::ExceedsMaxSupportedListeners => ListenerCreateError::ExceedsMaxSupportedListeners,   // EXCEEDS_MAX_SUPPORTED_LISTENERS
            ListenerCreateError::ResourceCreationFailed => ListenerCreateError::ResourceCreationFailed,   // RESOURCE_CREATION_FAILED
            ListenerCreateError::FailedToDeployThreadsafetyPolicy => ListenerCreateError::FailedToDeployThreadsafetyPolicy,   // FAILED_TO_DEPLOY_THREAD_SAFETY_POLICY
            ListenerCreateError::UnableToCreatePortTag => ListenerCreateError::UnableToCreatePortTag,   // UNABLE_TO_CREATE_PORT_TAG
        );
        // port_factory_notifier_builder.rs
        tab!(rows, NotifierCreateError, iceoryx2::port::notifier::NotifierCreateError, iox2_notifier_create_error_e, iox2_notifier_create_error_e::EXCEEDS_MAX_SUPPORTED_NOTIFIERS, iox2_notifier_create_error_e::UNABLE_TO_CREATE_PORT_TAG;
            NotifierCreateError::ExceedsMaxSupportedNotifiers => NotifierCreateError::ExceedsMaxSupportedNotifiers,   // EXCEEDS_MAX_SUPPORTED_NOTIFIERS
            NotifierCreateError::FailedToDeployThreadsafetyPolicy => NotifierCreateError::FailedToDeployThreadsafetyPolicy,   // FAILED_TO_DEPLOY_THREAD_SAFETY_POLICY
            NotifierCreateError::UnableToCreatePortTag => NotifierCreateError::UnableToCreatePortTag,   // UNABLE_TO_CREATE_PORT_TAG
        );
        // port_factory_publisher_builder.rs
        tab!(rows, PublisherCreateError, iceoryx2::port::publisher::PublisherCreateError, iox2_publisher_create_error_e, iox2_publisher_create_error_e::EXCEEDS_MAX_SUPPORTED_PUBLISHERS, iox2_publisher_create_error_e::UNABLE_TO_CREATE_PORT_TAG;
            PublisherCreateError::ExceedsMaxSupportedPublishers => PublisherCreateError::ExceedsMaxSupportedPublishers,   // EXCEEDS_MAX_SUPPORTED_PUBLISHERS
            PublisherCreateError::UnableToCreateDataSegment => PublisherCreateError::UnableToCreateDataSegment,   // UNABLE_TO_CREATE_DATA_SEGMENT
            PublisherCreateError::FailedToDeployThreadsafetyPolicy => PublisherCreateError::FailedToDeployThreadsafetyPolicy,   // FAILED_TO_DEPLOY_THREAD_SAFETY_POLICY
            PublisherCreateError::UnableToCreatePortTag => PublisherCreateError::UnableToCreatePortTag,   // UNABLE_TO_CREATE_PORT_TAG
        );
        // port_factory_reader_builder.rs
        tab!(rows, ReaderCreateError, iceoryx2::port::reader::ReaderCreateError, iox2_reader_create_error_e, iox2_reader_create_error_e::EXCEEDS_MAX_SUPPORTED_READERS, iox2_reader_create_error_e::UNABLE_TO_CREATE_PORT_TAG;
            ReaderCreateError::ExceedsMaxSupportedReaders => ReaderCreateError::ExceedsMaxSupportedReaders,   // EXCEEDS_MAX_SUPPORTED_READERS
            ReaderCreateError::FailedToDeployThreadsafetyPolicy => ReaderCreateError::FailedToDeployThreadsafetyPolicy,   // FAILED_TO_DEPLOY_THREADSAFETY_POLICY
            ReaderCreateError::UnableToCreatePortTag => ReaderCreateError::UnableToCreatePortTag,   // UNABLE_TO_CREATE_PORT_TAG
        );
        // port_factory_server_builder.rs
        tab!(rows, ServerCreateError, iceoryx2::service::port_factory::server::ServerCreateError, iox2_server_create_error_e, iox2_server_create_error_e::EXCEEDS_MAX_SUPPORTED_SERVERS, iox2_server_create_error_e::UNABLE_TO_CREATE_PORT_TAG;
            ServerCreateError::UnableToCreateDataSegment => ServerCreateError::UnableToCreateDataSegment,   // UNABLE_TO_CREATE_DATA_SEGMENT
            ServerCreateError::ExceedsMaxSupportedServers => ServerCreateError::ExceedsMaxSupportedServers,   // EXCEEDS_MAX_SUPPORTED_SERVERS
            ServerCreateError::FailedToDeployThreadsafetyPolicy => ServerCreateError::FailedToDeployThreadsafetyPolicy,   // FAILED_TO_DEPLOY_THREAD_SAFETY_POLICY
            ServerCreateError::UnableToCreatePortTag => ServerCreateError::UnableToCreatePortTag,   // UNABLE_TO_CREATE_PORT_TAG
        );
        // port_factory_subscriber_builder.rs
        tab!(rows, SubscriberCreateError, iceoryx2::port::subscriber::SubscriberCreateError, iox2_subscriber_create_error_e, iox2_subscriber_create_error_e::EXCEEDS_MAX_SUPPORTED_SUBSCRIBERS, iox2_subscriber_create_error_e::HISTORY_REQUEST_EXCEEDS_BUFFER_SIZE_OF_SUBSCRIBER;
            SubscriberCreateError::ExceedsMaxSupportedSubscribers => SubscriberCreateError::ExceedsMaxSupportedSubscribers,   // EXCEEDS_MAX_SUPPORTED_SUBSCRIBERS
            SubscriberCreateError::BufferSizeExceedsMaxSupportedBufferSizeOfService => SubscriberCreateError::BufferSizeExceedsMaxSupportedBufferSizeOfService,   // BUFFER_SIZE_EXCEEDS_MAX_SUPPORTED_BUFFER_SIZE_OF_SERVICE
            SubscriberCreateError::FailedToDeployThreadsafetyPolicy => SubscriberCreateError::FailedToDeployThreadsafetyPolicy,   // FAILED_TO_DEPLOY_THREAD_SAFETY_POLICY
            SubscriberCreateError::UnableToCreatePortTag => SubscriberCreateError::UnableToCreatePortTag,   // UNABLE_TO_CREATE_PORT_TAG
            SubscriberCreateError::HistoryRequestExceedsHistorySizeOfService => SubscriberCreateError::HistoryRequestExceedsHistorySizeOfService,   // HISTORY_REQUEST_EXCEEDS_HISTORY_SIZE_OF_SERVICE
            SubscriberCreateError::HistoryRequestExceedsBufferSizeOfSubscriber => SubscriberCreateError::HistoryRequestExceedsBufferSizeOfSubscriber,   // HISTORY_REQUEST_EXCEEDS_BUFFER_SIZE_OF_SUBSCRIBER
        );
        // port_factory_writer_builder.rs
        tab!(rows, WriterCreateError, iceoryx2::port::writer::WriterCreateError, iox2_writer_create_error_e, iox2_writer_create_error_e::EXCEEDS_MAX_SUPPORTED_WRITERS, iox2_writer_create_error_e::UNABLE_TO_CREATE_PORT_TAG;
            WriterCreateError::ExceedsMaxSupportedWriters => WriterCreateError::ExceedsMaxSupportedWriters,   // EXCEEDS_MAX_SUPPORTED_WRITERS
            WriterCreateError::InternalFailure => WriterCreateError::InternalFailure,   // INTERNAL_FAILURE
            WriterCreateError::FailedToDeployThreadsafetyPolicy => WriterCreateError::FailedToDeployThreadsafetyPolicy,   // FAILED_TO_DEPLOY_THREADSAFETY_POLICY
            WriterCreateError::UnableToCreatePortTag => WriterCreateError::UnableToCreatePortTag,   // UNABLE_TO_CREATE_PORT_TAG
        );
        // publisher.rs
        tab!(rows, SendError, iceoryx2::port::SendError, iox2_send_error_e, iox2_send_error_e::CONNECTION_BROKEN_SINCE_SENDER_NO_LONGER_EXISTS, iox2_send_error_e::INTERNAL_ERROR;
            SendError::InternalError => SendError::InternalError,   // INTERNAL_ERROR
            SendError::ConnectionBrokenSinceSenderNoLongerExists => SendError::ConnectionBrokenSinceSenderNoLongerExists,   // CONNECTION_BROKEN_SINCE_SENDER_NO_LONGER_EXISTS
            SendError::ConnectionCorrupted => SendError::ConnectionCorrupted,   // CONNECTION_CORRUPTED
            SendError::LoanError(LoanError::OutOfMemory) => SendError::LoanError(LoanError::OutOfMemory),   // LOAN_ERROR_OUT_OF_MEMORY
            SendError::LoanError(LoanError::ExceedsMaxLoans) => SendError::LoanError(LoanError::ExceedsMaxLoans),   // LOAN_ERROR_EXCEEDS_MAX_LOANS
            SendError::LoanError(LoanError::ExceedsMaxLoanSize) => SendError::LoanError(LoanError::ExceedsMaxLoanSize),   // LOAN_ERROR_EXCEEDS_MAX_LOAN_SIZE
            SendError::LoanError(LoanError::InternalFailure) => SendError::LoanError(LoanError::InternalFailure),   // LOAN_ERROR_INTERNAL_FAILURE
            SendError::ConnectionError(_) => SendError::ConnectionError(ConnectionFailure::FailedToEstablishConnection(ZeroCopyCreationError::InternalError)),   // CONNECTION_ERROR
            SendError::UnableToDeliver => SendError::UnableToDeliver,   // UNABLE_TO_DELIVER
        );
        // publisher.rs
        tab!(rows, LoanError, iceoryx2::port::LoanError, iox2_loan_error_e, iox2_loan_error_e::OUT_OF_MEMORY, iox2_loan_error_e::INTERNAL_FAILURE;
            LoanError::OutOfMemory => LoanError::OutOfMemory,   // OUT_OF_MEMORY
            LoanError::ExceedsMaxLoans => LoanError::ExceedsMaxLoans,   // EXCEEDS_MAX_LOANED_SAMPLES
            LoanError::ExceedsMaxLoanSize => LoanError::ExceedsMaxLoanSize,   // EXCEEDS_MAX_LOAN_SIZE
            LoanError::InternalFailure => LoanError::InternalFailure,   // INTERNAL_FAILURE
        );
        // reader.rs
        tab!(rows, EntryHandleError, iceoryx2::port::reader::EntryHandleError, iox2_entry_handle_error_e, iox2_entry_handle_error_e::ENTRY_DOES_NOT_EXIST, iox2_entry_handle_error_e::ENTRY_DOES_NOT_EXIST;
            EntryHandleError::EntryDoesNotExist => EntryHandleError::EntryDoesNotExist,   // ENTRY_DOES_NOT_EXIST
        );
        // request_mut.rs
        tab!(rows, RequestSendError, iceoryx2::port::client::RequestSendError, iox2_request_send_error_e, iox2_request_send_error_e::CONNECTION_BROKEN_SINCE_SENDER_NO_LONGER_EXISTS, iox2_request_send_error_e::INTERNAL_ERROR;
            RequestSendError::SendError(SendError::ConnectionBrokenSinceSenderNoLongerExists) => RequestSendError::SendError(SendError::ConnectionBrokenSinceSenderNoLongerExists),   // CONNECTION_BROKEN_SINCE_SENDER_NO_LONGER_EXISTS
            RequestSendError::SendError(SendError::ConnectionCorrupted) => RequestSendError::SendError(SendError::ConnectionCorrupted),   // CONNECTION_CORRUPTED
            RequestSendError::SendError(SendError::LoanError(LoanError::OutOfMemory)) => RequestSendError::SendError(SendError::LoanError(LoanError::OutOfMemory)),   // LOAN_ERROR_OUT_OF_MEMORY
            RequestSendError::SendError(SendError::LoanError(LoanError::ExceedsMaxLoans)) => RequestSendError::SendError(SendError::LoanError(LoanError::ExceedsMaxLoans)),   // LOAN_ERROR_EXCEEDS_MAX_LOANS
            RequestSendError::SendError(SendError::LoanError(LoanError::ExceedsMaxLoanSize)) => RequestSendError::SendError(SendError::LoanError(LoanError::ExceedsMaxLoanSize)),   // LOAN_ERROR_EXCEEDS_MAX_LOAN_SIZE
            RequestSendError::SendError(SendError::LoanError(LoanError::InternalFailure)) => RequestSendError::SendError(SendError::LoanError(LoanError::InternalFailure)),   // LOAN_ERROR_INTERNAL_FAILURE
            RequestSendError::SendError(SendError::ConnectionError(_)) => RequestSendError::SendError(SendError::ConnectionError(ConnectionFailure::FailedToEstablishConnection(ZeroCopyCreationError::InternalError))),   // CONNECTION_ERROR
            RequestSendError::ExceedsMaxActiveRequests => RequestSendError::ExceedsMaxActiveRequests,   // EXCEEDS_MAX_ACTIVE_REQUESTS
            RequestSendError::SendError(SendError::UnableToDeliver) => RequestSendError::SendError(SendError::UnableToDeliver),   // UNABLE_TO_DELIVER
            RequestSendError::SendError(SendError::InternalError) => RequestSendError::SendError(SendError::InternalError),   // INTERNAL_ERROR
        );
        // resizable_memory_publish_subscribe.rs
        tab!(rows, AllocationGrowError, iceoryx2_bb_elementary_traits::allocator::AllocationGrowError, iox2_allocation_grow_error_e, iox2_allocation_grow_error_e::GROW_WOULD_SHRINK, iox2_allocation_grow_error_e::INTERNAL_ERROR;
            AllocationGrowError::AlignmentFailure => AllocationGrowError::AlignmentFailure,   // ALIGNMENT_FAILURE
            AllocationGrowError::GrowWouldShrink => AllocationGrowError::GrowWouldShrink,   // GROW_WOULD_SHRINK
            AllocationGrowError::InternalError => AllocationGrowError::InternalError,   // INTERNAL_ERROR
            AllocationGrowError::OutOfMemory => AllocationGrowError::OutOfMemory,   // OUT_OF_MEMORY
            AllocationGrowError::SizeIsZero => AllocationGrowError::SizeIsZero,   // SIZE_IS_ZERO
        );
        // service.rs
        tab!(rows, ServiceDetailsError, iceoryx2::service::ServiceDetailsError, iox2_service_details_error_e, iox2_service_details_error_e::FAILED_TO_OPEN_STATIC_SERVICE_INFO, iox2_service_details_error_e::INSUFFICIENT_PERMISSIONS;
            ServiceDetailsError::FailedToOpenStaticServiceInfo => ServiceDetailsError::FailedToOpenStaticServiceInfo,   // FAILED_TO_OPEN_STATIC_SERVICE_INFO
            ServiceDetailsError::Interrupt => ServiceDetailsError::Interrupt,   // INTERRUPT
            ServiceDetailsError::InsufficientPermissions => ServiceDetailsError::InsufficientPermissions,   // INSUFFICIENT_PERMISSIONS
            ServiceDetailsError::FailedToReadStaticServiceInfo => ServiceDetailsError::FailedToReadStaticServiceInfo,   // FAILED_TO_READ_STATIC_SERVICE_INFO
            ServiceDetailsError::FailedToDeserializeStaticServiceInfo => ServiceDetailsError::FailedToDeserializeStaticServiceInfo,   // FAILED_TO_DESERIALIZE_STATIC_SERVICE_INFO
            ServiceDetailsError::ServiceInInconsistentState => ServiceDetailsError::ServiceInInconsistentState,   // SERVICE_IN_INCONSISTENT_STATE
            ServiceDetailsError::VersionMismatch => ServiceDetailsError::VersionMismatch,   // VERSION_MISMATCH
            ServiceDetailsError::InternalError => ServiceDetailsError::InternalError,   // INTERNAL_ERROR
            ServiceDetailsError::FailedToAcquireNodeState => ServiceDetailsError::FailedToAcquireNodeState,   // FAILED_TO_ACQUIRE_NODE_STATE
        );
        // service.rs
        tab!(rows, ServiceListError, iceoryx2::service::ServiceListError, iox2_service_list_error_e, iox2_service_list_error_e::INSUFFICIENT_PERMISSIONS, iox2_service_list_error_e::INTERNAL_ERROR;
            ServiceListError::InternalError => ServiceListError::InternalError,   // INTERNAL_ERROR
            ServiceListError::InsufficientPermissions => ServiceListError::InsufficientPermissions,   // INSUFFICIENT_PERMISSIONS
        );
        // service_builder_blackboard.rs
        tab!(rows, BlackboardOpenError, iceoryx2::service::builder::blackboard::BlackboardOpenError, iox2_blackboard_open_error_e, iox2_blackboard_open_error_e::O_DOES_NOT_EXIST, iox2_blackboard_open_error_e::O_INTERRUPT;
            BlackboardOpenError::Interrupt => BlackboardOpenError::Interrupt,   // O_INTERRUPT
            BlackboardOpenError::DoesNotExist => BlackboardOpenError::DoesNotExist,   // O_DOES_NOT_EXIST
            BlackboardOpenError::ServiceInCorruptedState => BlackboardOpenError::ServiceInCorruptedState,   // O_SERVICE_IN_CORRUPTED_STATE
            BlackboardOpenError::IncompatibleKeys => BlackboardOpenError::IncompatibleKeys,   // O_INCOMPATIBLE_KEYS
            BlackboardOpenError::InternalFailure => BlackboardOpenError::InternalFailure,   // O_INTERNAL_FAILURE
            BlackboardOpenError::IncompatibleAttributes => BlackboardOpenError::IncompatibleAttributes,   // O_INCOMPATIBLE_ATTRIBUTES
            BlackboardOpenError::IncompatibleMessagingPattern => BlackboardOpenError::IncompatibleMessagingPattern,   // O_INCOMPATIBLE_MESSAGING_PATTERN
            BlackboardOpenError::DoesNotSupportRequestedAmountOfReaders => BlackboardOpenError::DoesNotSupportRequestedAmountOfReaders,   // O_DOES_NOT_SUPPORT_REQUESTED_AMOUNT_OF_READERS
            BlackboardOpenError::InsufficientPermissions => BlackboardOpenError::InsufficientPermissions,   // O_INSUFFICIENT_PERMISSIONS
            BlackboardOpenError::HangsInCreation => BlackboardOpenError::HangsInCreation,   // O_HANGS_IN_CREATION
            BlackboardOpenError::IsMarkedForDestruction => BlackboardOpenError::IsMarkedForDestruction,   // O_IS_MARKED_FOR_DESTRUCTION
            BlackboardOpenError::ExceedsMaxNumberOfNodes => BlackboardOpenError::ExceedsMaxNumberOfNodes,   // O_EXCEEDS_MAX_NUMBER_OF_NODES
            BlackboardOpenError::DoesNotSupportRequestedAmountOfNodes => BlackboardOpenError::DoesNotSupportRequestedAmountOfNodes,   // O_DOES_NOT_SUPPORT_REQUESTED_AMOUNT_OF_NODES
            BlackboardOpenError::UnableToCreateServiceTag => BlackboardOpenError::UnableToCreateServiceTag,   // O_UNABLE_TO_CREATE_SERVICE_TAG
            BlackboardOpenError::VersionMismatch => BlackboardOpenError::VersionMismatch,   // O_VERSION_MISMATCH
        );
        // service_builder_blackboard.rs
        tab!(rows, BlackboardCreateError, iceoryx2::service::builder::blackboard::BlackboardCreateError, iox2_blackboard_create_error_e, iox2_blackboard_create_error_e::C_ALREADY_EXISTS, iox2_blackboard_create_error_e::C_INTERRUPT;
            BlackboardCreateError::Interrupt => BlackboardCreateError::Interrupt,   // C_INTERRUPT
            BlackboardCreateError::AlreadyExists => BlackboardCreateError::AlreadyExists,   // C_ALREADY_EXISTS
            BlackboardCreateError::IsBeingCreatedByAnotherInstance => BlackboardCreateError::IsBeingCreatedByAnotherInstance,   // C_IS_BEING_CREATED_BY_ANOTHER_INSTANCE
            BlackboardCreateError::InternalFailure => BlackboardCreateError::InternalFailure,   // C_INTERNAL_FAILURE
            BlackboardCreateError::InsufficientPermissions => BlackboardCreateError::InsufficientPermissions,   // C_INSUFFICIENT_PERMISSIONS
            BlackboardCreateError::ServiceInCorruptedState => BlackboardCreateError::ServiceInCorruptedState,   // C_SERVICE_IN_CORRUPTED_STATE
            BlackboardCreateError::HangsInCreation => BlackboardCreateError::HangsInCreation,   // C_HANGS_IN_CREATION
            BlackboardCreateError::NoEntriesProvided => BlackboardCreateError::NoEntriesProvided,   // C_NO_ENTRIES_PROVIDED
            BlackboardCreateError::ServiceConfigCouldNotBeCreated => BlackboardCreateError::ServiceConfigCouldNotBeCreated,   // C_SERVICE_CONFIG_COULD_NOT_BE_CREATED
            BlackboardCreateError::UnableToCreateServiceTag => BlackboardCreateError::UnableToCreateServiceTag,   // C_UNABLE_TO_CREATE_SERVICE_TAG
        );
        // service_builder_event.rs
        tab!(rows, EventOpenError, iceoryx2::service::builder::event::EventOpenError, iox2_event_open_or_create_error_e, iox2_event_open_or_create_error_e::O_DOES_NOT_EXIST, iox2_event_open_or_create_error_e::SYSTEM_IN_FLUX;
            EventOpenError::Interrupt => EventOpenError::Interrupt,   // C_INTERRUPT
            EventOpenError::DoesNotExist => EventOpenError::DoesNotExist,   // O_DOES_NOT_EXIST
            EventOpenError::InsufficientPermissions => EventOpenError::InsufficientPermissions,   // O_INSUFFICIENT_PERMISSIONS
            EventOpenError::ServiceInCorruptedState => EventOpenError::ServiceInCorruptedState,   // O_SERVICE_IN_CORRUPTED_STATE
            EventOpenError::IncompatibleMessagingPattern => EventOpenError::IncompatibleMessagingPattern,   // O_INCOMPATIBLE_MESSAGING_PATTERN
            EventOpenError::IncompatibleAttributes => EventOpenError::IncompatibleAttributes,   // O_INCOMPATIBLE_ATTRIBUTES
            EventOpenError::InternalFailure => EventOpenError::InternalFailure,   // O_INTERNAL_FAILURE
            EventOpenError::HangsInCreation => EventOpenError::HangsInCreation,   // O_HANGS_IN_CREATION
            EventOpenError::DoesNotSupportRequestedAmountOfNotifiers => EventOpenError::DoesNotSupportRequestedAmountOfNotifiers,   // O_DOES_NOT_SUPPORT_REQUESTED_AMOUNT_OF_NOTIFIERS
            EventOpenError::DoesNotSupportRequestedAmountOfListeners => EventOpenError::DoesNotSupportRequestedAmountOfListeners,   // O_DOES_NOT_SUPPORT_REQUESTED_AMOUNT_OF_LISTENERS
            EventOpenError::DoesNotSupportRequestedMaxEventId => EventOpenError::DoesNotSupportRequestedMaxEventId,   // O_DOES_NOT_SUPPORT_REQUESTED_MAX_EVENT_ID
            EventOpenError::DoesNotSupportRequestedAmountOfNodes => EventOpenError::DoesNotSupportRequestedAmountOfNodes,   // O_DOES_NOT_SUPPORT_REQUESTED_AMOUNT_OF_NODES
            EventOpenError::ExceedsMaxNumberOfNodes => EventOpenError::ExceedsMaxNumberOfNodes,   // O_EXCEEDS_MAX_NUMBER_OF_NODES
            EventOpenError::IsMarkedForDestruction => EventOpenError::IsMarkedForDestruction,   // O_IS_MARKED_FOR_DESTRUCTION
            EventOpenError::IncompatibleNotifierCreatedEvent => EventOpenError::IncompatibleNotifierCreatedEvent,   // O_INCOMPATIBLE_NOTIFIER_CREATED_EVENT
            EventOpenError::IncompatibleNotifierDroppedEvent => EventOpenError::IncompatibleNotifierDroppedEvent,   // O_INCOMPATIBLE_NOTIFIER_DROPPED_EVENT
            EventOpenError::IncompatibleNotifierDeadEvent => EventOpenError::IncompatibleNotifierDeadEvent,   // O_INCOMPATIBLE_NOTIFIER_DEAD_EVENT
            EventOpenError::IncompatibleDeadline => EventOpenError::IncompatibleDeadline,   // O_INCOMPATIBLE_DEADLINE
            EventOpenError::UnableToCreateServiceTag => EventOpenError::UnableToCreateServiceTag,   // O_UNABLE_TO_CREATE_SERVICE_TAG
            EventOpenError::VersionMismatch => EventOpenError::VersionMismatch,   // O_VERSION_MISMATCH
        );
        // service_builder_event.rs
        tab!(rows, EventCreateError, iceoryx2::service::builder::event::EventCreateError, iox2_event_open_or_create_error_e, iox2_event_open_or_create_error_e::O_DOES_NOT_EXIST, iox2_event_open_or_create_error_e::SYSTEM_IN_FLUX;
            EventCreateError::Interrupt => EventCreateError::Interrupt,   // C_INTERRUPT
            EventCreateError::ServiceInCorruptedState => EventCreateError::ServiceInCorruptedState,   // C_SERVICE_IN_CORRUPTED_STATE
            EventCreateError::InternalFailure => EventCreateError::InternalFailure,   // C_INTERNAL_FAILURE
            EventCreateError::IsBeingCreatedByAnotherInstance => EventCreateError::IsBeingCreatedByAnotherInstance,   // C_IS_BEING_CREATED_BY_ANOTHER_INSTANCE
            EventCreateError::AlreadyExists => EventCreateError::AlreadyExists,   // C_ALREADY_EXISTS
            EventCreateError::InsufficientPermissions => EventCreateError::InsufficientPermissions,   // C_INSUFFICIENT_PERMISSIONS
            EventCreateError::ServiceConfigCouldNotBeCreated => EventCreateError::ServiceConfigCouldNotBeCreated,   // C_SERVICE_CONFIG_COULD_NOT_BE_CREATED
            EventCreateError::UnableToCreateServiceTag => EventCreateError::UnableToCreateServiceTag,   // C_UNABLE_TO_CREATE_SERVICE_TAG
        );
        // service_builder_event.rs
        tab!(rows, EventOpenOrCreateError, iceoryx2::service::builder::event::EventOpenOrCreateError, iox2_event_open_or_create_error_e, iox2_event_open_or_create_error_e::O_DOES_NOT_EXIST, iox2_event_open_or_create_error_e::SYSTEM_IN_FLUX;
            EventOpenOrCreateError::EventOpenError(EventOpenError::Interrupt) => EventOpenOrCreateError::EventOpenError(EventOpenError::Interrupt),   // C_INTERRUPT
            EventOpenOrCreateError::EventOpenError(EventOpenError::DoesNotExist) => EventOpenOrCreateError::EventOpenError(EventOpenError::DoesNotExist),   // O_DOES_NOT_EXIST
            EventOpenOrCreateError::EventOpenError(EventOpenError::InsufficientPermissions) => EventOpenOrCreateError::EventOpenError(EventOpenError::InsufficientPermissions),   // O_INSUFFICIENT_PERMISSIONS
            EventOpenOrCreateError::EventOpenError(EventOpenError::ServiceInCorruptedState) => EventOpenOrCreateError::EventOpenError(EventOpenError::ServiceInCorruptedState),   // O_SERVICE_IN_CORRUPTED_STATE
            EventOpenOrCreateError::EventOpenError(EventOpenError::IncompatibleMessagingPattern) => EventOpenOrCreateError::EventOpenError(EventOpenError::IncompatibleMessagingPattern),   // O_INCOMPATIBLE_MESSAGING_PATTERN
            EventOpenOrCreateError::EventOpenError(EventOpenError::IncompatibleAttributes) => EventOpenOrCreateError::EventOpenError(EventOpenError::IncompatibleAttributes),   // O_INCOMPATIBLE_ATTRIBUTES
            EventOpenOrCreateError::EventOpenError(EventOpenError::InternalFailure) => EventOpenOrCreateError::EventOpenError(EventOpenError::InternalFailure),   // O_INTERNAL_FAILURE
            EventOpenOrCreateError::EventOpenError(EventOpenError::HangsInCreation) => EventOpenOrCreateError::EventOpenError(EventOpenError::HangsInCreation),   // O_HANGS_IN_CREATION
            EventOpenOrCreateError::EventOpenError(EventOpenError::DoesNotSupportRequestedAmountOfNotifiers) => EventOpenOrCreateError::EventOpenError(EventOpenError::DoesNotSupportRequestedAmountOfNotifiers),   // O_DOES_NOT_SUPPORT_REQUESTED_AMOUNT_OF_NOTIFIERS
            EventOpenOrCreateError::EventOpenError(EventOpenError::DoesNotSupportRequestedAmountOfListeners) => EventOpenOrCreateError::EventOpenError(EventOpenError::DoesNotSupportRequestedAmountOfListeners),   // O_DOES_NOT_SUPPORT_REQUESTED_AMOUNT_OF_LISTENERS
            EventOpenOrCreateError::EventOpenError(EventOpenError::DoesNotSupportRequestedMaxEventId) => EventOpenOrCreateError::EventOpenError(EventOpenError::DoesNotSupportRequestedMaxEventId),   // O_DOES_NOT_SUPPORT_REQUESTED_MAX_EVENT_ID
            EventOpenOrCreateError::EventOpenError(EventOpenError::DoesNotSupportRequestedAmountOfNodes) => EventOpenOrCreateError::EventOpenError(EventOpenError::DoesNotSupportRequestedAmountOfNodes),   // O_DOES_NOT_SUPPORT_REQUESTED_AMOUNT_OF_NODES
            EventOpenOrCreateError::EventOpenError(EventOpenError::ExceedsMaxNumberOfNodes) => EventOpenOrCreateError::EventOpenError(EventOpenError::ExceedsMaxNumberOfNodes),   // O_EXCEEDS_MAX_NUMBER_OF_NODES
            EventOpenOrCreateError::EventOpenError(EventOpenError::IsMarkedForDestruction) => EventOpenOrCreateError::EventOpenError(EventOpenError::IsMarkedForDestruction),   // O_IS_MARKED_FOR_DESTRUCTION
            EventOpenOrCreateError::EventOpenError(EventOpenError::IncompatibleNotifierCreatedEvent) => EventOpenOrCreateError::EventOpenError(EventOpenError::IncompatibleNotifierCreatedEvent),   // O_INCOMPATIBLE_NOTIFIER_CREATED_EVENT
            EventOpenOrCreateError::EventOpenError(EventOpenError::IncompatibleNotifierDroppedEvent) => EventOpenOrCreateError::EventOpenError(EventOpenError::IncompatibleNotifierDroppedEvent),   // O_INCOMPATIBLE_NOTIFIER_DROPPED_EVENT
            EventOpenOrCreateError::EventOpenError(EventOpenError::IncompatibleNotifierDeadEvent) => EventOpenOrCreateError::EventOpenError(EventOpenError::IncompatibleNotifierDeadEvent),   // O_INCOMPATIBLE_NOTIFIER_DEAD_EVENT
            EventOpenOrCreateError::EventOpenError(EventOpenError::IncompatibleDeadline) => EventOpenOrCreateError::EventOpenError(EventOpenError::IncompatibleDeadline),   // O_INCOMPATIBLE_DEADLINE
            EventOpenOrCreateError::EventOpenError(EventOpenError::UnableToCreateServiceTag) => EventOpenOrCreateError::EventOpenError(EventOpenError::UnableToCreateServiceTag),   // O_UNABLE_TO_CREATE_SERVICE_TAG
            EventOpenOrCreateError::EventOpenError(EventOpenError::VersionMismatch) => EventOpenOrCreateError::EventOpenError(EventOpenError::VersionMismatch),   // O_VERSION_MISMATCH
            EventOpenOrCreateError::EventCreateError(EventCreateError::Interrupt) => EventOpenOrCreateError::EventCreateError(EventCreateError::Interrupt),   // C_INTERRUPT
            EventOpenOrCreateError::EventCreateError(EventCreateError::ServiceInCorruptedState) => EventOpenOrCreateError::EventCreateError(EventCreateError::ServiceInCorruptedState),   // C_SERVICE_IN_CORRUPTED_STATE
            EventOpenOrCreateError::EventCreateError(EventCreateError::InternalFailure) => EventOpenOrCreateError::EventCreateError(EventCreateError::InternalFailure),   // C_INTERNAL_FAILURE
            EventOpenOrCreateError::EventCreateError(EventCreateError::IsBeingCreatedByAnotherInstance) => EventOpenOrCreateError::EventCreateError(EventCreateError::IsBeingCreatedByAnotherInstance),   // C_IS_BEING_CREATED_BY_ANOTHER_INSTANCE
            EventOpenOrCreateError::EventCreateError(EventCreateError::AlreadyExists) => EventOpenOrCreateError::EventCreateError(EventCreateError::AlreadyExists),   // C_ALREADY_EXISTS
            EventOpenOrCreateError::EventCreateError(EventCreateError::InsufficientPermissions) => EventOpenOrCreateError::EventCreateError(EventCreateError::InsufficientPermissions),   // C_INSUFFICIENT_PERMISSIONS
            EventOpenOrCreateError::EventCreateError(EventCreateError::ServiceConfigCouldNotBeCreated) => EventOpenOrCreateError::EventCreateError(EventCreateError::ServiceConfigCouldNotBeCreated),   // C_SERVICE_CONFIG_COULD_NOT_BE_CREATED
            EventOpenOrCreateError::EventCreateError(EventCreateError::UnableToCreateServiceTag) => EventOpenOrCreateError::EventCreateError(EventCreateError::UnableToCreateServiceTag),   // C_UNABLE_TO_CREATE_SERVICE_TAG
            EventOpenOrCreateError::SystemInFlux => EventOpenOrCreateError::SystemInFlux,   // SYSTEM_IN_FLUX
        );
        // service_builder_pub_sub.rs
        tab!(rows, PublishSubscribeOpenError, iceoryx2::service::builder::publish_subscribe::PublishSubscribeOpenError, iox2_pub_sub_open_or_create_error_e, iox2_pub_sub_open_or_create_error_e::O_DOES_NOT_EXIST, iox2_pub_sub_open_or_create_error_e::SYSTEM_IN_FLUX;
            PublishSubscribeOpenError::Interrupt => PublishSubscribeOpenError::Interrupt,   // O_INTERRUPT
            PublishSubscribeOpenError::DoesNotExist => PublishSubscribeOpenError::DoesNotExist,   // O_DOES_NOT_EXIST
            PublishSubscribeOpenError::InternalFailure => PublishSubscribeOpenError::InternalFailure,   // O_INTERNAL_FAILURE
            PublishSubscribeOpenError::IncompatibleTypes => PublishSubscribeOpenError::IncompatibleTypes,   // O_INCOMPATIBLE_TYPES
            PublishSubscribeOpenError::IncompatibleMessagingPattern => PublishSubscribeOpenError::IncompatibleMessagingPattern,   // O_INCOMPATIBLE_MESSAGING_PATTERN
            PublishSubscribeOpenError::IncompatibleAttributes => PublishSubscribeOpenError::IncompatibleAttributes,   // O_INCOMPATIBLE_ATTRIBUTES
            PublishSubscribeOpenError::DoesNotSupportRequestedMinBufferSize => PublishSubscribeOpenError::DoesNotSupportRequestedMinBufferSize,   // O_DOES_NOT_SUPPORT_REQUESTED_MIN_BUFFER_SIZE
            PublishSubscribeOpenError::DoesNotSupportRequestedMinHistorySize => PublishSubscribeOpenError::DoesNotSupportRequestedMinHistorySize,   // O_DOES_NOT_SUPPORT_REQUESTED_MIN_HISTORY_SIZE
            PublishSubscribeOpenError::DoesNotSupportRequestedMinSubscriberBorrowedSamples => PublishSubscribeOpenError::DoesNotSupportRequestedMinSubscriberBorrowedSamples,   // O_DOES_NOT_SUPPORT_REQUESTED_MIN_SUBSCRIBER_BORROWED_SAMPLES
            PublishSubscribeOpenError::DoesNotSupportRequestedAmountOfPublishers => PublishSubscribeOpenError::DoesNotSupportRequestedAmountOfPublishers,   // O_DOES_NOT_SUPPORT_REQUESTED_AMOUNT_OF_PUBLISHERS
            PublishSubscribeOpenError::DoesNotSupportRequestedAmountOfSubscribers => PublishSubscribeOpenError::DoesNotSupportRequestedAmountOfSubscribers,   // O_DOES_NOT_SUPPORT_REQUESTED_AMOUNT_OF_SUBSCRIBERS
            PublishSubscribeOpenError::DoesNotSupportRequestedAmountOfNodes => PublishSubscribeOpenError::DoesNotSupportRequestedAmountOfNodes,   // O_DOES_NOT_SUPPORT_REQUESTED_AMOUNT_OF_NODES
            PublishSubscribeOpenError::IncompatibleOverflowBehavior => PublishSubscribeOpenError::IncompatibleOverflowBehavior,   // O_INCOMPATIBLE_OVERFLOW_BEHAVIOR
            PublishSubscribeOpenError::InsufficientPermissions => PublishSubscribeOpenError::InsufficientPermissions,   // O_INSUFFICIENT_PERMISSIONS
            PublishSubscribeOpenError::ServiceInCorruptedState => PublishSubscribeOpenError::ServiceInCorruptedState,   // O_SERVICE_IN_CORRUPTED_STATE
            PublishSubscribeOpenError::HangsInCreation => PublishSubscribeOpenError::HangsInCreation,   // O_HANGS_IN_CREATION
            PublishSubscribeOpenError::ExceedsMaxNumberOfNodes => PublishSubscribeOpenError::ExceedsMaxNumberOfNodes,   // O_EXCEEDS_MAX_NUMBER_OF_NODES
            PublishSubscribeOpenError::IsMarkedForDestruction => PublishSubscribeOpenError::IsMarkedForDestruction,   // O_IS_MARKED_FOR_DESTRUCTION
            PublishSubscribeOpenError::UnableToCreateServiceTag => PublishSubscribeOpenError::UnableToCreateServiceTag,   // O_UNABLE_TO_CREATE_SERVICE_TAG
            PublishSubscribeOpenError::VersionMismatch => PublishSubscribeOpenError::VersionMismatch,   // O_VERSION_MISMATCH
            PublishSubscribeOpenError::UnableToAcquireTypeDefinition => PublishSubscribeOpenError::UnableToAcquireTypeDefinition,   // O_UNABLE_TO_ACQUIRE_TYPE_DEFINITION
        );
        // service_builder_pub_sub.rs
        tab!(rows, PublishSubscribeCreateError, iceoryx2::service::builder::publish_subscribe::PublishSubscribeCreateError, iox2_pub_sub_open_or_create_error_e, iox2_pub_sub_open_or_create_error_e::O_DOES_NOT_EXIST, iox2_pub_sub_open_or_create_error_e::SYSTEM_IN_FLUX;
            PublishSubscribeCreateError::Interrupt => PublishSubscribeCreateError::Interrupt,   // C_INTERRUPT
            PublishSubscribeCreateError::ServiceInCorruptedState => PublishSubscribeCreateError::ServiceInCorruptedState,   // C_SERVICE_IN_CORRUPTED_STATE
            PublishSubscribeCreateError::SubscriberBufferMustBeLargerThanHistorySize => PublishSubscribeCreateError::SubscriberBufferMustBeLargerThanHistorySize,   // C_SUBSCRIBER_BUFFER_MUST_BE_LARGER_THAN_HISTORY_SIZE
            PublishSubscribeCreateError::AlreadyExists => PublishSubscribeCreateError::AlreadyExists,   // C_ALREADY_EXISTS
            PublishSubscribeCreateError::InsufficientPermissions => PublishSubscribeCreateError::InsufficientPermissions,   // C_INSUFFICIENT_PERMISSIONS
            PublishSubscribeCreateError::InternalFailure => PublishSubscribeCreateError::InternalFailure,   // C_INTERNAL_FAILURE
            PublishSubscribeCreateError::IsBeingCreatedByAnotherInstance => PublishSubscribeCreateError::IsBeingCreatedByAnotherInstance,   // C_IS_BEING_CREATED_BY_ANOTHER_INSTANCE
            PublishSubscribeCreateError::HangsInCreation => PublishSubscribeCreateError::HangsInCreation,   // C_HANGS_IN_CREATION
            PublishSubscribeCreateError::UnableToCreateServiceTag => PublishSubscribeCreateError::UnableToCreateServiceTag,   // C_UNABLE_TO_CREATE_SERVICE_TAG
            PublishSubscribeCreateError::ServiceConfigCouldNotBeCreated => PublishSubscribeCreateError::ServiceConfigCouldNotBeCreated,   // C_SERVICE_CONFIG_COULD_NOT_BE_CREATED
            PublishSubscribeCreateError::UnableToAcquireTypeDefinition => PublishSubscribeCreateError::UnableToAcquireTypeDefinition,   // C_UNABLE_TO_ACQUIRE_TYPE_DEFINITION
        );
        // service_builder_pub_sub.rs
        tab!(rows, PublishSubscribeOpenOrCreateError, iceoryx2::service::builder::publish_subscribe::PublishSubscribeOpenOrCreateError, iox2_pub_sub_open_or_create_error_e, iox2_pub_sub_open_or_create_error_e::O_DOES_NOT_EXIST, iox2_pub_sub_open_or_create_error_e::SYSTEM_IN_FLUX;
            PublishSubscribeOpenOrCreateError::PublishSubscribeOpenError(PublishSubscribeOpenError::Interrupt) => PublishSubscribeOpenOrCreateError::PublishSubscribeOpenError(PublishSubscribeOpenError::Interrupt),   // O_INTERRUPT
            PublishSubscribeOpenOrCreateError::PublishSubscribeOpenError(PublishSubscribeOpenError::DoesNotExist) => PublishSubscribeOpenOrCreateError::PublishSubscribeOpenError(PublishSubscribeOpenError::DoesNotExist),   // O_DOES_NOT_EXIST
            PublishSubscribeOpenOrCreateError::PublishSubscribeOpenError(PublishSubscribeOpenError::InternalFailure) => PublishSubscribeOpenOrCreateError::PublishSubscribeOpenError(PublishSubscribeOpenError::InternalFailure),   // O_INTERNAL_FAILURE
            PublishSubscribeOpenOrCreateError::PublishSubscribeOpenError(PublishSubscribeOpenError::IncompatibleTypes) => PublishSubscribeOpenOrCreateError::PublishSubscribeOpenError(PublishSubscribeOpenError::IncompatibleTypes),   // O_INCOMPATIBLE_TYPES
            PublishSubscribeOpenOrCreateError::PublishSubscribeOpenError(PublishSubscribeOpenError::IncompatibleMessagingPattern) => PublishSubscribeOpenOrCreateError::PublishSubscribeOpenError(PublishSubscribeOpenError::IncompatibleMessagingPattern),   // O_INCOMPATIBLE_MESSAGING_PATTERN
            PublishSubscribeOpenOrCreateError::PublishSubscribeOpenError(PublishSubscribeOpenError::IncompatibleAttributes) => PublishSubscribeOpenOrCreateError::PublishSubscribeOpenError(PublishSubscribeOpenError::IncompatibleAttributes),   // O_INCOMPATIBLE_ATTRIBUTES
            PublishSubscribeOpenOrCreateError::PublishSubscribeOpenError(PublishSubscribeOpenError::DoesNotSupportRequestedMinBufferSize) => PublishSubscribeOpenOrCreateError::PublishSubscribeOpenError(PublishSubscribeOpenError::DoesNotSupportRequestedMinBufferSize),   // O_DOES_NOT_SUPPORT_REQUESTED_MIN_BUFFER_SIZE
            PublishSubscribeOpenOrCreateError::PublishSubscribeOpenError(PublishSubscribeOpenError::DoesNotSupportRequestedMinHistorySize) => PublishSubscribeOpenOrCreateError::PublishSubscribeOpenError(PublishSubscribeOpenError::DoesNotSupportRequestedMinHistorySize),   // O_DOES_NOT_SUPPORT_REQUESTED_MIN_HISTORY_SIZE
            PublishSubscribeOpenOrCreateError::PublishSubscribeOpenError(PublishSubscribeOpenError::DoesNotSupportRequestedMinSubscriberBorrowedSamples) => PublishSubscribeOpenOrCreateError::PublishSubscribeOpenError(PublishSubscribeOpenError::DoesNotSupportRequestedMinSubscriberBorrowedSamples),   // O_DOES_NOT_SUPPORT_REQUESTED_MIN_SUBSCRIBER_BORROWED_SAMPLES
            PublishSubscribeOpenOrCreateError::PublishSubscribeOpenError(PublishSubscribeOpenError::DoesNotSupportRequestedAmountOfPublishers) => PublishSubscribeOpenOrCreateError::PublishSubscribeOpenError(PublishSubscribeOpenError::DoesNotSupportRequestedAmountOfPublishers),   // O_DOES_NOT_SUPPORT_REQUESTED_AMOUNT_OF_PUBLISHERS
            PublishSubscribeOpenOrCreateError::PublishSubscribeOpenError(PublishSubscribeOpenError::DoesNotSupportRequestedAmountOfSubscribers) => PublishSubscribeOpenOrCreateError::PublishSubscribeOpenError(PublishSubscribeOpenError::DoesNotSupportRequestedAmountOfSubscribers),   // O_DOES_NOT_SUPPORT_REQUESTED_AMOUNT_OF_SUBSCRIBERS
            PublishSubscribeOpenOrCreateError::PublishSubscribeOpenError(PublishSubscribeOpenError::DoesNotSupportRequestedAmountOfNodes) => PublishSubscribeOpenOrCreateError::PublishSubscribeOpenError(PublishSubscribeOpenError::DoesNotSupportRequestedAmountOfNodes),   // O_DOES_NOT_SUPPORT_REQUESTED_AMOUNT_OF_NODES
            PublishSubscribeOpenOrCreateError::PublishSubscribeOpenError(PublishSubscribeOpenError::IncompatibleOverflowBehavior) => PublishSubscribeOpenOrCreateError::PublishSubscribeOpenError(PublishSubscribeOpenError::IncompatibleOverflowBehavior),   // O_INCOMPATIBLE_OVERFLOW_BEHAVIOR
            PublishSubscribeOpenOrCreateError::PublishSubscribeOpenError(PublishSubscribeOpenError::InsufficientPermissions) => PublishSubscribeOpenOrCreateError::PublishSubscribeOpenError(PublishSubscribeOpenError::InsufficientPermissions),   // O_INSUFFICIENT_PERMISSIONS
            PublishSubscribeOpenOrCreateError::PublishSubscribeOpenError(PublishSubscribeOpenError::ServiceInCorruptedState) => PublishSubscribeOpenOrCreateError::PublishSubscribeOpenError(PublishSubscribeOpenError::ServiceInCorruptedState),   // O_SERVICE_IN_CORRUPTED_STATE
            PublishSubscribeOpenOrCreateError::PublishSubscribeOpenError(PublishSubscribeOpenError::HangsInCreation) => PublishSubscribeOpenOrCreateError::PublishSubscribeOpenError(PublishSubscribeOpenError::HangsInCreation),   // O_HANGS_IN_CREATION
            PublishSubscribeOpenOrCreateError::PublishSubscribeOpenError(PublishSubscribeOpenError::ExceedsMaxNumberOfNodes) => PublishSubscribeOpenOrCreateError::PublishSubscribeOpenError(PublishSubscribeOpenError::ExceedsMaxNumberOfNodes),   // O_EXCEEDS_MAX_NUMBER_OF_NODES
            PublishSubscribeOpenOrCreateError::PublishSubscribeOpenError(PublishSubscribeOpenError::IsMarkedForDestruction) => PublishSubscribeOpenOrCreateError::PublishSubscribeOpenError(PublishSubscribeOpenError::IsMarkedForDestruction),   // O_IS_MARKED_FOR_DESTRUCTION
            PublishSubscribeOpenOrCreateError::PublishSubscribeOpenError(PublishSubscribeOpenError::UnableToCreateServiceTag) => PublishSubscribeOpenOrCreateError::PublishSubscribeOpenError(PublishSubscribeOpenError::UnableToCreateServiceTag),   // O_UNABLE_TO_CREATE_SERVICE_TAG
            PublishSubscribeOpenOrCreateError::PublishSubscribeOpenError(PublishSubscribeOpenError::VersionMismatch) => PublishSubscribeOpenOrCreateError::PublishSubscribeOpenError(PublishSubscribeOpenError::VersionMismatch),   // O_VERSION_MISMATCH
            PublishSubscribeOpenOrCreateError::PublishSubscribeOpenError(PublishSubscribeOpenError::UnableToAcquireTypeDefinition) => PublishSubscribeOpenOrCreateError::PublishSubscribeOpenError(PublishSubscribeOpenError::UnableToAcquireTypeDefinition),   // O_UNABLE_TO_ACQUIRE_TYPE_DEFINITION
            PublishSubscribeOpenOrCreateError::PublishSubscribeCreateError(PublishSubscribeCreateError::Interrupt) => PublishSubscribeOpenOrCreateError::PublishSubscribeCreateError(PublishSubscribeCreateError::Interrupt),   // C_INTERRUPT
            PublishSubscribeOpenOrCreateError::PublishSubscribeCreateError(PublishSubscribeCreateError::ServiceInCorruptedState) => PublishSubscribeOpenOrCreateError::PublishSubscribeCreateError(PublishSubscribeCreateError::ServiceInCorruptedState),   // C_SERVICE_IN_CORRUPTED_STATE
            PublishSubscribeOpenOrCreateError::PublishSubscribeCreateError(PublishSubscribeCreateError::SubscriberBufferMustBeLargerThanHistorySize) => PublishSubscribeOpenOrCreateError::PublishSubscribeCreateError(PublishSubscribeCreateError::SubscriberBufferMustBeLargerThanHistorySize),   // C_SUBSCRIBER_BUFFER_MUST_BE_LARGER_THAN_HISTORY_SIZE
            PublishSubscribeOpenOrCreateError::PublishSubscribeCreateError(PublishSubscribeCreateError::AlreadyExists) => PublishSubscribeOpenOrCreateError::PublishSubscribeCreateError(PublishSubscribeCreateError::AlreadyExists),   // C_ALREADY_EXISTS
            PublishSubscribeOpenOrCreateError::PublishSubscribeCreateError(PublishSubscribeCreateError::InsufficientPermissions) => PublishSubscribeOpenOrCreateError::PublishSubscribeCreateError(PublishSubscribeCreateError::InsufficientPermissions),   // C_INSUFFICIENT_PERMISSIONS
            PublishSubscribeOpenOrCreateError::PublishSubscribeCreateError(PublishSubscribeCreateError::InternalFailure) => PublishSubscribeOpenOrCreateError::PublishSubscribeCreateError(PublishSubscribeCreateError::InternalFailure),   // C_INTERNAL_FAILURE
            PublishSubscribeOpenOrCreateError::PublishSubscribeCreateError(PublishSubscribeCreateError::IsBeingCreatedByAnotherInstance) => PublishSubscribeOpenOrCreateError::PublishSubscribeCreateError(PublishSubscribeCreateError::IsBeingCreatedByAnotherInstance),   // C_IS_BEING_CREATED_BY_ANOTHER_INSTANCE
            PublishSubscribeOpenOrCreateError::PublishSubscribeCreateError(PublishSubscribeCreateError::HangsInCreation) => PublishSubscribeOpenOrCreateError::PublishSubscribeCreateError(PublishSubscribeCreateError::HangsInCreation),   // C_HANGS_IN_CREATION
            PublishSubscribeOpenOrCreateError::PublishSubscribeCreateError(PublishSubscribeCreateError::UnableToCreateServiceTag) => PublishSubscribeOpenOrCreateError::PublishSubscribeCreateError(PublishSubscribeCreateError::UnableToCreateServiceTag),   // C_UNABLE_TO_CREATE_SERVICE_TAG
            PublishSubscribeOpenOrCreateError::PublishSubscribeCreateError(PublishSubscribeCreateError::ServiceConfigCouldNotBeCreated) => PublishSubscribeOpenOrCreateError::PublishSubscribeCreateError(PublishSubscribeCreateError::ServiceConfigCouldNotBeCreated),   // C_SERVICE_CONFIG_COULD_NOT_BE_CREATED
            PublishSubscribeOpenOrCreateError::PublishSubscribeCreateError(PublishSubscribeCreateError::UnableToAcquireTypeDefinition) => PublishSubscribeOpenOrCreateError::PublishSubscribeCreateError(PublishSubscribeCreateError::UnableToAcquireTypeDefinition),   // C_UNABLE_TO_ACQUIRE_TYPE_DEFINITION
            PublishSubscribeOpenOrCreateError::SystemInFlux => PublishSubscribeOpenOrCreateError::SystemInFlux,   // SYSTEM_IN_FLUX
        );
        // service_builder_request_response.rs
        tab!(rows, RequestResponseOpenError, iceoryx2::service::builder::request_response::RequestResponseOpenError, iox2_request_response_open_or_create_error_e, iox2_request_response_open_or_create_error_e::O_DOES_NOT_EXIST, iox2_request_response_open_or_create_error_e::SYSTEM_IN_FLUX;
            RequestResponseOpenError::Interrupt => RequestResponseOpenError::Interrupt,   // O_INTERRUPT
            RequestResponseOpenError::DoesNotExist => RequestResponseOpenError::DoesNotExist,   // O_DOES_NOT_EXIST
            RequestResponseOpenError::DoesNotSupportRequestedAmountOfClientRequestLoans => RequestResponseOpenError::DoesNotSupportRequestedAmountOfClientRequestLoans,   // O_DOES_NOT_SUPPORT_REQUESTED_AMOUNT_OF_CLIENT_REQUEST_LOANS
            RequestResponseOpenError::DoesNotSupportRequestedAmountOfActiveRequestsPerClient => RequestResponseOpenError::DoesNotSupportRequestedAmountOfActiveRequestsPerClient,   // O_DOES_NOT_SUPPORT_REQUESTED_AMOUNT_OF_ACTIVE_REQUESTS_PER_CLIENT
            RequestResponseOpenError::DoesNotSupportRequestedResponseBufferSize => RequestResponseOpenError::DoesNotSupportRequestedResponseBufferSize,   // O_DOES_NOT_SUPPORT_REQUESTED_RESPONSE_BUFFER_SIZE
            RequestResponseOpenError::DoesNotSupportRequestedAmountOfServers => RequestResponseOpenError::DoesNotSupportRequestedAmountOfServers,   // O_DOES_NOT_SUPPORT_REQUESTED_AMOUNT_OF_SERVERS
            RequestResponseOpenError::DoesNotSupportRequestedAmountOfClients => RequestResponseOpenError::DoesNotSupportRequestedAmountOfClients,   // O_DOES_NOT_SUPPORT_REQUESTED_AMOUNT_OF_CLIENTS
            RequestResponseOpenError::DoesNotSupportRequestedAmountOfNodes => RequestResponseOpenError::DoesNotSupportRequestedAmountOfNodes,   // O_DOES_NOT_SUPPORT_REQUESTED_AMOUNT_OF_NODES
            RequestResponseOpenError::DoesNotSupportRequestedAmountOfBorrowedResponsesPerPendingResponse => RequestResponseOpenError::DoesNotSupportRequestedAmountOfBorrowedResponsesPerPendingResponse,   // O_DOES_NOT_SUPPORT_REQUESTED_AMOUNT_OF_BORROWED_RESPONSES_PER_PENDING_RESPONSE
            RequestResponseOpenError::ExceedsMaxNumberOfNodes => RequestResponseOpenError::ExceedsMaxNumberOfNodes,   // O_EXCEEDS_MAX_NUMBER_OF_NODES
            RequestResponseOpenError::HangsInCreation => RequestResponseOpenError::HangsInCreation,   // O_HANGS_IN_CREATION
            RequestResponseOpenError::IncompatibleRequestOrResponseType => RequestResponseOpenError::IncompatibleRequestOrResponseType,   // O_INCOMPATIBLE_REQUEST_OR_RESPONSE_TYPE
            RequestResponseOpenError::IncompatibleAttributes => RequestResponseOpenError::IncompatibleAttributes,   // O_INCOMPATIBLE_ATTRIBUTES
            RequestResponseOpenError::IncompatibleMessagingPattern => RequestResponseOpenError::IncompatibleMessagingPattern,   // O_INCOMPATIBLE_MESSAGING_PATTERN
            RequestResponseOpenError::IncompatibleOverflowBehaviorForRequests => RequestResponseOpenError::IncompatibleOverflowBehaviorForRequests,   // O_INCOMPATIBLE_OVERFLOW_BEHAVIOR_FOR_REQUESTS
            RequestResponseOpenError::IncompatibleOverflowBehaviorForResponses => RequestResponseOpenError::IncompatibleOverflowBehaviorForResponses,   // O_INCOMPATIBLE_OVERFLOW_BEHAVIOR_FOR_RESPONSES
            RequestResponseOpenError::IncompatibleBehaviorForFireAndForgetRequests => RequestResponseOpenError::IncompatibleBehaviorForFireAndForgetRequests,   // O_INCOMPATIBLE_BEHAVIOR_FOR_FIRE_AND_FORGET_REQUESTS
            RequestResponseOpenError::InsufficientPermissions => RequestResponseOpenError::InsufficientPermissions,   // O_INSUFFICIENT_PERMISSIONS
            RequestResponseOpenError::InternalFailure => RequestResponseOpenError::InternalFailure,   // O_INTERNAL_FAILURE
            RequestResponseOpenError::IsMarkedForDestruction => RequestResponseOpenError::IsMarkedForDestruction,   // O_IS_MARKED_FOR_DESTRUCTION
            RequestResponseOpenError::ServiceInCorruptedState => RequestResponseOpenError::ServiceInCorruptedState,   // O_SERVICE_IN_CORRUPTED_STATE
            RequestResponseOpenError::UnableToCreateServiceTag => RequestResponseOpenError::UnableToCreateServiceTag,   // O_UNABLE_TO_CREATE_SERVICE_TAG
            RequestResponseOpenError::VersionMismatch => RequestResponseOpenError::VersionMismatch,   // O_VERSION_MISMATCH
            RequestResponseOpenError::UnableToAcquireTypeDefinition => RequestResponseOpenError::UnableToAcquireTypeDefinition,   // O_UNABLE_TO_ACQUIRE_TYPE_DEFINITION
        );
        // service_builder_request_response.rs
        tab!(rows, RequestResponseCreateError, iceoryx2::service::builder::request_response::RequestResponseCreateError, iox2_request_response_open_or_create_error_e, iox2_request_response_open_or_create_error_e::O_DOES_NOT_EXIST, iox2_request_response_open_or_create_error_e::SYSTEM_IN_FLUX;
            RequestResponseCreateError::Interrupt => RequestResponseCreateError::Interrupt,   // C_INTERRUPT
            RequestResponseCreateError::AlreadyExists => RequestResponseCreateError::AlreadyExists,   // C_ALREADY_EXISTS
            RequestResponseCreateError::InternalFailure => RequestResponseCreateError::InternalFailure,   // C_INTERNAL_FAILURE
            RequestResponseCreateError::IsBeingCreatedByAnotherInstance => RequestResponseCreateError::IsBeingCreatedByAnotherInstance,   // C_IS_BEING_CREATED_BY_ANOTHER_INSTANCE
            RequestResponseCreateError::InsufficientPermissions => RequestResponseCreateError::InsufficientPermissions,   // C_INSUFFICIENT_PERMISSIONS
            RequestResponseCreateError::HangsInCreation => RequestResponseCreateError::HangsInCreation,   // C_HANGS_IN_CREATION
            RequestResponseCreateError::ServiceInCorruptedState => RequestResponseCreateError::ServiceInCorruptedState,   // C_SERVICE_IN_CORRUPTED_STATE
            RequestResponseCreateError::ServiceConfigCouldNotBeCreated => RequestResponseCreateError::ServiceConfigCouldNotBeCreated,   // C_SERVICE_CONFIG_COULD_NOT_BE_CREATED
            RequestResponseCreateError::UnableToCreateServiceTag => RequestResponseCreateError::UnableToCreateServiceTag,   // C_UNABLE_TO_CREATE_SERVICE_TAG
            RequestResponseCreateError::UnableToAcquireTypeDefinition => RequestResponseCreateError::UnableToAcquireTypeDefinition,   // C_UNABLE_TO_ACQUIRE_TYPE_DEFINITION
        );
        // service_builder_request_response.rs
        tab!(rows, RequestResponseOpenOrCreateError, iceoryx2::service::builder::request_response::RequestResponseOpenOrCreateError, iox2_request_response_open_or_create_error_e, iox2_request_response_open_or_create_error_e::O_DOES_NOT_EXIST, iox2_request_response_open_or_create_error_e::SYSTEM_IN_FLUX;
            RequestResponseOpenOrCreateError::RequestResponseOpenError(RequestResponseOpenError::Interrupt) => RequestResponseOpenOrCreateError::RequestResponseOpenError(RequestResponseOpenError::Interrupt),   // O_INTERRUPT
            RequestResponseOpenOrCreateError::RequestResponseOpenError(RequestResponseOpenError::DoesNotExist) => RequestResponseOpenOrCreateError::RequestResponseOpenError(RequestResponseOpenError::DoesNotExist),   // O_DOES_NOT_EXIST
            RequestResponseOpenOrCreateError::RequestResponseOpenError(RequestResponseOpenError::DoesNotSupportRequestedAmountOfClientRequestLoans) => RequestResponseOpenOrCreateError::RequestResponseOpenError(RequestResponseOpenError::DoesNotSupportRequestedAmountOfClientRequestLoans),   // O_DOES_NOT_SUPPORT_REQUESTED_AMOUNT_OF_CLIENT_REQUEST_LOANS
            RequestResponseOpenOrCreateError::RequestResponseOpenError(RequestResponseOpenError::DoesNotSupportRequestedAmountOfActiveRequestsPerClient) => RequestResponseOpenOrCreateError::RequestResponseOpenError(RequestResponseOpenError::DoesNotSupportRequestedAmountOfActiveRequestsPerClient),   // O_DOES_NOT_SUPPORT_REQUESTED_AMOUNT_OF_ACTIVE_REQUESTS_PER_CLIENT
            RequestResponseOpenOrCreateError::RequestResponseOpenError(RequestResponseOpenError::DoesNotSupportRequestedResponseBufferSize) => RequestResponseOpenOrCreateError::RequestResponseOpenError(RequestResponseOpenError::DoesNotSupportRequestedResponseBufferSize),   // O_DOES_NOT_SUPPORT_REQUESTED_RESPONSE_BUFFER_SIZE
            RequestResponseOpenOrCreateError::RequestResponseOpenError(RequestResponseOpenError::DoesNotSupportRequestedAmountOfServers) => RequestResponseOpenOrCreateError::RequestResponseOpenError(RequestResponseOpenError::DoesNotSupportRequestedAmountOfServers),   // O_DOES_NOT_SUPPORT_REQUESTED_AMOUNT_OF_SERVERS
            RequestResponseOpenOrCreateError::RequestResponseOpenError(RequestResponseOpenError::DoesNotSupportRequestedAmountOfClients) => RequestResponseOpenOrCreateError::RequestResponseOpenError(RequestResponseOpenError::DoesNotSupportRequestedAmountOfClients),   // O_DOES_NOT_SUPPORT_REQUESTED_AMOUNT_OF_CLIENTS
            RequestResponseOpenOrCreateError::RequestResponseOpenError(RequestResponseOpenError::DoesNotSupportRequestedAmountOfNodes) => RequestResponseOpenOrCreateError::RequestResponseOpenError(RequestResponseOpenError::DoesNotSupportRequestedAmountOfNodes),   // O_DOES_NOT_SUPPORT_REQUESTED_AMOUNT_OF_NODES
            RequestResponseOpenOrCreateError::RequestResponseOpenError(RequestResponseOpenError::DoesNotSupportRequestedAmountOfBorrowedResponsesPerPendingResponse) => RequestResponseOpenOrCreateError::RequestResponseOpenError(RequestResponseOpenError::DoesNotSupportRequestedAmountOfBorrowedResponsesPerPendingResponse),   // O_DOES_NOT_SUPPORT_REQUESTED_AMOUNT_OF_BORROWED_RESPONSES_PER_PENDING_RESPONSE
            RequestResponseOpenOrCreateError::RequestResponseOpenError(RequestResponseOpenError::ExceedsMaxNumberOfNodes) => RequestResponseOpenOrCreateError::RequestResponseOpenError(RequestResponseOpenError::ExceedsMaxNumberOfNodes),   // O_EXCEEDS_MAX_NUMBER_OF_NODES
            RequestResponseOpenOrCreateError::RequestResponseOpenError(RequestResponseOpenError::HangsInCreation) => RequestResponseOpenOrCreateError::RequestResponseOpenError(RequestResponseOpenError::HangsInCreation),   // O_HANGS_IN_CREATION
            RequestResponseOpenOrCreateError::RequestResponseOpenError(RequestResponseOpenError::IncompatibleRequestOrResponseType) => RequestResponseOpenOrCreateError::RequestResponseOpenError(RequestResponseOpenError::IncompatibleRequestOrResponseType),   // O_INCOMPATIBLE_REQUEST_OR_RESPONSE_TYPE
            RequestResponseOpenOrCreateError::RequestResponseOpenError(RequestResponseOpenError::IncompatibleAttributes) => RequestResponseOpenOrCreateError::RequestResponseOpenError(RequestResponseOpenError::IncompatibleAttributes),   // O_INCOMPATIBLE_ATTRIBUTES
            RequestResponseOpenOrCreateError::RequestResponseOpenError(RequestResponseOpenError::IncompatibleMessagingPattern) => RequestResponseOpenOrCreateError::RequestResponseOpenError(RequestResponseOpenError::IncompatibleMessagingPattern),   // O_INCOMPATIBLE_MESSAGING_PATTERN
            RequestResponseOpenOrCreateError::RequestResponseOpenError(RequestResponseOpenError::IncompatibleOverflowBehaviorForRequests) => RequestResponseOpenOrCreateError::RequestResponseOpenError(RequestResponseOpenError::IncompatibleOverflowBehaviorForRequests),   // O_INCOMPATIBLE_OVERFLOW_BEHAVIOR_FOR_REQUESTS
            RequestResponseOpenOrCreateError::RequestResponseOpenError(RequestResponseOpenError::IncompatibleOverflowBehaviorForResponses) => RequestResponseOpenOrCreateError::RequestResponseOpenError(RequestResponseOpenError::IncompatibleOverflowBehaviorForResponses),   // O_INCOMPATIBLE_OVERFLOW_BEHAVIOR_FOR_RESPONSES
            RequestResponseOpenOrCreateError::RequestResponseOpenError(RequestResponseOpenError::IncompatibleBehaviorForFireAndForgetRequests) => RequestResponseOpenOrCreateError::RequestResponseOpenError(RequestResponseOpenError::IncompatibleBehaviorForFireAndForgetRequests),   // O_INCOMPATIBLE_BEHAVIOR_FOR_FIRE_AND_FORGET_REQUESTS
            RequestResponseOpenOrCreateError::RequestResponseOpenError(RequestResponseOpenError::InsufficientPermissions) => RequestResponseOpenOrCreateError::RequestResponseOpenError(RequestResponseOpenError::InsufficientPermissions),   // O_INSUFFICIENT_PERMISSIONS
            RequestResponseOpenOrCreateError::RequestResponseOpenError(RequestResponseOpenError::InternalFailure) => RequestResponseOpenOrCreateError::RequestResponseOpenError(RequestResponseOpenError::InternalFailure),   // O_INTERNAL_FAILURE
            RequestResponseOpenOrCreateError::RequestResponseOpenError(RequestResponseOpenError::IsMarkedForDestruction) => RequestResponseOpenOrCreateError::RequestResponseOpenError(RequestResponseOpenError::IsMarkedForDestruction),   // O_IS_MARKED_FOR_DESTRUCTION
            RequestResponseOpenOrCreateError::RequestResponseOpenError(RequestResponseOpenError::ServiceInCorruptedState) => RequestResponseOpenOrCreateError::RequestResponseOpenError(RequestResponseOpenError::ServiceInCorruptedState),   // O_SERVICE_IN_CORRUPTED_STATE
            RequestResponseOpenOrCreateError::RequestResponseOpenError(RequestResponseOpenError::UnableToCreateServiceTag) => RequestResponseOpenOrCreateError::RequestResponseOpenError(RequestResponseOpenError::UnableToCreateServiceTag),   // O_UNABLE_TO_CREATE_SERVICE_TAG
            RequestResponseOpenOrCreateError::RequestResponseOpenError(RequestResponseOpenError::VersionMismatch) => RequestResponseOpenOrCreateError::RequestResponseOpenError(RequestResponseOpenError::VersionMismatch),   // O_VERSION_MISMATCH
            RequestResponseOpenOrCreateError::RequestResponseOpenError(RequestResponseOpenError::UnableToAcquireTypeDefinition) => RequestResponseOpenOrCreateError::RequestResponseOpenError(RequestResponseOpenError::UnableToAcquireTypeDefinition),   // O_UNABLE_TO_ACQUIRE_TYPE_DEFINITION
            RequestResponseOpenOrCreateError::RequestResponseCreateError(RequestResponseCreateError::Interrupt) => RequestResponseOpenOrCreateError::RequestResponseCreateError(RequestResponseCreateError::Interrupt),   // C_INTERRUPT
            RequestResponseOpenOrCreateError::RequestResponseCreateError(RequestResponseCreateError::AlreadyExists) => RequestResponseOpenOrCreateError::RequestResponseCreateError(RequestResponseCreateError::AlreadyExists),   // C_ALREADY_EXISTS
            RequestResponseOpenOrCreateError::RequestResponseCreateError(RequestResponseCreateError::InternalFailure) => RequestResponseOpenOrCreateError::RequestResponseCreateError(RequestResponseCreateError::InternalFailure),   // C_INTERNAL_FAILURE
            RequestResponseOpenOrCreateError::RequestResponseCreateError(RequestResponseCreateError::IsBeingCreatedByAnotherInstance) => RequestResponseOpenOrCreateError::RequestResponseCreateError(RequestResponseCreateError::IsBeingCreatedByAnotherInstance),   // C_IS_BEING_CREATED_BY_ANOTHER_INSTANCE
            RequestResponseOpenOrCreateError::RequestResponseCreateError(RequestResponseCreateError::InsufficientPermissions) => RequestResponseOpenOrCreateError::RequestResponseCreateError(RequestResponseCreateError::InsufficientPermissions),   // C_INSUFFICIENT_PERMISSIONS
            RequestResponseOpenOrCreateError::RequestResponseCreateError(RequestResponseCreateError::HangsInCreation) => RequestResponseOpenOrCreateError::RequestResponseCreateError(RequestResponseCreateError::HangsInCreation),   // C_HANGS_IN_CREATION
            RequestResponseOpenOrCreateError::RequestResponseCreateError(RequestResponseCreateError::ServiceInCorruptedState) => RequestResponseOpenOrCreateError::RequestResponseCreateError(RequestResponseCreateError::ServiceInCorruptedState),   // C_SERVICE_IN_CORRUPTED_STATE
            RequestResponseOpenOrCreateError::RequestResponseCreateError(RequestResponseCreateError::ServiceConfigCouldNotBeCreated) => RequestResponseOpenOrCreateError::RequestResponseCreateError(RequestResponseCreateError::ServiceConfigCouldNotBeCreated),   // C_SERVICE_CONFIG_COULD_NOT_BE_CREATED
            RequestResponseOpenOrCreateError::RequestResponseCreateError(RequestResponseCreateError::UnableToCreateServiceTag) => RequestResponseOpenOrCreateError::RequestResponseCreateError(RequestResponseCreateError::UnableToCreateServiceTag),   // C_UNABLE_TO_CREATE_SERVICE_TAG
            RequestResponseOpenOrCreateError::RequestResponseCreateError(RequestResponseCreateError::UnableToAcquireTypeDefinition) => RequestResponseOpenOrCreateError::RequestResponseCreateError(RequestResponseCreateError::UnableToAcquireTypeDefinition),   // C_UNABLE_TO_ACQUIRE_TYPE_DEFINITION
            RequestResponseOpenOrCreateError::SystemInFlux => RequestResponseOpenOrCreateError::SystemInFlux,   // SYSTEM_IN_FLUX
        );
        // service_name.rs
        tab!(rows, ServiceNameError, iceoryx2::service::service_name::ServiceNameError, iox2_service_name_error_e, iox2_service_name_error_e::INVALID_CONTENT, iox2_service_name_error_e::EXCEEDS_MAXIMUM_LENGTH;
            ServiceNameError::InvalidContent => ServiceNameError::InvalidContent,   // INVALID_CONTENT
            ServiceNameError::ExceedsMaximumLength => ServiceNameError::ExceedsMaximumLength,   // EXCEEDS_MAXIMUM_LENGTH
        );
        // subscriber.rs
        tab!(rows, ReceiveError, iceoryx2::port::ReceiveError, iox2_receive_error_e, iox2_receive_error_e::EXCEEDS_MAX_BORROWS, iox2_receive_error_e::UNABLE_TO_MAP_SENDERS_DATA_SEGMENT;
            ReceiveError::ExceedsMaxBorrows => ReceiveError::ExceedsMaxBorrows,   // EXCEEDS_MAX_BORROWS
            ReceiveError::ConnectionFailure(ConnectionFailure::FailedToEstablishConnection(_)) => ReceiveError::ConnectionFailure(ConnectionFailure::FailedToEstablishConnection(ZeroCopyCreationError::InternalError)),   // FAILED_TO_ESTABLISH_CONNECTION
            ReceiveError::ConnectionFailure(ConnectionFailure::UnableToMapSendersDataSegment(_,)) => ReceiveError::ConnectionFailure(ConnectionFailure::UnableToMapSendersDataSegment(SharedMemoryOpenError::InternalError)),   // UNABLE_TO_MAP_SENDERS_DATA_SEGMENT
        );
        // subscriber.rs
        tab!(rows, ConnectionFailure, iceoryx2::port::update_connections::ConnectionFailure, iox2_connection_failure_e, iox2_connection_failure_e::FAILED_TO_ESTABLISH_CONNECTION, iox2_connection_failure_e::UNABLE_TO_MAP_SENDERS_DATA_SEGMENT;
            ConnectionFailure::FailedToEstablishConnection(_) => ConnectionFailure::FailedToEstablishConnection(ZeroCopyCreationError::InternalError),   // FAILED_TO_ESTABLISH_CONNECTION
            ConnectionFailure::UnableToMapSendersDataSegment(_) => ConnectionFailure::UnableToMapSendersDataSegment(SharedMemoryOpenError::InternalError),   // UNABLE_TO_MAP_SENDERS_DATA_SEGMENT
        );
        // waitset.rs
        tab!(rows, WaitSetRunError, iceoryx2::waitset::WaitSetRunError, iox2_waitset_run_error_e, iox2_waitset_run_error_e::INSUFFICIENT_PERMISSIONS, iox2_waitset_run_error_e::INTERRUPT;
            WaitSetRunError::InsufficientPermissions => WaitSetRunError::InsufficientPermissions,   // INSUFFICIENT_PERMISSIONS
            WaitSetRunError::InternalError => WaitSetRunError::InternalError,   // INTERNAL_ERROR
            WaitSetRunError::NoAttachments => WaitSetRunError::NoAttachments,   // NO_ATTACHMENTS
        );
        // waitset.rs
        tab!(rows, WaitSetAttachmentError, iceoryx2::waitset::WaitSetAttachmentError, iox2_waitset_attachment_error_e, iox2_waitset_attachment_error_e::INSUFFICIENT_CAPACITY, iox2_waitset_attachment_error_e::INSUFFICIENT_RESOURCES;
            WaitSetAttachmentError::InsufficientCapacity => WaitSetAttachmentError::InsufficientCapacity,   // INSUFFICIENT_CAPACITY
            WaitSetAttachmentError::AlreadyAttached => WaitSetAttachmentError::AlreadyAttached,   // ALREADY_ATTACHED
            WaitSetAttachmentError::InternalError => WaitSetAttachmentError::InternalError,   // INTERNAL_ERROR
            WaitSetAttachmentError::InsufficientResources => WaitSetAttachmentError::InsufficientResources,   // INSUFFICIENT_RESOURCES
        );
        // waitset.rs
        tab!(rows, WaitSetCreateError, iceoryx2::waitset::WaitSetCreateError, iox2_waitset_create_error_e, iox2_waitset_create_error_e::INTERNAL_ERROR, iox2_waitset_create_error_e::INSUFFICIENT_RESOURCES;
            WaitSetCreateError::InternalError => WaitSetCreateError::InternalError,   // INTERNAL_ERROR
            WaitSetCreateError::InsufficientResources => WaitSetCreateError::InsufficientResources,   // INSUFFICIENT_RESOURCES
        );
        // writer.rs
        tab!(rows, EntryHandleMutError, iceoryx2::port::writer::EntryHandleMutError, iox2_entry_handle_mut_error_e, iox2_entry_handle_mut_error_e::ENTRY_DOES_NOT_EXIST, iox2_entry_handle_mut_error_e::HANDLE_ALREADY_EXISTS;
            EntryHandleMutError::EntryDoesNotExist => EntryHandleMutError::EntryDoesNotExist,   // ENTRY_DOES_NOT_EXIST
            EntryHandleMutError::HandleAlreadyExists => EntryHandleMutError::HandleAlreadyExists,   // HANDLE_ALREADY_EXISTS
        );
        rows
    }
}
