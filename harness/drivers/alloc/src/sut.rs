//! Uniform wrapper around the REAL allocators under test. Every operation is executed under
//! `catch_unwind`, a panic is data (`r = "panic"`). Nothing is asserted here.

use core::alloc::Layout;
use core::ptr::NonNull;
use std::panic::{AssertUnwindSafe, catch_unwind};

use iceoryx2_bb_elementary::bump_allocator::BumpAllocator as ElemBump;
use iceoryx2_bb_elementary_traits::allocator::{Allocate, AllocationError, Deallocate};
use iceoryx2_bb_memory::one_chunk_allocator::OneChunkAllocator;
use iceoryx2_bb_memory::pool_allocator::{FixedSizePoolAllocator, PoolAllocator};
use iceoryx2_cal::shm_allocator::ShmAllocator;
use iceoryx2_cal::shm_allocator::bump_allocator::BumpAllocator as ShmBump;
use iceoryx2_cal::shm_allocator::pool_allocator::{Config as ShmPoolConfig, PoolAllocator as ShmPool};
use iceoryx2_cal::shm_allocator::PointerOffset;

pub const ARENA_ALIGN: usize = 8192;

/// Memory the allocators manage: `a0` is an address aligned to ARENA_ALIGN, all addresses in traces
/// are relative to it (so that alignments up to 4096 are preserved and numbers stay small).
pub struct Arena {
    _mem: Vec<u8>,
    pub a0: usize,
    pub len: usize,
}

impl Arena {
    pub fn new(len: usize) -> Self {
        let mem = vec![0u8; len + 2 * ARENA_ALIGN];
        let p = mem.as_ptr() as usize;
        let a0 = (p + ARENA_ALIGN - 1) / ARENA_ALIGN * ARENA_ALIGN;
        Arena { _mem: mem, a0, len }
    }
}

#[derive(Clone, Copy, Debug)]
pub struct Cfg {
    pub base: usize, // relative to a0
    pub size: usize,
    pub bsize: usize,
    pub balign: usize,
}

pub fn err_name(e: AllocationError) -> &'static str {
    match e {
        AllocationError::SizeIsZero => "SizeIsZero",
        AllocationError::SizeTooLarge => "SizeTooLarge",
        AllocationError::AlignmentFailure => "AlignmentFailure",
        AllocationError::OutOfMemory => "OutOfMemory",
        AllocationError::InternalError => "InternalError",
    }
}

enum Inner {
    Pool(Box<PoolAllocator>),
    FPool(Box<FixedSizePoolAllocator<32>>),
    ShmPool(Box<ShmPool>),
    Bump(Box<ElemBump>),
    ShmBump(Box<ShmBump>),
    One(Box<OneChunkAllocator>),
}

pub struct Sut {
    inner: Inner,
    _mgmt: Vec<u8>,
    pub a0: usize,
    pub cfg: Cfg,
    pub imp: &'static str,
}

/// model kind of an implementation
pub fn model_kind(imp: &str) -> &'static str {
    match imp {
        "pool" | "fpool" | "shmpool" => "pool",
        "bump" => "bump",
        "shmbump" => "shmbump",
        "one" => "one",
        _ => panic!("unknown impl {imp}"),
    }
}

pub fn impls_of(kind: &str) -> &'static [&'static str] {
    match kind {
        "pool" => &["pool", "shmpool", "fpool"],
        "bump" => &["bump"],
        "shmbump" => &["shmbump"],
        "one" => &["one"],
        _ => &[],
    }
}

pub enum Res {
    Ok(usize), // address relative to a0
    Err(&'static str),
}

impl Sut {
    /// Err(text) if the constructor panicked or failed
    pub fn create(imp: &'static str, arena: &Arena, cfg: Cfg) -> Result<Sut, String> {
        let a0 = arena.a0;
        assert!(cfg.base + cfg.size <= arena.len);
        let ptr = unsafe { NonNull::new_unchecked((a0 + cfg.base) as *mut u8) };
        let r = catch_unwind(AssertUnwindSafe(|| -> Result<(Inner, Vec<u8>), String> {
            match imp {
                "pool" => {
                    let layout = Layout::from_size_align(cfg.bsize, cfg.balign).map_err(|e| format!("{e:?}"))?;
                    let need = PoolAllocator::memory_size(layout, cfg.size) + 64;
                    let mut mgmt = vec![0u8; need];
                    let b = ElemBump::new(unsafe { NonNull::new_unchecked(mgmt.as_mut_ptr()) }, need);
                    let mut a = Box::new(unsafe { PoolAllocator::new_uninit(layout, ptr, cfg.size) });
                    unsafe { a.init(&b) }.map_err(|e| format!("init:{e:?}"))?;
                    Ok((Inner::Pool(a), mgmt))
                }
                "fpool" => {
                    let layout = Layout::from_size_align(cfg.bsize, cfg.balign).map_err(|e| format!("{e:?}"))?;
                    let a = Box::new(FixedSizePoolAllocator::<32>::new(layout, ptr, cfg.size));
                    Ok((Inner::FPool(a), vec![]))
                }
                "shmpool" => {
                    let layout = Layout::from_size_align(cfg.bsize, cfg.balign).map_err(|e| format!("{e:?}"))?;
                    let conf = ShmPoolConfig { bucket_layout: layout };
                    let need = ShmPool::management_size(cfg.size, &conf) + 64;
                    let mut mgmt = vec![0u8; need];
                    let b = ElemBump::new(unsafe { NonNull::new_unchecked(mgmt.as_mut_ptr()) }, need);
                    let mem = NonNull::slice_from_raw_parts(ptr, cfg.size);
                    let mut a = Box::new(unsafe { ShmPool::new_uninit(4096, mem, &conf) });
                    unsafe { a.init(&b) }.map_err(|e| format!("init:{e:?}"))?;
                    Ok((Inner::ShmPool(a), mgmt))
                }
                "bump" => Ok((Inner::Bump(Box::new(ElemBump::new(ptr, cfg.size))), vec![])),
                "shmbump" => {
                    let conf = iceoryx2_cal::shm_allocator::bump_allocator::Config::default();
                    let mem = NonNull::slice_from_raw_parts(ptr, cfg.size);
                    let mut a = Box::new(unsafe { ShmBump::new_uninit(4096, mem, &conf) });
                    let mut dummy = [0u8; 8];
                    let b = ElemBump::new(unsafe { NonNull::new_unchecked(dummy.as_mut_ptr()) }, 8);
                    unsafe { a.init(&b) }.map_err(|e| format!("init:{e:?}"))?;
                    Ok((Inner::ShmBump(a), vec![]))
                }
                "one" => Ok((Inner::One(Box::new(OneChunkAllocator::new(ptr, cfg.size))), vec![])),
                _ => Err(format!("unknown impl {imp}")),
            }
        }));
        match r {
            Ok(Ok((inner, mgmt))) => Ok(Sut { inner, _mgmt: mgmt, a0, cfg, imp }),
            Ok(Err(e)) => Err(e),
            Err(_) => Err("panic".to_string()),
        }
    }

    fn resolve_shmpool(&self, a: &ShmPool, off: PointerOffset) -> usize {
        // what SharedMemory::allocate does: payload_start_address + offset, where the payload start
        // address is the managed memory + relative_start_address()
        self.a0 + self.cfg.base + a.relative_start_address() + off.offset() - self.a0
    }

    pub fn alloc(&self, size: usize, align: usize) -> Res {
        let layout = match Layout::from_size_align(size, align) {
            Ok(l) => l,
            Err(_) => return Res::Err("BadLayout"),
        };
        let a0 = self.a0;
        let r = catch_unwind(AssertUnwindSafe(|| -> Result<usize, AllocationError> {
            match &self.inner {
                Inner::Pool(a) => a.allocate(layout).map(|p| p.as_ptr() as usize - a0),
                Inner::FPool(a) => a.allocate(layout).map(|p| p.as_ptr() as usize - a0),
                Inner::Bump(a) => a.allocate(layout).map(|p| p.as_ptr() as usize - a0),
                Inner::One(a) => a.allocate(layout).map(|p| p.as_ptr() as usize - a0),
                Inner::ShmPool(a) => unsafe { a.assume_init() }
                    .allocate(layout)
                    .map(|o| self.resolve_shmpool(a, o)),
                Inner::ShmBump(a) => unsafe { a.assume_init() }
                    .allocate(layout)
                    .map(|o| self.cfg.base + a.relative_start_address() + o.offset()),
            }
        }));
        match r {
            Ok(Ok(addr)) => Res::Ok(addr),
            Ok(Err(e)) => Res::Err(err_name(e)),
            Err(_) => Res::Err("panic"),
        }
    }

    /// returns "ok" or "panic"
    pub fn free(&self, addr: usize, size: usize, align: usize) -> &'static str {
        let layout = Layout::from_size_align(size, align).unwrap();
        let a0 = self.a0;
        let r = catch_unwind(AssertUnwindSafe(|| unsafe {
            let p = NonNull::new_unchecked((a0 + addr) as *mut u8);
            match &self.inner {
                Inner::Pool(a) => a.deallocate(p, layout),
                Inner::FPool(a) => a.deallocate(p, layout),
                Inner::One(a) => a.deallocate(p, layout),
                Inner::Bump(a) => a.reset(),
                Inner::ShmPool(a) => {
                    let off = addr - self.cfg.base - a.relative_start_address();
                    a.assume_init().deallocate(PointerOffset::new(off), layout)
                }
                Inner::ShmBump(a) => {
                    let off = addr - self.cfg.base - a.relative_start_address();
                    a.assume_init().deallocate(PointerOffset::new(off), layout)
                }
            }
        }));
        if r.is_ok() { "ok" } else { "panic" }
    }

    /// number of bytes the allocator reserves for an allocation at `addr` of a request of `size`
    pub fn extent(&self, addr: usize, size: usize) -> usize {
        match &self.inner {
            Inner::Pool(a) => a.bucket_size(),
            Inner::FPool(a) => a.bucket_size(),
            Inner::ShmPool(a) => a.bucket_size(),
            Inner::Bump(_) | Inner::ShmBump(_) => size,
            Inner::One(_) => (self.cfg.base + self.cfg.size).saturating_sub(addr),
        }
    }

    /// cheap scalar state: used bytes (bump), number of buckets (pool), -1 otherwise
    pub fn used(&self) -> i64 {
        match &self.inner {
            Inner::Bump(a) => a.used_space() as i64,
            Inner::ShmBump(_) => -1,
            Inner::Pool(a) => a.number_of_buckets() as i64,
            Inner::FPool(a) => a.number_of_buckets() as i64,
            Inner::ShmPool(a) => a.number_of_buckets() as i64,
            Inner::One(a) => {
                if a.has_chunk_available() {
                    0
                } else {
                    1
                }
            }
        }
    }

    pub fn is_bump(&self) -> bool {
        matches!(self.inner, Inner::Bump(_) | Inner::ShmBump(_))
    }
}
