//! C15, second sentence: a REAL publisher with a dynamically sized data segment loans slices of
//! increasing length while a subscriber holds samples received before the growth. Every
//! observation (loan result, payload address, bytes seen by the subscriber, canaries of the held
//! samples after every step) is recorded; spec/data/GrowthTrace.tla decides.
//!
//!   growth --root <dir> --prefix <p> --out <trace> [--scenarios N] [--steps M]

use std::collections::VecDeque;

use iceoryx2::prelude::*;
use iceoryx2::port::LoanError;
use vlib::trace::TraceWriter;
use vlib::{Args, Value, json};

fn pat(n: u64, j: usize) -> u8 {
    ((n as usize * 131 + j * 7 + 13) % 251) as u8
}

fn fill(n: u64, j: usize) -> u8 {
    // first 4 bytes carry the sequence number (if the slice is that long)
    if j < 4 { (n >> (8 * j)) as u8 } else { pat(n, j) }
}

fn decode(p: &[u8]) -> u64 {
    let mut n = 0u64;
    for (j, b) in p.iter().take(4).enumerate() {
        n |= (*b as u64) << (8 * j);
    }
    n
}

fn intact(n: u64, p: &[u8]) -> bool {
    p.iter().enumerate().all(|(j, b)| *b == fill(n, j))
}

fn loan_err(e: LoanError) -> &'static str {
    match e {
        LoanError::OutOfMemory => "OutOfMemory",
        LoanError::ExceedsMaxLoans => "ExceedsMaxLoans",
        LoanError::ExceedsMaxLoanSize => "ExceedsMaxLoanSize",
        LoanError::InternalFailure => "InternalFailure",
    }
}

struct Rec {
    a: &'static str,
    n: u64,
    len: usize,
    r: String,
    ok: u8,
    addr: u64, // absolute, 0 = none
}

fn strategy_name(s: AllocationStrategy) -> &'static str {
    match s {
        AllocationStrategy::BestFit => "BestFit",
        AllocationStrategy::PowerOfTwo => "PowerOfTwo",
        AllocationStrategy::Static => "Static",
    }
}

#[allow(clippy::too_many_arguments)]
struct Header {
    /// every loan is longer than the one before, one loan at a time, nothing is held: every step
    /// forces a reallocation of the data segment
    staircase: bool,
    initial: usize,
    max_borrow: usize,
    max_loans: usize,
    grown: u64,
}

/// executes one scenario on the real ports; everything observed is appended to `recs` (so that it
/// survives a panic of the code under test, which is data)
#[allow(clippy::too_many_arguments)]
fn scenario(
    node: &Node<ipc::Service>,
    run: u64,
    rng: &mut vlib::rng::Rng,
    strategy: AllocationStrategy,
    palign: usize,
    steps: u64,
    hdr: &mut Header,
    recs: &mut Vec<Rec>,
) {
    let initial = hdr.initial;
    let max_borrow = hdr.max_borrow;
    let max_loans = hdr.max_loans;
    let name = format!("c15/growth/{run}/{}", rng.below(1 << 30));
    let service = node
        .service_builder(&name.as_str().try_into().unwrap())
        .publish_subscribe::<[u8]>()
        .payload_alignment(Alignment::new(palign).unwrap())
        .subscriber_max_buffer_size(4)
        .subscriber_max_borrowed_samples(max_borrow)
        .history_size(0)
        .max_publishers(1)
        .max_subscribers(1)
        .create()
        .expect("service");
    let publisher = service
        .publisher_builder()
        .initial_max_slice_len(initial)
        .allocation_strategy(strategy)
        .max_loaned_samples(max_loans)
        .create()
        .expect("publisher");
    let subscriber = service.subscriber_builder().create().expect("subscriber");

    let mut held = VecDeque::new(); // (n, sample)
    let mut pending: VecDeque<u64> = VecDeque::new(); // sent, not yet received
    let mut n = 0u64;
    let mut len = initial;
    let mut grown = 0u64;
    for step in 0..steps {
        // choose the next length: mostly growing, sometimes small again; Static never exceeds the
        // initial length except for one deliberate oversize request
        let req = if hdr.staircase {
            len = len * 2 + 1;
            grown += 1;
            hdr.grown = grown;
            len
        } else if strategy == AllocationStrategy::Static {
            if step == steps / 2 { initial + 1 } else { rng.range(1, initial as u64) as usize }
        } else if rng.chance(1, 4) {
            rng.range(1, len as u64) as usize
        } else {
            let f = rng.range(11, 25) as usize;
            len = (len * f / 10 + rng.below(3) as usize).min(300_000);
            grown += 1;
            hdr.grown = grown;
            len
        };
        // several loans at the same time (up to the configured limit, and one beyond it now and then)
        let k = if hdr.staircase {
            1
        } else if rng.chance(1, 5) {
            max_loans + 1
        } else {
            rng.range(1, max_loans as u64) as usize
        };
        let mut loans = vec![];
        for _ in 0..k {
            n += 1;
            match publisher.loan_slice_uninit(req) {
                Ok(s) => {
                    let s = s.write_from_fn(|j| fill(n, j));
                    let addr = s.payload().as_ptr() as u64;
                    recs.push(Rec { a: "loan", n, len: req, r: "ok".into(), ok: 1, addr });
                    loans.push((n, s));
                }
                Err(e) => {
                    recs.push(Rec { a: "loan", n, len: req, r: loan_err(e).into(), ok: 0, addr: 0 });
                }
            }
        }
        // canaries of the loans that are still out must not have been disturbed by later loans
        for (m, s) in loans.iter() {
            recs.push(Rec { a: "pcheck", n: *m, len: s.payload().len(), r: "ok".into(),
                ok: intact(*m, s.payload()) as u8, addr: s.payload().as_ptr() as u64 });
        }
        for (m, s) in loans {
            let r = match s.send() {
                Ok(_) => "ok".to_string(),
                Err(e) => format!("{e:?}"),
            };
            if r == "ok" { pending.push_back(m); }
            recs.push(Rec { a: "send", n: m, len: req, r, ok: 1, addr: 0 });
            // receive right away so that the subscriber buffer never overflows
            while held.len() >= max_borrow - 1 {
                let (hn, hs): (u64, _) = held.pop_front().unwrap();
                drop(hs);
                recs.push(Rec { a: "release", n: hn, len: 0, r: "ok".into(), ok: 1, addr: 0 });
            }
            match subscriber.receive() {
                Ok(Some(s)) => {
                    let p = s.payload();
                    let rn = if p.len() >= 4 { decode(p) } else { pending.front().copied().unwrap_or(m) };
                    pending.retain(|x| *x != rn);
                    recs.push(Rec { a: "recv", n: rn, len: p.len(), r: "ok".into(), ok: intact(rn, p) as u8,
                        addr: p.as_ptr() as u64 });
                    held.push_back((rn, s));
                }
                Ok(None) => recs.push(Rec { a: "recv", n: m, len: 0, r: "none".into(), ok: 0, addr: 0 }),
                Err(e) => recs.push(Rec { a: "recv", n: m, len: 0, r: format!("{e:?}"), ok: 0, addr: 0 }),
            }
        }
        if hdr.staircase {
            for (hn, hs) in held.drain(..) {
                drop(hs);
                recs.push(Rec { a: "release", n: hn, len: 0, r: "ok".into(), ok: 1, addr: 0 });
            }
        }
        // random release
        if !held.is_empty() && rng.chance(1, 3) {
            let i = rng.below(held.len() as u64) as usize;
            let (hn, hs) = held.remove(i).unwrap();
            drop(hs);
            recs.push(Rec { a: "release", n: hn, len: 0, r: "ok".into(), ok: 1, addr: 0 });
        }
        // re-check the canaries of everything the subscriber still holds
        for (hn, hs) in held.iter() {
            let p = hs.payload();
            recs.push(Rec { a: "check", n: *hn, len: p.len(), r: "ok".into(), ok: intact(*hn, p) as u8,
                addr: p.as_ptr() as u64 });
        }
    }
    // ---- saturation: the subscriber borrows as much as it may, its buffer is full, and the
    // publisher still loans max_loaned_samples at once: the worst case the segment is sized for
    for (hn, hs) in held.drain(..) {
        drop(hs);
        recs.push(Rec { a: "release", n: hn, len: 0, r: "ok".into(), ok: 1, addr: 0 });
    }
    let sat_len = if strategy == AllocationStrategy::Static { initial } else { len };
    let send_one = |recs: &mut Vec<Rec>, pending: &mut VecDeque<u64>, n: &mut u64| {
        *n += 1;
        let m = *n;
        match publisher.loan_slice_uninit(sat_len) {
            Ok(s) => {
                let s = s.write_from_fn(|j| fill(m, j));
                recs.push(Rec { a: "loan", n: m, len: sat_len, r: "ok".into(), ok: 1, addr: s.payload().as_ptr() as u64 });
                let r = match s.send() { Ok(_) => "ok".to_string(), Err(e) => format!("{e:?}") };
                if r == "ok" { pending.push_back(m); }
                recs.push(Rec { a: "send", n: m, len: sat_len, r, ok: 1, addr: 0 });
            }
            Err(e) => recs.push(Rec { a: "loan", n: m, len: sat_len, r: loan_err(e).into(), ok: 0, addr: 0 }),
        }
    };
    let recv_one = |recs: &mut Vec<Rec>, pending: &mut VecDeque<u64>, held: &mut VecDeque<(u64, _)>| {
        match subscriber.receive() {
            Ok(Some(s)) => {
                let p = s.payload();
                let rn = if p.len() >= 4 { decode(p) } else { pending.front().copied().unwrap_or(0) };
                pending.retain(|x| *x != rn);
                recs.push(Rec { a: "recv", n: rn, len: p.len(), r: "ok".into(), ok: intact(rn, p) as u8, addr: p.as_ptr() as u64 });
                held.push_back((rn, s));
            }
            Ok(None) => recs.push(Rec { a: "recv", n: 0, len: 0, r: "none".into(), ok: 0, addr: 0 }),
            Err(e) => recs.push(Rec { a: "recv", n: 0, len: 0, r: format!("{e:?}"), ok: 0, addr: 0 }),
        }
    };
    for _ in 0..max_borrow {
        send_one(recs, &mut pending, &mut n);
        recv_one(recs, &mut pending, &mut held);
    }
    for _ in 0..4 {
        send_one(recs, &mut pending, &mut n); // fills the subscriber buffer
    }
    let mut loans = vec![];
    for _ in 0..max_loans {
        n += 1;
        match publisher.loan_slice_uninit(sat_len) {
            Ok(s) => {
                let s = s.write_from_fn(|j| fill(n, j));
                recs.push(Rec { a: "loan", n, len: sat_len, r: "ok".into(), ok: 1, addr: s.payload().as_ptr() as u64 });
                loans.push((n, s));
            }
            Err(e) => recs.push(Rec { a: "loan", n, len: sat_len, r: loan_err(e).into(), ok: 0, addr: 0 }),
        }
    }
    for (m, s) in loans.iter() {
        recs.push(Rec { a: "pcheck", n: *m, len: s.payload().len(), r: "ok".into(),
            ok: intact(*m, s.payload()) as u8, addr: s.payload().as_ptr() as u64 });
    }
    for (hn, hs) in held.iter() {
        let p = hs.payload();
        recs.push(Rec { a: "check", n: *hn, len: p.len(), r: "ok".into(), ok: intact(*hn, p) as u8, addr: p.as_ptr() as u64 });
    }
    for (m, s) in loans {
        drop(s);
        recs.push(Rec { a: "droploan", n: m, len: 0, r: "ok".into(), ok: 1, addr: 0 });
    }
    for (hn, hs) in held.drain(..) {
        drop(hs);
        recs.push(Rec { a: "release", n: hn, len: 0, r: "ok".into(), ok: 1, addr: 0 });
    }
    for _ in 0..4 {
        recv_one(recs, &mut pending, &mut held);
    }
    held.clear();
}

#[allow(clippy::too_many_arguments)]
fn emit(
    w: &mut TraceWriter,
    run: u64,
    strategy: AllocationStrategy,
    palign: usize,
    hdr: &Header,
    recs: &[Rec],
    summary: &mut std::collections::HashMap<String, u64>,
) {
    let (initial, max_loans, max_borrow, grown) = (hdr.initial, hdr.max_loans, hdr.max_borrow, hdr.grown);
    // TLC integers are 32 bit: compress the gaps between the mappings (clusters of intervals that
    // are closer than 64 KiB keep their relative layout; every cluster starts 4096-aligned, so
    // alignments up to 4096, overlaps and disjointness are preserved)
    let mut iv: Vec<(u64, u64)> = recs.iter().filter(|r| r.addr != 0)
        .map(|r| (r.addr, r.addr + (r.len as u64).max(1))).collect();
    iv.sort();
    let mut clusters: Vec<(u64, u64, u64)> = vec![]; // (start, end, new base)
    for (s0, e0) in iv {
        match clusters.last_mut() {
            Some(c) if s0 <= c.1 + 65536 => c.1 = c.1.max(e0),
            _ => clusters.push((s0 & !0xFFF, e0, 0)),
        }
    }
    let mut cur = 4096u64;
    for c in clusters.iter_mut() {
        c.2 = cur;
        cur = (cur + (c.1 - c.0)).div_ceil(4096) * 4096 + 4096;
    }
    if cur >= (1u64 << 30) {
        eprintln!("compressed address span still too large for TLC integers: {cur}");
        std::process::exit(3);
    }
    let remap = |a: u64| -> u64 {
        if a == 0 { return 0; }
        let i = clusters.partition_point(|c| c.0 <= a) - 1;
        clusters[i].2 + (a - clusters[i].0)
    };
    w.emit(&json!({"k":"reset","run":run,"strategy":strategy_name(strategy),"initial":initial,"palign":palign,
        "maxloans":max_loans,"maxborrow":max_borrow}));
    for r in recs.iter() {
        let addr = remap(r.addr);
        let v: Value = json!({"k":"op","a":r.a,"n":r.n,"len":r.len,"r":r.r,"ok":r.ok,"addr":addr});
        w.emit(&v);
        *summary.entry(format!("{}:{}", r.a, if r.r == "ok" { "ok" } else { "err" })).or_insert(0) += 1;
    }
    *summary.entry(format!("scenario:{}", strategy_name(strategy))).or_insert(0) += 1;
    *summary.entry("grow_steps".into()).or_insert(0) += grown;
}

pub fn main(args: &Args) {
    let root = args.get("root").expect("--root");
    let prefix = args.get("prefix").expect("--prefix");
    let scenarios = args.num("scenarios", 6);
    let steps = args.num("steps", 20);
    let mut w = TraceWriter::create(&args.get("out").expect("--out"));
    // growing segments whose chunk alignment exceeds the alignment of the payload start in the
    // shared memory go to their own file
    let mut wu = TraceWriter::create(&args.get("out-unaligned").expect("--out-unaligned"));
    let mut rng = vlib::rng::Rng::new(vlib::seed_from_env().wrapping_mul(104729).wrapping_add(3));

    if std::env::var("VERIF_LOUD").is_ok() {
        set_log_level(LogLevel::Debug);
    }
    let mut config = Config::default();
    config.global.prefix = FileName::new(prefix.as_bytes()).expect("prefix");
    config.global.set_root_path(&Path::new(root.as_bytes()).expect("root"));
    let node = NodeBuilder::new().config(&config).create::<ipc::Service>().expect("node");

    let mut summary = std::collections::HashMap::new();
    let strategies = [AllocationStrategy::BestFit, AllocationStrategy::PowerOfTwo, AllocationStrategy::Static];
    for run in 0..scenarios {
        // the first scenarios are staircases (BestFit / PowerOfTwo, alignment 64 and 8)
        let staircase = run < 4;
        let (strategy, palign) = if staircase {
            ([AllocationStrategy::BestFit, AllocationStrategy::PowerOfTwo][(run % 2) as usize], [64usize, 8][(run / 2) as usize])
        } else {
            let r = run - 4;
            // every strategy meets every payload alignment (the first rounds use the large ones)
            (strategies[(r % 3) as usize], [64usize, 256, 8, 1][((r / 3) % 4) as usize])
        };
        let mut hdr = Header {
            staircase,
            initial: if staircase { 1 } else { *rng.pick(&[1usize, 3, 8, 16, 100, 1000]) },
            max_borrow: 5,
            max_loans: if staircase { 1 } else { *rng.pick(&[1usize, 2, 3]) },
            grown: 0,
        };
        let mut recs: Vec<Rec> = vec![];
        let nsteps = if staircase { 14 } else { steps };
        let r = std::panic::catch_unwind(std::panic::AssertUnwindSafe(|| {
            scenario(&node, run, &mut rng, strategy, palign, nsteps, &mut hdr, &mut recs)
        }));
        if r.is_err() {
            recs.push(Rec { a: "panic", n: 0, len: 0, r: "panic".into(), ok: 0, addr: 0 });
        }
        let unaligned = strategy != AllocationStrategy::Static && palign >= 16;
        emit(if unaligned { &mut wu } else { &mut w }, run, strategy, palign, &hdr, &recs, &mut summary);
        if staircase {
            *summary.entry("scenario:staircase".into()).or_insert(0) += 1;
        }
    }
    wu.flush();
    w.flush();
    println!("{}", json!({"scenarios":scenarios,"events":w.lines,"events_unaligned":wu.lines,"per_action":summary}));
}
