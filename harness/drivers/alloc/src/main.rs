//! Conformance driver for C15 (shared-memory allocators).
//!   probe                                  parameters of the running code (stride mode, ...)
//!   lockstep --in <behaviours> --out <trace> --mism <file>
//!                                          replays TLC-generated behaviours on the real allocators
//!   random --runs N --ops M --out <trace> --out-awk <trace> [--impls a,b]
//!                                          seeded random histories on large / awkward layouts
//!   growth ...                             publisher with a dynamically sized data segment
//! Nothing is asserted here: the traces are validated by TLC (spec/data/AllocTrace.tla,
//! GrowthTrace.tla); the lock-step mode only reports where the real result differs from the
//! result computed by the implementation-shaped model.

extern crate iceoryx2_bb_loggers;

mod growth;
mod sut;

use std::collections::HashMap;
use sut::*;
use vlib::trace::TraceWriter;
use vlib::{Args, json};

fn quiet_panics() {
    std::panic::set_hook(Box::new(|_| {}));
}

fn ev_reset(w: &mut TraceWriter, run: u64, s: &Sut) {
    w.emit(&json!({"k":"reset","run":run,"impl":s.imp,"kind":model_kind(s.imp),
        "base":s.cfg.base,"size":s.cfg.size,"bsize":s.cfg.bsize,"balign":s.cfg.balign,
        "nb": s.used().max(0)}));
}

#[allow(clippy::too_many_arguments)]
fn ev_op(w: &mut TraceWriter, a: &str, size: usize, align: usize, r: &str, addr: usize, ext: usize, used: i64) {
    w.emit(&json!({"k":"op","a":a,"size":size,"align":align,"r":r,"addr":addr,"ext":ext,"used":used}));
}

fn probe() {
    let arena = Arena::new(4096);
    let mut out = serde_json::Map::new();
    // stride of the pool allocators for a bucket layout whose size is not a multiple of its alignment
    for imp in ["pool", "shmpool", "fpool"] {
        let s = Sut::create(imp, &arena, Cfg { base: 0, size: 64, bsize: 5, balign: 4 });
        let v = match s {
            Ok(s) => {
                let a = s.alloc(5, 4);
                let b = s.alloc(5, 4);
                match (a, b) {
                    (Res::Ok(a), Res::Ok(b)) => json!({"first":a,"second":b,"stride":b as i64 - a as i64,"buckets":s.used()}),
                    _ => json!({"error":"allocation failed"}),
                }
            }
            Err(e) => json!({"error":e}),
        };
        out.insert(format!("stride_{imp}"), v);
    }
    // one-chunk allocator: alignment padding larger than the managed memory
    let s = Sut::create("one", &arena, Cfg { base: 1, size: 4, bsize: 0, balign: 1 }).unwrap();
    let r = match s.alloc(1, 16) {
        Res::Ok(a) => format!("ok:{a}"),
        Res::Err(e) => e.to_string(),
    };
    out.insert("one_pad_exceeds_size".into(), json!(r));
    // pool allocator: alignment padding larger than the managed memory
    for imp in ["pool", "shmpool", "fpool"] {
        let r = match Sut::create(imp, &arena, Cfg { base: 1, size: 4, bsize: 8, balign: 16 }) {
            Ok(s) => format!("created:buckets={}", s.used()),
            Err(e) => e,
        };
        out.insert(format!("create_pad_exceeds_size_{imp}"), json!(r));
    }
    // FixedSizePoolAllocator whose memory holds at least MAX_NUMBER_OF_BUCKETS buckets
    let r = match Sut::create("fpool", &arena, Cfg { base: 0, size: 40 * 8, bsize: 8, balign: 8 }) {
        Ok(s) => format!("created:buckets={}", s.used()),
        Err(e) => e,
    };
    out.insert("create_fpool_at_capacity".into(), json!(r));
    println!("{}", serde_json::Value::Object(out));
}

fn lockstep(args: &Args) {
    let inp = args.get("in").expect("--in");
    let mut w_main = TraceWriter::create(&args.get("out").expect("--out"));
    let mut w_awk = TraceWriter::create(&args.get("out-awk").expect("--out-awk"));
    let mut w_tight = TraceWriter::create(&args.get("out-tight").expect("--out-tight"));
    let mut mw = TraceWriter::create(&args.get("mism").expect("--mism"));
    let behs = vlib::trace::read_ndjson(&inp);
    let arena = Arena::new(8192);
    let (mut execs, mut steps, mut mis_r, mut mis_a, mut skipped) = (0u64, 0u64, 0u64, 0u64, 0u64);
    let mut first: Option<serde_json::Value> = None;
    let mut per: HashMap<String, u64> = HashMap::new();
    let mut run = 0u64;
    for (bi, b) in behs.iter().enumerate() {
        let c = &b["cfg"];
        let kind = c["kind"].as_str().unwrap();
        let cfg = Cfg {
            base: c["base"].as_u64().unwrap() as usize,
            size: c["size"].as_u64().unwrap() as usize,
            bsize: c["bsize"].as_u64().unwrap() as usize,
            balign: c["balign"].as_u64().unwrap() as usize,
        };
        let w = match b["cls"].as_str().unwrap_or("main") {
            "awk" => &mut w_awk,
            "tight" => &mut w_tight,
            _ => &mut w_main,
        };
        for imp in impls_of(kind) {
            execs += 1;
            run += 1;
            let s = match Sut::create(imp, &arena, cfg) {
                Ok(s) => s,
                Err(e) => {
                    mis_r += 1;
                    let m = json!({"k":"mismatch","class":"create","beh":bi,"impl":imp,"cfg":c,"got":e});
                    mw.emit(&m);
                    first.get_or_insert(m);
                    continue;
                }
            };
            ev_reset(w, run, &s);
            // model address -> (real address, size, align)
            let mut map: HashMap<u64, (usize, usize, usize)> = HashMap::new();
            for (si, st) in b["steps"].as_array().unwrap().iter().enumerate() {
                steps += 1;
                let a = st["a"].as_str().unwrap();
                let size = st["size"].as_u64().unwrap() as usize;
                let align = st["align"].as_u64().unwrap() as usize;
                let er = st["r"].as_str().unwrap();
                let eaddr = st["addr"].as_u64().unwrap();
                match a {
                    "alloc" => {
                        let (r, addr) = match s.alloc(size, align) {
                            Res::Ok(x) => ("ok", x),
                            Res::Err(e) => (e, 0),
                        };
                        let ext = if r == "ok" { s.extent(addr, size) } else { 0 };
                        ev_op(w, "alloc", size, align, r, addr, ext, s.used());
                        *per.entry(format!("alloc:{r}")).or_insert(0) += 1;
                        if r == "ok" && er == "ok" {
                            map.insert(eaddr, (addr, size, align));
                        }
                        let class = if r != er {
                            Some("result")
                        } else if r == "ok" && addr as u64 != eaddr {
                            Some("address")
                        } else {
                            None
                        };
                        if let Some(class) = class {
                            if class == "result" { mis_r += 1 } else { mis_a += 1 }
                            let m = json!({"k":"mismatch","class":class,"beh":bi,"step":si,"impl":imp,"cfg":c,
                                "request":{"size":size,"align":align},
                                "expect":{"r":er,"addr":eaddr},"got":{"r":r,"addr":addr}});
                            mw.emit(&m);
                            first.get_or_insert(m);
                        }
                    }
                    "free" => match map.remove(&eaddr) {
                        Some((addr, sz, al)) => {
                            let r = s.free(addr, sz, al);
                            ev_op(w, "free", sz, al, r, addr, 0, s.used());
                            *per.entry(format!("free:{r}")).or_insert(0) += 1;
                        }
                        None => skipped += 1,
                    },
                    "freeall" => {
                        let any = map.values().next().copied().unwrap_or((cfg.base, 1, 1));
                        let r = s.free(any.0, any.1, any.2);
                        map.clear();
                        ev_op(w, "freeall", 0, 1, r, 0, 0, s.used());
                        *per.entry(format!("freeall:{r}")).or_insert(0) += 1;
                    }
                    _ => skipped += 1,
                }
            }
        }
    }
    w_main.flush();
    w_awk.flush();
    w_tight.flush();
    mw.flush();
    println!(
        "{}",
        json!({"behaviours":behs.len(),"executions":execs,"steps":steps,"mismatch_result":mis_r,
            "mismatch_address":mis_a,"skipped":skipped,"first":first,"per_action":per,
            "events":w_main.lines,"events_awk":w_awk.lines,"events_tight":w_tight.lines})
    );
}

fn pick_align(rng: &mut vlib::rng::Rng, max_pow: u64) -> usize {
    1usize << rng.below(max_pow + 1)
}

fn random(args: &Args) {
    let seed = vlib::seed_from_env();
    let runs = args.num("runs", 200);
    let ops = args.num("ops", 60);
    let impls_s = args.get_or("impls", "pool,shmpool,fpool,bump,shmbump,one");
    let impls: Vec<&'static str> = impls_s
        .split(',')
        .map(|x| match x {
            "pool" => "pool",
            "shmpool" => "shmpool",
            "fpool" => "fpool",
            "bump" => "bump",
            "shmbump" => "shmbump",
            "one" => "one",
            o => panic!("unknown impl {o}"),
        })
        .collect();
    let mut w = TraceWriter::create(&args.get("out").expect("--out"));
    // pool layouts whose bucket size is not a multiple of the bucket alignment go to their own file
    let mut wa = TraceWriter::create(&args.get("out-awk").expect("--out-awk"));
    // one-chunk requests whose alignment padding exceeds the segment go to their own file
    let mut wt = TraceWriter::create(&args.get("out-tight").expect("--out-tight"));
    let mut rng = vlib::rng::Rng::new(seed.wrapping_mul(7919).wrapping_add(17));
    let arena = Arena::new(1 << 17);
    let mut per: HashMap<String, u64> = HashMap::new();
    let (mut n_awk, mut n_partial, mut n_unaligned_base, mut n_bigalign, mut create_fail) = (0u64, 0u64, 0u64, 0u64, 0u64);
    let mut layouts = std::collections::HashSet::new();
    for run in 0..runs {
        let imp = impls[(run as usize) % impls.len()];
        let kind = model_kind(imp);
        let base = match rng.below(6) {
            0 => 0,
            1 => 1,
            2 => 4096 - 1,
            3 => (1usize << rng.below(13)) + 1,
            _ => rng.below(8192) as usize,
        };
        let (cfg, awk) = if kind == "pool" {
            let balign = pick_align(&mut rng, 12);
            let bsize = if rng.chance(1, 2) {
                balign * rng.range(1, 6) as usize
            } else {
                rng.range(1, 3000) as usize
            };
            let asize = bsize.div_ceil(balign) * balign;
            let pad = base.div_ceil(balign) * balign - base;
            let n = if imp == "fpool" { rng.below(8) } else { rng.below(13) } as usize;
            let e = match rng.below(4) {
                0 => 0,
                1 => balign - 1,
                2 => asize - 1,
                _ => rng.below(asize as u64) as usize,
            };
            let slack = if rng.chance(1, 3) { rng.below(balign as u64) as usize } else { 0 };
            let size = pad + slack + n * asize + e;
            if (slack + e) % asize != 0 { n_partial += 1; }
            if balign >= 64 { n_bigalign += 1; }
            (Cfg { base, size, bsize, balign }, bsize % balign != 0)
        } else {
            let size = match rng.below(4) {
                0 => rng.below(64) as usize,
                _ => rng.below(6000) as usize,
            };
            (Cfg { base, size, bsize: 0, balign: 1 }, false)
        };
        if cfg.base % 8 != 0 { n_unaligned_base += 1; }
        if cfg.base + cfg.size > arena.len { continue; }
        let s = match Sut::create(imp, &arena, cfg) {
            Ok(s) => s,
            Err(_) => { create_fail += 1; continue; }
        };
        layouts.insert((imp, cfg.base, cfg.size, cfg.bsize, cfg.balign));
        let out = if awk { n_awk += 1; &mut wa } else { &mut w };
        ev_reset(out, run, &s);
        let mut live: Vec<(usize, usize, usize)> = vec![];
        for _ in 0..ops {
            let do_free = !live.is_empty() && rng.chance(if s.is_bump() { 1 } else { 9 }, 20);
            if do_free {
                let i = rng.below(live.len() as u64) as usize;
                let (addr, sz, al) = live[i];
                let r = s.free(addr, sz, al);
                if s.is_bump() {
                    live.clear();
                    ev_op(out, "freeall", 0, 1, r, 0, 0, s.used());
                    *per.entry(format!("freeall:{r}")).or_insert(0) += 1;
                } else {
                    live.swap_remove(i);
                    ev_op(out, "free", sz, al, r, addr, 0, s.used());
                    *per.entry(format!("free:{r}")).or_insert(0) += 1;
                }
                continue;
            }
            let (size, align) = if kind == "pool" {
                let size = match rng.below(8) {
                    0 => 0,
                    1 => 1,
                    2 => cfg.bsize.saturating_sub(1),
                    3 | 4 => cfg.bsize,
                    5 => cfg.bsize + 1,
                    _ => rng.below(cfg.bsize as u64 + 2) as usize,
                };
                let align = if rng.chance(3, 4) {
                    let k = cfg.balign.trailing_zeros() as u64;
                    1usize << rng.below(k + 1)
                } else {
                    pick_align(&mut rng, 13)
                };
                (size, align)
            } else {
                let size = match rng.below(6) {
                    0 => 0,
                    1 => 1,
                    _ => rng.below(700) as usize,
                };
                let align = if kind == "shmbump" && rng.chance(3, 4) {
                    pick_align(&mut rng, 3)
                } else {
                    pick_align(&mut rng, 12)
                };
                (size, align)
            };
            if kind == "one" {
                let pad = cfg.base.div_ceil(align) * align - cfg.base;
                if pad > cfg.size { continue; } // exercised separately below (out-tight)
            }
            let (r, addr) = match s.alloc(size, align) {
                Res::Ok(x) => ("ok", x),
                Res::Err(e) => (e, 0),
            };
            let ext = if r == "ok" { s.extent(addr, size) } else { 0 };
            ev_op(out, "alloc", size, align, r, addr, ext, s.used());
            *per.entry(format!("alloc:{r}")).or_insert(0) += 1;
            if r == "ok" {
                live.push((addr, size, align));
            }
        }
    }
    // one-chunk allocator on tiny segments with requests whose padding exceeds the segment
    let mut n_tight = 0u64;
    if impls.contains(&"one") {
        for run in 0..(runs / 10).max(3) {
            let base = rng.range(1, 63) as usize;
            let size = rng.below(24) as usize;
            let cfg = Cfg { base, size, bsize: 0, balign: 1 };
            let s = match Sut::create("one", &arena, cfg) { Ok(s) => s, Err(_) => continue };
            ev_reset(&mut wt, 100000 + run, &s);
            for _ in 0..6 {
                let align = pick_align(&mut rng, 8);
                let pad = base.div_ceil(align) * align - base;
                if pad <= size { continue; }
                let sz = rng.below(4) as usize;
                let (r, addr) = match s.alloc(sz, align) { Res::Ok(x) => ("ok", x), Res::Err(e) => (e, 0) };
                let ext = if r == "ok" { s.extent(addr, sz) } else { 0 };
                ev_op(&mut wt, "alloc", sz, align, r, addr, ext, s.used());
                n_tight += 1;
                if r == "ok" { let fr = s.free(addr, sz, align); ev_op(&mut wt, "free", sz, align, fr, addr, 0, s.used()); }
            }
        }
    }
    w.flush();
    wa.flush();
    wt.flush();
    println!(
        "{}",
        json!({"runs":runs,"tight_requests":n_tight,"events_tight":wt.lines,"distinct_layouts":layouts.len(),"awkward_runs":n_awk,"partial_bucket_layouts":n_partial,
            "unaligned_base":n_unaligned_base,"big_alignment_layouts":n_bigalign,"create_failed":create_fail,
            "per_action":per,"events":w.lines,"events_awk":wa.lines})
    );
}

fn main() {
    let args = Args::from_env();
    if std::env::var("VERIF_LOUD").is_err() { quiet_panics(); }
    match args.positional(0).as_deref() {
        Some("probe") => probe(),
        Some("lockstep") => lockstep(&args),
        Some("random") => random(&args),
        Some("growth") => growth::main(&args),
        other => {
            eprintln!("unknown sub-command {other:?}");
            std::process::exit(2);
        }
    }
}
