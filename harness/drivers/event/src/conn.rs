//! zero_copy_connection attach / detach / forced removal under the scheduler (C13).
//!
//!   drv-event conn --storage local|shm --prog '<json>' --mode dfs|random|replay|seq --out f
//!
//! prog = one op list per thread. Ops: "S" / "R" create sender / receiver (matching parameters),
//! "Sx" / "Rx" create with a MISMATCHING buffer size, "s" / "r" drop my sender / receiver,
//! "as" / "ar" abandon (leak, like a crashed peer) my sender / receiver,
//! "fs" / "fr" forced remove_sender / remove_receiver (on behalf of a dead peer).
//! Events: call {t,a}, ret {t,a,r}; `obs` = quiescent observation {exists, sc, rc} where sc/rc =
//! is_connected of the live sender / receiver handle (-1 = no such handle); end.
//! Yield points: the accesses of the connection state byte (zero_copy_connection/common.rs,
//! 1 byte wide) before and after, and the call boundaries.

use core::time::Duration;
use iceoryx2_bb_container::semantic_string::SemanticString;
use iceoryx2_bb_elementary_traits::testing::abandonable::Abandonable;
use iceoryx2_bb_system_types::file_name::FileName;
use iceoryx2_cal::named_concept::{NamedConceptBuilder, NamedConceptMgmt};
use iceoryx2_cal::zero_copy_connection::{
    self, ZeroCopyConnection, ZeroCopyConnectionBuilder, ZeroCopyCreationError, ZeroCopyPortDetails,
};
use std::sync::atomic::{AtomicU64, Ordering};
use std::sync::{Arc, Mutex};
use vlib::sched::{self, Dfs, LogEntry, Outcome, RandomWalk, Replay, RunConfig, Strategy};
use vlib::trace::TraceWriter;
use vlib::{Args, Value, json};

static NAME_COUNTER: AtomicU64 = AtomicU64::new(0);

fn err_name(e: &ZeroCopyCreationError) -> String {
    format!("{e:?}")
}

struct Shared<C: ZeroCopyConnection> {
    sender: Mutex<Option<C::Sender>>,
    receiver: Mutex<Option<C::Receiver>>,
}

fn builder<C: ZeroCopyConnection>(name: &FileName, mismatch: bool) -> C::Builder {
    C::Builder::new(name)
        .buffer_size(if mismatch { 3 } else { 2 })
        .receiver_max_borrowed_chunks_per_channel(2)
        .number_of_chunks_per_segment(8)
        .timeout(Duration::ZERO)
}

fn observe<C: ZeroCopyConnection>(name: &FileName, sh: &Shared<C>) -> Value {
    let exists = C::does_exist(name).unwrap_or(false);
    let sc = sh.sender.lock().unwrap().as_ref().map(|s| s.is_connected() as i64).unwrap_or(-1);
    let rc = sh.receiver.lock().unwrap().as_ref().map(|r| r.is_connected() as i64).unwrap_or(-1);
    json!({"exists": exists, "sc": sc, "rc": rc})
}

fn run_ops<C: ZeroCopyConnection + 'static>(name: FileName, sh: Arc<Shared<C>>, tid: usize, ops: Vec<String>, seq_obs: bool)
where
    C::Sender: Send,
    C::Receiver: Send,
{
    for op in ops {
        sched::yield_api(&op);
        sched::log_api(json!({"k":"call","t":tid,"a":op,"r":"-"}));
        let r: String = match op.as_str() {
            "S" | "Sx" => match builder::<C>(&name, op == "Sx").create_sender() {
                Ok(s) => {
                    let mut g = sh.sender.lock().unwrap();
                    if g.is_some() {
                        // two live senders: keep both alive (leak the new one) and report it
                        core::mem::forget(s);
                        "ok-second".to_string()
                    } else {
                        *g = Some(s);
                        "ok".to_string()
                    }
                }
                Err(e) => err_name(&e),
            },
            "R" | "Rx" => match builder::<C>(&name, op == "Rx").create_receiver() {
                Ok(s) => {
                    let mut g = sh.receiver.lock().unwrap();
                    if g.is_some() {
                        core::mem::forget(s);
                        "ok-second".to_string()
                    } else {
                        *g = Some(s);
                        "ok".to_string()
                    }
                }
                Err(e) => err_name(&e),
            },
            "s" => {
                let h = sh.sender.lock().unwrap().take();
                match h {
                    Some(h) => {
                        drop(h);
                        "ok".into()
                    }
                    None => "none".into(),
                }
            }
            "r" => {
                let h = sh.receiver.lock().unwrap().take();
                match h {
                    Some(h) => {
                        drop(h);
                        "ok".into()
                    }
                    None => "none".into(),
                }
            }
            "as" => {
                let h = sh.sender.lock().unwrap().take();
                match h {
                    Some(h) => {
                        h.abandon();
                        "ok".into()
                    }
                    None => "none".into(),
                }
            }
            "ar" => {
                let h = sh.receiver.lock().unwrap().take();
                match h {
                    Some(h) => {
                        h.abandon();
                        "ok".into()
                    }
                    None => "none".into(),
                }
            }
            "fs" => match unsafe { C::remove_sender(&name, &Default::default()) } {
                Ok(()) => "ok".into(),
                Err(e) => format!("{e:?}"),
            },
            "fr" => match unsafe { C::remove_receiver(&name, &Default::default()) } {
                Ok(()) => "ok".into(),
                Err(e) => format!("{e:?}"),
            },
            _ => panic!("unknown op {op}"),
        };
        sched::log_api(json!({"k":"ret","t":tid,"a":op,"r":r}));
        if seq_obs {
            let mut o = observe::<C>(&name, &sh);
            o.as_object_mut().unwrap().insert("k".into(), json!("obs"));
            sched::log_api(o);
        }
    }
}

fn iceoryx2_pal_concurrency_sync_kind_store() -> vlib::sched::Kind {
    vlib::sched::Kind::Store
}

fn filter() -> sched::SiteFilter {
    // loads and CASes of the state byte (reserve_port, remove_state, is_connected); a plain store of
    // the state byte only happens inside the storage initializer, i.e. under the storage's lock,
    // where the scheduler must not preempt
    Arc::new(|s: &sched::Site| {
        s.width == 1
            && s.file.ends_with("zero_copy_connection/common.rs")
            && s.kind != iceoryx2_pal_concurrency_sync_kind_store()
    })
}

fn run<C: ZeroCopyConnection + 'static>(args: &Args, storage: &str)
where
    C::Sender: Send,
    C::Receiver: Send,
{
    let prog: Vec<Vec<String>> = serde_json::from_str(&args.get_or("prog", r#"[["S","s"],["R","r"]]"#)).expect("bad --prog");
    let mode = args.get_or("mode", "dfs");
    let bound = args.num("bound", 2) as usize;
    let runs = args.num("runs", 1000);
    let seed = vlib::seed_from_env();
    let mut out = TraceWriter::create(&args.get_or("out", "/dev/stdout"));
    let reset = json!({"k":"reset","storage":storage,"n":prog.len()});
    let mut executions = 0u64;
    let mut anomalies = 0u64;
    let mut exhausted = false;
    let seq_obs = prog.len() == 1;
    let atoms = args.flag("atoms");

    let mut one = |strat: &mut dyn Strategy, out: &mut TraceWriter| {
        let n = NAME_COUNTER.fetch_add(1, Ordering::SeqCst);
        let name = FileName::new(format!("verif_conn_{}_{}", std::process::id(), n).as_bytes()).unwrap();
        let sh: Arc<Shared<C>> = Arc::new(Shared {
            sender: Mutex::new(None),
            receiver: Mutex::new(None),
        });
        let bodies: Vec<sched::Body> = prog
            .iter()
            .enumerate()
            .map(|(t, ops)| {
                let (sh, ops) = (sh.clone(), ops.clone());
                Box::new(move || run_ops::<C>(name, sh, t, ops, seq_obs)) as sched::Body
            })
            .collect();
        let cfg = RunConfig {
            ranges: vec![],
            max_steps: 3000,
            record_atoms: atoms,
            yield_after: true,
            site_filter: Some(filter()),
        };
        let res = sched::run(cfg, bodies, strat);
        out.emit(&reset);
        for e in &res.log {
            match e {
                LogEntry::Api { ev, .. } => out.emit(ev),
                LogEntry::Atom { tid, site, rd, wr, ok } => {
                    if atoms {
                        out.emit(&json!({"k":"atom","t":tid,"op":site.kind,"ord":site.ord,"rd":rd,"wr":wr,"ok":ok}));
                    }
                }
            }
        }
        let completed = res.outcome == Outcome::Completed && res.panics.is_empty();
        if !completed {
            anomalies += 1;
        }
        let mut end = observe::<C>(&name, &sh);
        {
            let o = end.as_object_mut().unwrap();
            o.insert("k".into(), json!("end"));
            o.insert("outcome".into(), json!(if res.outcome == Outcome::Completed { "completed" } else { "aborted" }));
            o.insert("sched".into(), json!(res.schedule));
            o.insert(
                "panics".into(),
                json!(res.panics.iter().map(|(t, m)| json!({"t":t,"msg":m})).collect::<Vec<_>>()),
            );
        }
        out.emit(&end);
        // release everything that is still alive, then make sure nothing of this name survives
        drop(sh.sender.lock().unwrap().take());
        drop(sh.receiver.lock().unwrap().take());
        let _ = unsafe { C::remove_cfg(&name, &Default::default()) };
        executions += 1;
    };

    match mode.as_str() {
        "dfs" => {
            let mut dfs = Dfs::new(bound);
            loop {
                if !dfs.next_run() {
                    exhausted = true;
                    break;
                }
                one(&mut dfs, &mut out);
                if dfs.runs >= runs {
                    break;
                }
            }
        }
        "random" => {
            let mut rng = vlib::rng::Rng::new(seed);
            for _ in 0..runs {
                let mut s = RandomWalk { rng: vlib::rng::Rng::new(rng.next()), switch_percent: 40 };
                one(&mut s, &mut out);
            }
        }
        "seq" => {
            let mut s = Replay::new(vec![]);
            one(&mut s, &mut out);
        }
        "replay" => {
            let tids: Vec<usize> =
                args.get_or("sched", "").split(',').filter(|s| !s.is_empty()).map(|s| s.parse().unwrap()).collect();
            let mut s = Replay::new(tids);
            one(&mut s, &mut out);
        }
        m => panic!("unknown mode {m}"),
    }
    out.flush();
    println!(
        "{}",
        json!({"executions": executions, "anomalies": anomalies, "exhausted": exhausted, "lines": out.lines,
               "storage": storage, "mode": mode, "seed": seed, "prog": prog})
    );
}

pub fn main(args: &Args) {
    match args.get_or("storage", "local").as_str() {
        "local" => run::<zero_copy_connection::process_local::Connection>(args, "local"),
        "shm" => run::<zero_copy_connection::posix_shared_memory::Connection>(args, "shm"),
        s => panic!("unknown storage {s}"),
    }
}
