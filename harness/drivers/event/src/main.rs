//! Conformance driver for the event concept of iceoryx2-cal (C05).
//!
//!   drv-event sched --state bitset|counting --prog '<json>' --cap N [--fail-full]
//!                   --mode dfs|random|replay … --out f
//!       the REAL notify / wait protocol code (event::common::EventImpl) instantiated with a model
//!       trigger (a hooked counter whose blocking wait reports "would block" to the scheduler);
//!       prog = {"n": [[ids of notifier 0], [ids of notifier 1], …], "l": ["try"|"block", …]}
//!   drv-event free --backend semaphore|udsock|sockpair --state bitset|counting
//!                   --notifiers N --count K --out f
//!       real trigger back-ends, free-running real threads, events ordered by SeqCst stamps.
//!
//! Events: call/ret of `notify` (id, r) and `wait` (w, rep = [[id, count], …]).

extern crate iceoryx2_bb_loggers;

mod conn;
mod zcc;

use core::fmt::Debug;
use core::marker::PhantomData;
use core::mem::MaybeUninit;
use core::ptr::NonNull;
use core::time::Duration;
use iceoryx2_bb_concurrency::atomic::AtomicU64;
use iceoryx2_bb_concurrency::atomic::Ordering;
use iceoryx2_bb_derive_macros::ZeroCopySend;
use iceoryx2_bb_elementary_traits::testing::abandonable::Abandonable;
use iceoryx2_bb_elementary_traits::zero_copy_send::ZeroCopySend;
use iceoryx2_bb_lock_free::mpmc::bit_set::RelocatableBitSet;
use iceoryx2_bb_lock_free::mpmc::counting_bit_set::RelocatableCountingBitSet;
use iceoryx2_bb_container::semantic_string::SemanticString;
use iceoryx2_bb_system_types::file_name::FileName;
use iceoryx2_bb_system_types::path::Path;
use iceoryx2_cal::dynamic_storage::{self, DynamicStorage};
use iceoryx2_cal::event::common::EventImpl;
use iceoryx2_cal::event::event_state::{EventActivation, EventState};
use iceoryx2_cal::event::trigger::{Configuration, HandlerInterface, State, WaiterInterface};
use iceoryx2_cal::event::{
    Event, EventId, Listener, ListenerBuilder, ListenerCreateError, ListenerWaitError, NamedConceptBuilder, Notifier,
    NotifierBuilder, NotifierNotifyError, NotifierOpenError,
};
use iceoryx2_cal::named_concept::{NamedConceptPathHintRemoveError, NamedConceptRemoveError};
use std::sync::Arc;
use std::sync::atomic::{AtomicBool, AtomicU64 as StdAtomicU64, AtomicUsize, Ordering as StdOrdering};
use vlib::sched::{self, Dfs, LogEntry, Outcome, RandomWalk, Replay, RunConfig, Strategy};
use vlib::trace::TraceWriter;
use vlib::{Args, Value, json};

// ------------------------------------------------------------------------------------------
// model trigger

static TRIGGER_CAP: StdAtomicU64 = StdAtomicU64::new(4);
static TRIGGER_ADDR: AtomicUsize = AtomicUsize::new(0);

#[derive(Debug, ZeroCopySend)]
#[repr(C)]
pub struct ModelMgmt {
    counter: AtomicU64,
}

#[derive(Debug)]
pub struct ModelHandle<E, S> {
    mgmt: *const ModelMgmt,
    _d: PhantomData<(E, S)>,
}
unsafe impl<E, S> Send for ModelHandle<E, S> {}
unsafe impl<E, S> Sync for ModelHandle<E, S> {}
impl<E, S> Abandonable for ModelHandle<E, S> {
    unsafe fn abandon_in_place(_this: NonNull<Self>) {}
}

impl<E: EventState, S: DynamicStorage<State<E, ModelMgmt>>> HandlerInterface<E, ModelMgmt, S> for ModelHandle<E, S>
where
    E: Debug,
    S: Debug,
{
    fn open(_name: &FileName, _config: &Configuration, mgmt: &ModelMgmt) -> Result<Self, NotifierOpenError> {
        Ok(Self {
            mgmt: mgmt as *const ModelMgmt,
            _d: PhantomData,
        })
    }

    fn notify(&self) -> Result<(), NotifierNotifyError> {
        let c = &unsafe { &*self.mgmt }.counter;
        let cap = TRIGGER_CAP.load(StdOrdering::Relaxed);
        let mut cur = c.load(Ordering::SeqCst);
        loop {
            if cur >= cap {
                return Err(NotifierNotifyError::BufferIsFull);
            }
            match c.compare_exchange(cur, cur + 1, Ordering::SeqCst, Ordering::SeqCst) {
                Ok(_) => return Ok(()),
                Err(v) => cur = v,
            }
        }
    }
}

#[derive(Debug)]
pub struct ModelWaiter<E, S> {
    mgmt: *mut ModelMgmt,
    _d: PhantomData<(E, S)>,
}
unsafe impl<E, S> Send for ModelWaiter<E, S> {}
unsafe impl<E, S> Sync for ModelWaiter<E, S> {}
impl<E, S> Abandonable for ModelWaiter<E, S> {
    unsafe fn abandon_in_place(_this: NonNull<Self>) {}
}

impl<E, S> ModelWaiter<E, S> {
    fn counter(&self) -> &AtomicU64 {
        &unsafe { &*self.mgmt }.counter
    }
    fn take_one(&self) -> bool {
        let c = self.counter();
        let mut cur = c.load(Ordering::SeqCst);
        loop {
            if cur == 0 {
                return false;
            }
            match c.compare_exchange(cur, cur - 1, Ordering::SeqCst, Ordering::SeqCst) {
                Ok(_) => return true,
                Err(v) => cur = v,
            }
        }
    }
}

impl<E: EventState + Debug, S: DynamicStorage<State<E, ModelMgmt>> + Debug> WaiterInterface<E, ModelMgmt, S>
    for ModelWaiter<E, S>
{
    const IS_FILE_DESCRIPTOR_BASED: bool = false;

    unsafe fn remove(_name: &FileName, _config: &Configuration) -> Result<bool, NamedConceptRemoveError> {
        Ok(true)
    }
    fn remove_path_hint(_value: &Path) -> Result<(), NamedConceptPathHintRemoveError> {
        Ok(())
    }
    fn create(
        _name: &FileName,
        _config: &Configuration,
        mgmt: &mut MaybeUninit<ModelMgmt>,
    ) -> Result<Self, ListenerCreateError> {
        mgmt.write(ModelMgmt {
            counter: AtomicU64::new(0),
        });
        TRIGGER_ADDR.store(unsafe { &*mgmt.as_ptr() }.counter.as_ptr() as usize, StdOrdering::SeqCst);
        Ok(Self {
            mgmt: mgmt.as_mut_ptr(),
            _d: PhantomData,
        })
    }
    fn try_wait(&self) -> Result<(), ListenerWaitError> {
        if self.take_one() { self.empty_buffer() } else { Ok(()) }
    }
    fn timed_wait(&self, _timeout: Duration) -> Result<(), ListenerWaitError> {
        // the timeout fires immediately in the model
        self.try_wait()
    }
    fn blocking_wait(&self) -> Result<(), ListenerWaitError> {
        let p = self.mgmt as usize;
        loop {
            let ok = sched::block_until("trigger", move || {
                let c = unsafe { &*(p as *const ModelMgmt) };
                unsafe { c.counter.as_ptr().read_volatile() > 0 }
            });
            if !ok {
                // execution aborted (the scheduler found a deadlock): report an interrupt
                return Err(ListenerWaitError::InterruptSignal);
            }
            if self.take_one() {
                return self.empty_buffer();
            }
        }
    }
    fn empty_buffer(&self) -> Result<(), ListenerWaitError> {
        self.counter().swap(0, Ordering::SeqCst);
        Ok(())
    }
}

type PlStorage<E> = dynamic_storage::process_local::Storage<State<E, ModelMgmt>>;
type ModelEvent<E> = EventImpl<E, ModelMgmt, PlStorage<E>, ModelHandle<E, PlStorage<E>>, ModelWaiter<E, PlStorage<E>>>;

// ------------------------------------------------------------------------------------------

fn notify_ret(r: &Result<(), NotifierNotifyError>) -> &'static str {
    match r {
        Ok(()) => "ok",
        Err(NotifierNotifyError::BufferIsFull) => "full",
        Err(_) => "err",
    }
}

static NAME_COUNTER: StdAtomicU64 = StdAtomicU64::new(0);

fn fresh_name(tag: &str) -> FileName {
    let n = NAME_COUNTER.fetch_add(1, StdOrdering::SeqCst);
    FileName::new(format!("verif_ev_{}_{}_{}", tag, std::process::id(), n).as_bytes()).unwrap()
}

struct Prog {
    n: Vec<Vec<u64>>,
    l: Vec<String>,
}

fn parse_prog(s: &str) -> Prog {
    let v: Value = serde_json::from_str(s).expect("bad --prog");
    Prog {
        n: v["n"]
            .as_array()
            .unwrap()
            .iter()
            .map(|a| a.as_array().unwrap().iter().map(|x| x.as_u64().unwrap()).collect())
            .collect(),
        l: v["l"].as_array().unwrap().iter().map(|x| x.as_str().unwrap().to_string()).collect(),
    }
}

fn wait_and_log<E: EventState, L: Listener<E>>(l: &L, tid: usize, kind: &str, log: &dyn Fn(Value)) -> bool {
    log(json!({"k":"call","t":tid,"a":"wait","id":0,"w":kind,"r":"-","rep":[]}));
    let mut rep: Vec<Value> = vec![];
    let cb = |a: EventActivation| rep.push(json!([a.id.as_value(), a.count]));
    let r = match kind {
        "try" => l.try_wait(cb),
        "block" => l.blocking_wait(cb),
        "timed" => l.timed_wait(cb, Duration::from_millis(20)),
        _ => panic!("unknown wait kind"),
    };
    match r {
        Ok(_) => {
            log(json!({"k":"ret","t":tid,"a":"wait","id":0,"w":kind,"r":"ok","rep":rep}));
            true
        }
        Err(ListenerWaitError::InterruptSignal) => false,
        Err(e) => {
            log(json!({"k":"ret","t":tid,"a":"wait","id":0,"w":kind,"r":format!("{e:?}"),"rep":rep}));
            true
        }
    }
}

fn run_sched<E: EventState + Debug + 'static>(args: &Args, state: &str) {
    let prog = parse_prog(&args.get_or("prog", r#"{"n":[[1],[2]],"l":["block","try"]}"#));
    let fail_full = args.flag("fail-full");
    TRIGGER_CAP.store(args.num("cap", 4), StdOrdering::SeqCst);
    let mode = args.get_or("mode", "dfs");
    let bound = args.num("bound", 2) as usize;
    let runs = args.num("runs", 1000);
    let seed = vlib::seed_from_env();
    let yield_after = args.flag("yield-after");
    let atoms = args.flag("atoms");
    let mut out = TraceWriter::create(&args.get_or("out", "/dev/stdout"));
    let reset = json!({"k":"reset","state":state,"cap":args.num("cap", 4),"failfull":fail_full,"nn":prog.n.len()});
    let mut executions = 0u64;
    let mut anomalies = 0u64;
    let mut exhausted = false;
    let mut guide_deviations = 0u64;
    let nl = prog.n.len();

    let mut one = |strat: &mut dyn Strategy, out: &mut TraceWriter| {
        let name = fresh_name("m");
        let listener = <ModelEvent<E> as Event<E>>::ListenerBuilder::new(&name)
            .event_id_max(EventId::new(7))
            .create()
            .expect("listener");
        let trig = TRIGGER_ADDR.load(StdOrdering::SeqCst);
        let mut bodies: Vec<sched::Body> = vec![];
        for (t, ids) in prog.n.iter().enumerate() {
            let notifier = <ModelEvent<E> as Event<E>>::NotifierBuilder::new(&name)
                .fail_when_buffer_is_full(fail_full)
                .open()
                .expect("notifier");
            let ids = ids.clone();
            bodies.push(Box::new(move || {
                for id in ids {
                    sched::yield_api("notify");
                    sched::log_api(json!({"k":"call","t":t,"a":"notify","id":id,"w":"-","r":"-","rep":[]}));
                    let r = notifier.notify(EventId::new(id as usize));
                    sched::log_api(json!({"k":"ret","t":t,"a":"notify","id":id,"w":"-","r":notify_ret(&r),"rep":[]}));
                }
                drop(notifier);
            }));
        }
        let waits = prog.l.clone();
        let listener = Arc::new(std::sync::Mutex::new(listener));
        let l2 = listener.clone();
        bodies.push(Box::new(move || {
            let listener = l2.lock().unwrap();
            for w in &waits {
                sched::yield_api("wait");
                if !wait_and_log(&*listener, nl, w, &|v| sched::log_api(v)) {
                    break;
                }
            }
        }));
        let cfg = RunConfig {
            ranges: vec![],
            max_steps: 4000,
            record_atoms: atoms,
            yield_after,
            site_filter: None,
        };
        let res = sched::run(cfg, bodies, strat);
        out.emit(&reset);
        for e in &res.log {
            match e {
                LogEntry::Api { ev, .. } => out.emit(ev),
                LogEntry::Atom { tid, site, rd, wr, ok } => {
                    if atoms {
                        let role = if site.addr == trig {
                            "trig"
                        } else if site.file.ends_with("event/common.rs") {
                            "state"
                        } else if site.file.ends_with("relocatable_pointer.rs") || (site.kind == "load" && site.ord == "Relaxed" && site.width == 1 && site.line < 200) {
                            "aux"
                        } else {
                            "bits"
                        };
                        out.emit(&json!({"k":"atom","t":tid,"role":role,"op":site.kind,"ord":site.ord,"ordf":site.ordf,
                                         "rd":rd % 1_000_000,"wr":wr % 1_000_000,"ok":ok,
                                         "site":format!("{}:{}", site.file.strip_prefix("/repo/").unwrap_or(site.file), site.line)}));
                    }
                }
            }
        }
        let (outcome, dl) = match &res.outcome {
            Outcome::Completed => ("completed", vec![]),
            Outcome::Deadlock(t) => ("deadlock", t.clone()),
            Outcome::StepLimit => ("steplimit", vec![]),
        };
        if outcome == "steplimit" || !res.panics.is_empty() {
            anomalies += 1;
        }
        let panics: Vec<Value> = res.panics.iter().map(|(t, m)| json!({"t":t,"msg":m})).collect();
        // quiescent observation: what is still recorded in the event state (everybody has finished or
        // the listener is blocked for ever)
        let mut left: Vec<Value> = vec![];
        {
            let l = listener.lock().unwrap();
            let _ = l.try_wait(|a: EventActivation| left.push(json!([a.id.as_value(), a.count])));
        }
        out.emit(&json!({"k":"end","outcome":outcome,"dl":dl,"listener":nl,"left":left,"sched":res.schedule,"panics":panics}));
        drop(listener);
        executions += 1;
    };

    match mode.as_str() {
        "dfs" => {
            let mut dfs = Dfs::new(bound);
            loop {
                if !dfs.next_run() {
                    exhausted = true;
                    break;
                }
                one(&mut dfs, &mut out);
                if dfs.runs >= runs {
                    break;
                }
            }
        }
        "random" => {
            let mut rng = vlib::rng::Rng::new(seed);
            for _ in 0..runs {
                let mut s = RandomWalk {
                    rng: vlib::rng::Rng::new(rng.next()),
                    switch_percent: 35,
                };
                one(&mut s, &mut out);
            }
        }
        "replay" => {
            let tids: Vec<usize> = args
                .get_or("sched", "")
                .split(',')
                .filter(|s| !s.is_empty())
                .map(|s| s.parse().unwrap())
                .collect();
            let mut s = Replay::new(tids);
            one(&mut s, &mut out);
        }
        "guide" => {
            let g: Vec<(usize, String)> = serde_json::from_str::<Vec<(usize, String)>>(&args.get_or("guide", "[]"))
                .expect("bad --guide");
            let mut s = Guide { steps: g, idx: 0, started: false, deviations: 0 };
            one(&mut s, &mut out);
            guide_deviations = s.deviations as u64;
        }
        m => panic!("unknown mode {m}"),
    }
    out.flush();
    println!(
        "{}",
        json!({"executions": executions, "anomalies": anomalies, "exhausted": exhausted, "lines": out.lines,
               "state": state, "mode": mode, "seed": seed, "deviations": guide_deviations})
    );
}

// ------------------------------------------------------------------------------------------
// directed replay of a TLC behaviour: guide = [[thread, role], …], role = api|bits|state|trig

struct Guide {
    steps: Vec<(usize, String)>,
    idx: usize,
    started: bool,
    deviations: usize,
}

fn role_of(p: &sched::Pending) -> &'static str {
    match p {
        sched::Pending::Start | sched::Pending::Api(_) | sched::Pending::After => "api",
        sched::Pending::Blocked(_, _) => "trig",
        sched::Pending::Atomic(s) => {
            if s.addr == TRIGGER_ADDR.load(StdOrdering::SeqCst) {
                "trig"
            } else if s.file.ends_with("event/common.rs") {
                "state"
            } else {
                // event state accesses (bit set / counting bit set incl. their auxiliary loads)
                "bits"
            }
        }
    }
}

impl Strategy for Guide {
    fn choose(&mut self, c: &sched::Choice) -> usize {
        // a guide step covers the maximal run of accesses of one role of one thread
        loop {
            if self.idx >= self.steps.len() {
                return match c.current {
                    Some(t) if c.enabled.contains(&t) => t,
                    _ => c.enabled[0],
                };
            }
            let (tid, role) = (self.steps[self.idx].0, self.steps[self.idx].1.clone());
            let matches = c.enabled.contains(&tid)
                && c.pending[tid].as_ref().map(|p| role_of(p) == role).unwrap_or(false);
            if std::env::var("GUIDE_DEBUG").is_ok() {
                eprintln!("guide idx={} want=({},{}) started={} pending={:?} enabled={:?}", self.idx, tid, role, self.started,
                    c.pending.iter().map(|p| p.as_ref().map(|p| format!("{}:{}", role_of(p), p.describe()))).collect::<Vec<_>>(), c.enabled);
            }
            if matches {
                self.started = true;
                return tid;
            }
            if self.started {
                // the run of this step is over, go to the next guide step
                self.started = false;
                self.idx += 1;
                continue;
            }
            // the wanted thread is not at an access of that role: the model and the code disagree
            // about the step structure; skip the step and go on
            // ("api" steps of a thread that sits at its Start yield are consumed first)
            if c.enabled.contains(&tid) && matches!(c.pending[tid], Some(sched::Pending::Start)) {
                return tid;
            }
            self.deviations += 1;
            self.idx += 1;
        }
    }
}

// ------------------------------------------------------------------------------------------
// real back-ends, free running

fn run_free<E: EventState + 'static, Ev: Event<E> + 'static>(args: &Args, state: &str, backend: &str)
where
    Ev::Listener: 'static,
    Ev::Notifier: 'static,
{
    let notifiers = args.num("notifiers", 2) as usize;
    let count = args.num("count", 200);
    let ids = args.num("ids", 4);
    let mut out = TraceWriter::create(&args.get_or("out", "/dev/stdout"));
    let name = fresh_name(backend);
    let listener = Ev::ListenerBuilder::new(&name)
        .event_id_max(EventId::new(15))
        .create()
        .expect("listener");
    let clock = Arc::new(StdAtomicU64::new(0));
    let done = Arc::new(AtomicBool::new(false));
    let mut handles = vec![];
    for t in 0..notifiers {
        let n = Ev::NotifierBuilder::new(&name).open().expect("notifier");
        let clock = clock.clone();
        handles.push(std::thread::spawn(move || {
            let mut evs: Vec<(u64, Value)> = vec![];
            let mut rng = vlib::rng::Rng::new(17 + t as u64);
            for i in 0..count {
                let id = rng.below(ids);
                let s0 = clock.fetch_add(1, StdOrdering::SeqCst);
                let r = n.notify(EventId::new(id as usize));
                let s1 = clock.fetch_add(1, StdOrdering::SeqCst);
                evs.push((s0, json!({"k":"call","t":t,"a":"notify","id":id,"w":"-","r":"-","rep":[]})));
                evs.push((s1, json!({"k":"ret","t":t,"a":"notify","id":id,"w":"-","r":notify_ret(&r),"rep":[]})));
                if i % 7 == 0 {
                    std::thread::yield_now();
                }
                if i % 50 == 49 {
                    std::thread::sleep(Duration::from_millis(1));
                }
            }
            evs
        }));
    }
    let lt = notifiers;
    let (clock2, done2) = (clock.clone(), done.clone());
    let lh = std::thread::spawn(move || {
        let evs = std::cell::RefCell::new(Vec::<(u64, Value)>::new());
        let log = |v: Value| {
            let s = clock2.fetch_add(1, StdOrdering::SeqCst);
            evs.borrow_mut().push((s, v));
        };
        let mut n = 0u64;
        loop {
            let fin = done2.load(StdOrdering::SeqCst);
            let kind = if fin {
                "try"
            } else if n % 3 == 0 {
                "try"
            } else {
                "timed"
            };
            wait_and_log(&listener, lt, kind, &log);
            n += 1;
            if fin {
                break;
            }
        }
        drop(listener);
        evs.into_inner()
    });
    let mut all = vec![];
    for h in handles {
        all.extend(h.join().expect("notifier thread"));
    }
    done.store(true, StdOrdering::SeqCst);
    all.extend(lh.join().expect("listener thread"));
    all.sort_by_key(|(s, _)| *s);
    out.emit(&json!({"k":"reset","state":state,"cap":0,"failfull":false,"nn":notifiers}));
    for (_, e) in &all {
        out.emit(e);
    }
    out.emit(&json!({"k":"end","outcome":"completed","dl":[],"listener":lt,"left":[],"sched":[],"panics":[]}));
    out.flush();
    println!(
        "{}",
        json!({"executions": 1, "anomalies": 0, "lines": out.lines, "state": state, "backend": backend, "mode": "free"})
    );
}

/// the repository's `concurrent_ping_pong_does_not_deadlock` scenario without its watchdog
fn pingpong<E: EventState + 'static, Ev: Event<E> + 'static>(iterations: u64)
where
    Ev::Listener: 'static,
    Ev::Notifier: 'static,
{
    let ping = fresh_name("ping");
    let pong = fresh_name("pong");
    let ping_l = Ev::ListenerBuilder::new(&ping).create().unwrap();
    let ping_n = Ev::NotifierBuilder::new(&ping).open().unwrap();
    let pong_l = Ev::ListenerBuilder::new(&pong).create().unwrap();
    let pong_n = Ev::NotifierBuilder::new(&pong).open().unwrap();
    let t0 = std::time::Instant::now();
    let a = std::thread::spawn(move || {
        for _ in 0..iterations {
            ping_n.notify(EventId::new(0)).unwrap();
            pong_l.blocking_wait(|_| {}).unwrap();
        }
    });
    let b = std::thread::spawn(move || {
        for _ in 0..iterations {
            ping_l.blocking_wait(|_| {}).unwrap();
            pong_n.notify(EventId::new(0)).unwrap();
        }
    });
    a.join().unwrap();
    b.join().unwrap();
    println!("{}", json!({"pingpong": "completed", "iterations": iterations, "secs": t0.elapsed().as_secs_f64()}));
}

fn main() {
    use iceoryx2_cal::event::implementations::*;
    let args = Args::from_env();
    let state = args.get_or("state", "bitset");
    match args.positional(0).as_deref() {
        Some("sched") => match state.as_str() {
            "bitset" => run_sched::<RelocatableBitSet>(&args, "bitset"),
            "counting" => run_sched::<RelocatableCountingBitSet>(&args, "counting"),
            _ => panic!("unknown state"),
        },
        Some("conn") => conn::main(&args),
        Some("zcc") => zcc::main(&args),
        Some("zccm") => zcc::main_multi(&args),
        Some("pingpong") => {
            let n = args.num("iterations", 10000);
            match args.get_or("backend", "semaphore").as_str() {
                "semaphore" => pingpong::<RelocatableBitSet, SemaphoreShmBitSet>(n),
                "udsock" => pingpong::<RelocatableCountingBitSet, UnixDatagramShmCountingBitSet>(n),
                _ => pingpong::<RelocatableBitSet, SocketPairBitSet>(n),
            }
        }
        Some("free") => {
            let backend = args.get_or("backend", "semaphore");
            match (backend.as_str(), state.as_str()) {
                ("semaphore", "bitset") => run_free::<RelocatableBitSet, SemaphoreShmBitSet>(&args, "bitset", "semaphore"),
                ("semaphore", "counting") => {
                    run_free::<RelocatableCountingBitSet, SemaphoreShmCountingBitSet>(&args, "counting", "semaphore")
                }
                ("udsock", "bitset") => run_free::<RelocatableBitSet, UnixDatagramShmBitSet>(&args, "bitset", "udsock"),
                ("udsock", "counting") => {
                    run_free::<RelocatableCountingBitSet, UnixDatagramShmCountingBitSet>(&args, "counting", "udsock")
                }
                ("sockpair", "bitset") => run_free::<RelocatableBitSet, SocketPairBitSet>(&args, "bitset", "sockpair"),
                ("sockpair", "counting") => {
                    run_free::<RelocatableCountingBitSet, SocketPairCountingBitSet>(&args, "counting", "sockpair")
                }
                _ => panic!("unknown backend/state"),
            }
        }
        other => {
            eprintln!("unknown sub-command {other:?}");
            std::process::exit(2);
        }
    }
}
