//! One channel of a zero-copy connection between a sender thread and a receiver thread under
//! the scheduler (C03, second half).
//!
//!   drv-event zcc --storage local|shm --buf B --maxbor M [--overflow] --prog '<json>' --mode … --out f
//!
//! prog = {"s": [ops of the sender thread], "r": [ops of the receiver thread]};
//! sender ops: "s" (try_send of the lowest sample index the sender does not use), "c" (reclaim);
//! receiver ops: "r" (receive), "l" (release the oldest borrowed sample).
//! Events: call {t,a,v}, ret {t,a,r,v}; end {hasdata, borrowed}.

use core::time::Duration;
use iceoryx2_bb_container::semantic_string::SemanticString;
use iceoryx2_bb_system_types::file_name::FileName;
use iceoryx2_cal::named_concept::NamedConceptBuilder;
use iceoryx2_cal::shm_allocator::PointerOffset;
use iceoryx2_cal::zero_copy_connection::{
    self, ChannelId, ZeroCopyConnection, ZeroCopyConnectionBuilder, ZeroCopyReceiveError, ZeroCopyReceiver,
    ZeroCopySendError, ZeroCopySender,
};
use std::sync::atomic::{AtomicU64, Ordering};
use std::sync::{Arc, Mutex};
use vlib::sched::{self, Dfs, LogEntry, Outcome, RandomWalk, Replay, RunConfig, Strategy};
use vlib::trace::TraceWriter;
use vlib::{Args, Value, json};

static NAME_COUNTER: AtomicU64 = AtomicU64::new(0);
const SAMPLE: usize = 8;
const NSAMPLES: usize = 8;

fn filter() -> sched::SiteFilter {
    Arc::new(|s: &sched::Site| {
        s.file.ends_with("safely_overflowing_index_queue.rs")
            || s.file.ends_with("spsc/index_queue.rs")
            || s.file.ends_with("used_chunk_list.rs")
            || (s.file.ends_with("zero_copy_connection/common.rs") && s.width != 1)
    })
}

fn run<C: ZeroCopyConnection + 'static>(args: &Args, storage: &str)
where
    C::Sender: Send + 'static,
    C::Receiver: Send + 'static,
{
    let v: Value = serde_json::from_str(&args.get_or("prog", r#"{"s":["s","s","c"],"r":["r","l"]}"#)).expect("bad --prog");
    let sprog: Vec<String> = v["s"].as_array().unwrap().iter().map(|x| x.as_str().unwrap().to_string()).collect();
    let rprog: Vec<String> = v["r"].as_array().unwrap().iter().map(|x| x.as_str().unwrap().to_string()).collect();
    let buf = args.num("buf", 2) as usize;
    let maxbor = args.num("maxbor", 2) as usize;
    let ovf = args.flag("overflow");
    let mode = args.get_or("mode", "dfs");
    let bound = args.num("bound", 2) as usize;
    let runs = args.num("runs", 1000);
    let seed = vlib::seed_from_env();
    let mut out = TraceWriter::create(&args.get_or("out", "/dev/stdout"));
    let reset = json!({"k":"reset","storage":storage,"buf":buf,"maxbor":maxbor,"ovf":ovf});
    let mut executions = 0u64;
    let mut anomalies = 0u64;
    let mut exhausted = false;

    let mut one = |strat: &mut dyn Strategy, out: &mut TraceWriter| {
        let n = NAME_COUNTER.fetch_add(1, Ordering::SeqCst);
        let name = FileName::new(format!("verif_zcc_{}_{}", std::process::id(), n).as_bytes()).unwrap();
        let mk = || {
            C::Builder::new(&name)
                .buffer_size(buf)
                .receiver_max_borrowed_chunks_per_channel(maxbor)
                .enable_safe_overflow(ovf)
                .number_of_chunks_per_segment(NSAMPLES)
                .timeout(Duration::ZERO)
        };
        // both ports live until the end of the execution and are dropped by this function (a leaked sender keeps its
        // mapping and descriptor: tens of thousands of executions exhausted them in the thorough tier)
        let sender_slot = Arc::new(Mutex::new(mk().create_sender().expect("sender")));
        let receiver = Arc::new(Mutex::new(mk().create_receiver().expect("receiver")));
        let ch = ChannelId::new(0);
        let (sp, rp) = (sprog.clone(), rprog.clone());
        let r2 = receiver.clone();
        let s2 = sender_slot.clone();
        let bodies: Vec<sched::Body> = vec![
            Box::new(move || {
                let sender = s2.lock().unwrap();
                let mut used: Vec<bool> = vec![false; NSAMPLES];
                for op in sp {
                    sched::yield_api(&op);
                    if op == "s" {
                        let Some(k) = used.iter().position(|u| !*u) else { continue };
                        sched::log_api(json!({"k":"call","t":0,"a":"send","v":k}));
                        let r = sender.try_send(PointerOffset::new(k * SAMPLE), SAMPLE, ch);
                        let (r, v): (String, usize) = match r {
                            Ok(None) => {
                                used[k] = true;
                                ("ok".into(), 0)
                            }
                            Ok(Some(o)) => {
                                used[k] = true;
                                used[o.offset() / SAMPLE] = false;
                                ("evicted".into(), o.offset() / SAMPLE)
                            }
                            Err(ZeroCopySendError::ReceiveBufferFull) => ("full".into(), 0),
                            Err(e) => (format!("{e:?}"), 0),
                        };
                        sched::log_api(json!({"k":"ret","t":0,"a":"send","r":r,"v":v}));
                    } else {
                        sched::log_api(json!({"k":"call","t":0,"a":"reclaim","v":0}));
                        let (r, v): (String, usize) = match sender.reclaim(ch) {
                            Ok(None) => ("none".into(), 0),
                            Ok(Some(o)) => {
                                used[o.offset() / SAMPLE] = false;
                                ("some".into(), o.offset() / SAMPLE)
                            }
                            Err(e) => (format!("{e:?}"), 0),
                        };
                        sched::log_api(json!({"k":"ret","t":0,"a":"reclaim","r":r,"v":v}));
                    }
                }
            }),
            Box::new(move || {
                let receiver = r2.lock().unwrap();
                let mut bor: Vec<usize> = vec![];
                for op in rp {
                    sched::yield_api(&op);
                    if op == "r" {
                        sched::log_api(json!({"k":"call","t":1,"a":"recv","v":0}));
                        let (r, v): (String, usize) = match receiver.receive(ch) {
                            Ok(None) => ("none".into(), 0),
                            Ok(Some(o)) => {
                                bor.push(o.offset() / SAMPLE);
                                ("some".into(), o.offset() / SAMPLE)
                            }
                            Err(ZeroCopyReceiveError::ReceiveWouldExceedMaxBorrowValue) => ("maxborrow".into(), 0),
                        };
                        sched::log_api(json!({"k":"ret","t":1,"a":"recv","r":r,"v":v}));
                    } else {
                        if bor.is_empty() {
                            continue;
                        }
                        let k = bor.remove(0);
                        sched::log_api(json!({"k":"call","t":1,"a":"rel","v":k}));
                        let r = match receiver.release(PointerOffset::new(k * SAMPLE), ch) {
                            Ok(()) => "ok".to_string(),
                            Err(e) => format!("{e:?}"),
                        };
                        sched::log_api(json!({"k":"ret","t":1,"a":"rel","r":r,"v":0}));
                    }
                }
            }),
        ];
        let cfg = RunConfig {
            ranges: vec![],
            max_steps: 4000,
            record_atoms: false,
            yield_after: true,
            site_filter: Some(filter()),
        };
        let res = sched::run(cfg, bodies, strat);
        out.emit(&reset);
        for e in &res.log {
            if let LogEntry::Api { ev, .. } = e {
                out.emit(ev)
            }
        }
        let completed = res.outcome == Outcome::Completed && res.panics.is_empty();
        if !completed {
            anomalies += 1;
        }
        let (hasdata, borrowed) = {
            let r = receiver.lock().unwrap();
            (r.has_data(ch), r.borrow_count(ch))
        };
        let panics: Vec<Value> = res.panics.iter().map(|(t, m)| json!({"t":t,"msg":m})).collect();
        out.emit(&json!({"k":"end","outcome": if res.outcome == Outcome::Completed {"completed"} else {"aborted"},
                         "hasdata":hasdata,"borrowed":borrowed,"sched":res.schedule,"panics":panics}));
        drop(receiver);
        drop(sender_slot);
        let _ = unsafe { <C as iceoryx2_cal::named_concept::NamedConceptMgmt>::remove_cfg(&name, &Default::default()) };
        executions += 1;
    };

    match mode.as_str() {
        "dfs" => {
            let mut dfs = Dfs::new(bound);
            loop {
                if !dfs.next_run() {
                    exhausted = true;
                    break;
                }
                one(&mut dfs, &mut out);
                if dfs.runs >= runs {
                    break;
                }
            }
        }
        "random" => {
            let mut rng = vlib::rng::Rng::new(seed);
            for _ in 0..runs {
                let mut s = RandomWalk { rng: vlib::rng::Rng::new(rng.next()), switch_percent: 35 };
                one(&mut s, &mut out);
            }
        }
        "seq" => {
            let mut s = Replay::new(vec![]);
            one(&mut s, &mut out);
        }
        m => panic!("unknown mode {m}"),
    }
    out.flush();
    println!(
        "{}",
        json!({"executions": executions, "anomalies": anomalies, "exhausted": exhausted, "lines": out.lines,
               "storage": storage, "mode": mode, "seed": seed, "buf": buf, "maxbor": maxbor, "ovf": ovf})
    );
}

pub fn main(args: &Args) {
    match args.get_or("storage", "local").as_str() {
        "local" => run::<zero_copy_connection::process_local::Connection>(args, "local"),
        "shm" => run::<zero_copy_connection::posix_shared_memory::Connection>(args, "shm"),
        s => panic!("unknown storage {s}"),
    }
}

// ------------------------------------------------------------------------------------------------
// several channels x several segments, sequential histories (ConnChannels.tla)
//
//   drv-event zccm --storage local|shm --runs N --steps K --out f
// Every run draws a configuration (channels 1..6, segments 1..3, buffer 1..2, max borrow 1..2, overflow) and a
// random history that prefers one "focus" channel (so that per-channel limits are reached while other channels
// exist); a third of the runs end with the receiver dropped and `acquire_used_offsets`.

const NS_MULTI: usize = 4; // chunks per segment

fn run_multi<C: ZeroCopyConnection + 'static>(args: &Args, storage: &str) {
    use iceoryx2_cal::shm_allocator::SegmentId;
    let runs = args.num("runs", 50);
    let steps = args.num("steps", 60);
    let mut rng = vlib::rng::Rng::new(vlib::seed_from_env() ^ 0x5eed_c03);
    let mut out = TraceWriter::create(&args.get_or("out", "/dev/stdout"));
    let mut counts: std::collections::BTreeMap<String, u64> = Default::default();
    let mut panics = 0u64;
    for run in 0..runs {
        let nch = *rng.pick(&[1usize, 2, 3, 6, 6]);
        let nseg = *rng.pick(&[1usize, 2, 3, 3]);
        let buf = 1 + rng.below(2) as usize;
        let maxbor = 1 + rng.below(2) as usize;
        let ovf = rng.chance(1, 2);
        let n = NAME_COUNTER.fetch_add(1, Ordering::SeqCst);
        let name = FileName::new(format!("verif_zccm_{}_{}", std::process::id(), n).as_bytes()).unwrap();
        let mk = || {
            C::Builder::new(&name)
                .buffer_size(buf)
                .receiver_max_borrowed_chunks_per_channel(maxbor)
                .enable_safe_overflow(ovf)
                .number_of_chunks_per_segment(NS_MULTI)
                .max_supported_shared_memory_segments(nseg as u8)
                .number_of_channels(nch)
                .timeout(Duration::ZERO)
        };
        out.emit(&json!({"k":"reset","storage":storage,"buf":buf,"maxbor":maxbor,"ovf":ovf,"nch":nch,"nseg":nseg,"run":run}));
        let sender = mk().create_sender().expect("sender");
        let mut receiver = Some(mk().create_receiver().expect("receiver"));
        let focus = rng.below(nch as u64) as usize;
        // items the sender may use: (segment, index); in flight = handed out and not yet back
        let mut inflight: Vec<(usize, usize)> = vec![];
        let mut borrowed: Vec<Vec<(usize, usize)>> = vec![vec![]; nch];
        let po = |it: (usize, usize)| PointerOffset::from_offset_and_segment_id(it.1 * SAMPLE, SegmentId::new(it.0 as u8));
        let item = |o: PointerOffset| (o.segment_id().value() as usize, o.offset() / SAMPLE);
        let mut emit = |out: &mut TraceWriter, a: &str, c: usize, it: (usize, usize), r: String, rit: (usize, usize), hasdata: bool, nb: usize, items: Vec<(usize, usize)>| {
            *counts.entry(format!("{a}:{r}")).or_insert(0) += 1;
            out.emit(&json!({"k":"op","a":a,"c":c,"seg":it.0,"v":it.1,"r":r,"rseg":rit.0,"rv":rit.1,
                             "hasdata":hasdata,"borrowed":nb,"items":items.iter().map(|i| json!([i.0, i.1])).collect::<Vec<_>>()}));
        };
        let body = std::panic::catch_unwind(std::panic::AssertUnwindSafe(|| {
            for _ in 0..steps {
                let c = if rng.chance(3, 5) { focus } else { rng.below(nch as u64) as usize };
                let ch = ChannelId::new(c);
                let rcv = receiver.as_ref().unwrap();
                match rng.below(10) {
                    0..=3 => {
                        let free: Vec<(usize, usize)> = (0..nseg).flat_map(|s| (0..NS_MULTI).map(move |i| (s, i))).filter(|it| !inflight.contains(it)).collect();
                        if free.is_empty() {
                            continue;
                        }
                        let it = *rng.pick(&free);
                        // contract of the sender side (what every port does): everything that was returned is reclaimed
                        // before the next sample is pushed - only then buffer + max borrow + 1 completion slots suffice
                        loop {
                            match sender.reclaim(ch) {
                                Ok(None) => break,
                                Ok(Some(o)) => {
                                    let r = item(o);
                                    inflight.retain(|x| *x != r);
                                    emit(&mut out, "reclaim", c, (0, 0), "some".into(), r, false, 0, vec![]);
                                }
                                Err(e) => {
                                    emit(&mut out, "reclaim", c, (0, 0), format!("{e:?}"), (0, 0), false, 0, vec![]);
                                    break;
                                }
                            }
                        }
                        if inflight.contains(&it) {
                            continue;
                        }
                        match sender.try_send(po(it), SAMPLE, ch) {
                            Ok(None) => {
                                inflight.push(it);
                                emit(&mut out, "send", c, it, "ok".into(), (0, 0), false, 0, vec![]);
                            }
                            Ok(Some(o)) => {
                                inflight.push(it);
                                let ev = item(o);
                                inflight.retain(|x| *x != ev);
                                emit(&mut out, "send", c, it, "evicted".into(), ev, false, 0, vec![]);
                            }
                            Err(ZeroCopySendError::ReceiveBufferFull) => emit(&mut out, "send", c, it, "full".into(), (0, 0), false, 0, vec![]),
                            Err(e) => emit(&mut out, "send", c, it, format!("{e:?}"), (0, 0), false, 0, vec![]),
                        }
                    }
                    4..=6 => match rcv.receive(ch) {
                        Ok(None) => emit(&mut out, "recv", c, (0, 0), "none".into(), (0, 0), false, 0, vec![]),
                        Ok(Some(o)) => {
                            borrowed[c].push(item(o));
                            emit(&mut out, "recv", c, (0, 0), "some".into(), item(o), false, 0, vec![]);
                        }
                        Err(ZeroCopyReceiveError::ReceiveWouldExceedMaxBorrowValue) => {
                            emit(&mut out, "recv", c, (0, 0), "maxborrow".into(), (0, 0), false, 0, vec![])
                        }
                    },
                    7 => {
                        // release: rarely, and preferably everything of a channel at once (the completion queue fills)
                        let cands: Vec<usize> = (0..nch).filter(|k| !borrowed[*k].is_empty()).collect();
                        if cands.is_empty() {
                            continue;
                        }
                        let k = *rng.pick(&cands);
                        let all = rng.chance(1, 2);
                        while let Some(it) = borrowed[k].first().copied() {
                            borrowed[k].remove(0);
                            let r = match rcv.release(po(it), ChannelId::new(k)) {
                                Ok(()) => "ok".to_string(),
                                Err(e) => format!("{e:?}"),
                            };
                            emit(&mut out, "rel", k, it, r, (0, 0), false, 0, vec![]);
                            if !all {
                                break;
                            }
                        }
                    }
                    8 => match sender.reclaim(ch) {
                        Ok(None) => emit(&mut out, "reclaim", c, (0, 0), "none".into(), (0, 0), false, 0, vec![]),
                        Ok(Some(o)) => {
                            let it = item(o);
                            inflight.retain(|x| *x != it);
                            emit(&mut out, "reclaim", c, (0, 0), "some".into(), it, false, 0, vec![]);
                        }
                        Err(e) => emit(&mut out, "reclaim", c, (0, 0), format!("{e:?}"), (0, 0), false, 0, vec![]),
                    },
                    _ => {
                        let (h, b) = (rcv.has_data(ch), rcv.borrow_count(ch));
                        emit(&mut out, "obs", c, (0, 0), "ok".into(), (0, 0), h, b, vec![]);
                    }
                }
            }
            if rng.chance(1, 3) {
                receiver = None;
                emit(&mut out, "drop_receiver", 0, (0, 0), "ok".into(), (0, 0), false, 0, vec![]);
                let mut items: Vec<(usize, usize)> = vec![];
                unsafe { sender.acquire_used_offsets(|o| items.push(item(o))) };
                emit(&mut out, "acquire_used", 0, (0, 0), "ok".into(), (0, 0), false, 0, items);
            }
        }));
        if body.is_err() {
            panics += 1;
            out.emit(&json!({"k":"op","a":"panic","c":0,"seg":0,"v":0,"r":"panic","rseg":0,"rv":0,"hasdata":false,"borrowed":0,"items":[]}));
        }
        out.emit(&json!({"k":"end"}));
        drop(receiver);
        drop(sender);
        let _ = unsafe { <C as iceoryx2_cal::named_concept::NamedConceptMgmt>::remove_cfg(&name, &Default::default()) };
    }
    out.flush();
    println!("{}", json!({"executions": runs, "panics": panics, "lines": out.lines, "storage": storage, "counts": counts}));
}

pub fn main_multi(args: &Args) {
    match args.get_or("storage", "local").as_str() {
        "local" => run_multi::<zero_copy_connection::process_local::Connection>(args, "local"),
        "shm" => run_multi::<zero_copy_connection::posix_shared_memory::Connection>(args, "shm"),
        s => panic!("unknown storage {s}"),
    }
}
