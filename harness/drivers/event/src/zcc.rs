//! One channel of a zero-copy connection between a sender thread and a receiver thread under
//! the scheduler (C03, second half).
//!
//!   drv-event zcc --storage local|shm --buf B --maxbor M [--overflow] --prog '<json>' --mode … --out f
//!
//! prog = {"s": [ops of the sender thread], "r": [ops of the receiver thread]};
//! sender ops: "s" (try_send of the lowest sample index the sender does not use), "c" (reclaim);
//! receiver ops: "r" (receive), "l" (release the oldest borrowed sample).
//! Events: call {t,a,v}, ret {t,a,r,v}; end {hasdata, borrowed}.

use core::time::Duration;
use iceoryx2_bb_container::semantic_string::SemanticString;
use iceoryx2_bb_system_types::file_name::FileName;
use iceoryx2_cal::named_concept::NamedConceptBuilder;
use iceoryx2_cal::shm_allocator::PointerOffset;
use iceoryx2_cal::zero_copy_connection::{
    self, ChannelId, ZeroCopyConnection, ZeroCopyConnectionBuilder, ZeroCopyReceiveError, ZeroCopyReceiver,
    ZeroCopySendError, ZeroCopySender,
};
use std::sync::atomic::{AtomicU64, Ordering};
use std::sync::{Arc, Mutex};
use vlib::sched::{self, Dfs, LogEntry, Outcome, RandomWalk, Replay, RunConfig, Strategy};
use vlib::trace::TraceWriter;
use vlib::{Args, Value, json};

static NAME_COUNTER: AtomicU64 = AtomicU64::new(0);
const SAMPLE: usize = 8;
const NSAMPLES: usize = 8;

fn filter() -> sched::SiteFilter {
    Arc::new(|s: &sched::Site| {
        s.file.ends_with("safely_overflowing_index_queue.rs")
            || s.file.ends_with("spsc/index_queue.rs")
            || s.file.ends_with("used_chunk_list.rs")
            || (s.file.ends_with("zero_copy_connection/common.rs") && s.width != 1)
    })
}

fn run<C: ZeroCopyConnection + 'static>(args: &Args, storage: &str)
where
    C::Sender: Send + 'static,
    C::Receiver: Send + 'static,
{
    let v: Value = serde_json::from_str(&args.get_or("prog", r#"{"s":["s","s","c"],"r":["r","l"]}"#)).expect("bad --prog");
    let sprog: Vec<String> = v["s"].as_array().unwrap().iter().map(|x| x.as_str().unwrap().to_string()).collect();
    let rprog: Vec<String> = v["r"].as_array().unwrap().iter().map(|x| x.as_str().unwrap().to_string()).collect();
    let buf = args.num("buf", 2) as usize;
    let maxbor = args.num("maxbor", 2) as usize;
    let ovf = args.flag("overflow");
    let mode = args.get_or("mode", "dfs");
    let bound = args.num("bound", 2) as usize;
    let runs = args.num("runs", 1000);
    let seed = vlib::seed_from_env();
    let mut out = TraceWriter::create(&args.get_or("out", "/dev/stdout"));
    let reset = json!({"k":"reset","storage":storage,"buf":buf,"maxbor":maxbor,"ovf":ovf});
    let mut executions = 0u64;
    let mut anomalies = 0u64;
    let mut exhausted = false;

    let mut one = |strat: &mut dyn Strategy, out: &mut TraceWriter| {
        let n = NAME_COUNTER.fetch_add(1, Ordering::SeqCst);
        let name = FileName::new(format!("verif_zcc_{}_{}", std::process::id(), n).as_bytes()).unwrap();
        let mk = || {
            C::Builder::new(&name)
                .buffer_size(buf)
                .receiver_max_borrowed_chunks_per_channel(maxbor)
                .enable_safe_overflow(ovf)
                .number_of_chunks_per_segment(NSAMPLES)
                .timeout(Duration::ZERO)
        };
        let sender = mk().create_sender().expect("sender");
        let receiver = Arc::new(Mutex::new(mk().create_receiver().expect("receiver")));
        let ch = ChannelId::new(0);
        let (sp, rp) = (sprog.clone(), rprog.clone());
        let r2 = receiver.clone();
        let bodies: Vec<sched::Body> = vec![
            Box::new(move || {
                let mut used: Vec<bool> = vec![false; NSAMPLES];
                for op in sp {
                    sched::yield_api(&op);
                    if op == "s" {
                        let Some(k) = used.iter().position(|u| !*u) else { continue };
                        sched::log_api(json!({"k":"call","t":0,"a":"send","v":k}));
                        let r = sender.try_send(PointerOffset::new(k * SAMPLE), SAMPLE, ch);
                        let (r, v): (String, usize) = match r {
                            Ok(None) => {
                                used[k] = true;
                                ("ok".into(), 0)
                            }
                            Ok(Some(o)) => {
                                used[k] = true;
                                used[o.offset() / SAMPLE] = false;
                                ("evicted".into(), o.offset() / SAMPLE)
                            }
                            Err(ZeroCopySendError::ReceiveBufferFull) => ("full".into(), 0),
                            Err(e) => (format!("{e:?}"), 0),
                        };
                        sched::log_api(json!({"k":"ret","t":0,"a":"send","r":r,"v":v}));
                    } else {
                        sched::log_api(json!({"k":"call","t":0,"a":"reclaim","v":0}));
                        let (r, v): (String, usize) = match sender.reclaim(ch) {
                            Ok(None) => ("none".into(), 0),
                            Ok(Some(o)) => {
                                used[o.offset() / SAMPLE] = false;
                                ("some".into(), o.offset() / SAMPLE)
                            }
                            Err(e) => (format!("{e:?}"), 0),
                        };
                        sched::log_api(json!({"k":"ret","t":0,"a":"reclaim","r":r,"v":v}));
                    }
                }
                // keep the sender alive until the end of the execution
                std::mem::forget(sender);
            }),
            Box::new(move || {
                let receiver = r2.lock().unwrap();
                let mut bor: Vec<usize> = vec![];
                for op in rp {
                    sched::yield_api(&op);
                    if op == "r" {
                        sched::log_api(json!({"k":"call","t":1,"a":"recv","v":0}));
                        let (r, v): (String, usize) = match receiver.receive(ch) {
                            Ok(None) => ("none".into(), 0),
                            Ok(Some(o)) => {
                                bor.push(o.offset() / SAMPLE);
                                ("some".into(), o.offset() / SAMPLE)
                            }
                            Err(ZeroCopyReceiveError::ReceiveWouldExceedMaxBorrowValue) => ("maxborrow".into(), 0),
                        };
                        sched::log_api(json!({"k":"ret","t":1,"a":"recv","r":r,"v":v}));
                    } else {
                        if bor.is_empty() {
                            continue;
                        }
                        let k = bor.remove(0);
                        sched::log_api(json!({"k":"call","t":1,"a":"rel","v":k}));
                        let r = match receiver.release(PointerOffset::new(k * SAMPLE), ch) {
                            Ok(()) => "ok".to_string(),
                            Err(e) => format!("{e:?}"),
                        };
                        sched::log_api(json!({"k":"ret","t":1,"a":"rel","r":r,"v":0}));
                    }
                }
            }),
        ];
        let cfg = RunConfig {
            ranges: vec![],
            max_steps: 4000,
            record_atoms: false,
            yield_after: true,
            site_filter: Some(filter()),
        };
        let res = sched::run(cfg, bodies, strat);
        out.emit(&reset);
        for e in &res.log {
            if let LogEntry::Api { ev, .. } = e {
                out.emit(ev)
            }
        }
        let completed = res.outcome == Outcome::Completed && res.panics.is_empty();
        if !completed {
            anomalies += 1;
        }
        let (hasdata, borrowed) = {
            let r = receiver.lock().unwrap();
            (r.has_data(ch), r.borrow_count(ch))
        };
        let panics: Vec<Value> = res.panics.iter().map(|(t, m)| json!({"t":t,"msg":m})).collect();
        out.emit(&json!({"k":"end","outcome": if res.outcome == Outcome::Completed {"completed"} else {"aborted"},
                         "hasdata":hasdata,"borrowed":borrowed,"sched":res.schedule,"panics":panics}));
        drop(receiver);
        let _ = unsafe { <C as iceoryx2_cal::named_concept::NamedConceptMgmt>::remove_cfg(&name, &Default::default()) };
        executions += 1;
    };

    match mode.as_str() {
        "dfs" => {
            let mut dfs = Dfs::new(bound);
            loop {
                if !dfs.next_run() {
                    exhausted = true;
                    break;
                }
                one(&mut dfs, &mut out);
                if dfs.runs >= runs {
                    break;
                }
            }
        }
        "random" => {
            let mut rng = vlib::rng::Rng::new(seed);
            for _ in 0..runs {
                let mut s = RandomWalk { rng: vlib::rng::Rng::new(rng.next()), switch_percent: 35 };
                one(&mut s, &mut out);
            }
        }
        "seq" => {
            let mut s = Replay::new(vec![]);
            one(&mut s, &mut out);
        }
        m => panic!("unknown mode {m}"),
    }
    out.flush();
    println!(
        "{}",
        json!({"executions": executions, "anomalies": anomalies, "exhausted": exhausted, "lines": out.lines,
               "storage": storage, "mode": mode, "seed": seed, "buf": buf, "maxbor": maxbor, "ovf": ovf})
    );
}

pub fn main(args: &Args) {
    match args.get_or("storage", "local").as_str() {
        "local" => run::<zero_copy_connection::process_local::Connection>(args, "local"),
        "shm" => run::<zero_copy_connection::posix_shared_memory::Connection>(args, "shm"),
        s => panic!("unknown storage {s}"),
    }
}
